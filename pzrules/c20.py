"""C20 — thread count and scheduling never change results.

THR-1 no shared mutable state (static mut / non-Freeze statics / interior mutability in library types)
THR-2 backend handle is only ever read through Module::ptr (justifies unsafe impl Sync)
THR-3 poulpy-bin-fhe has no unsafe; split_mut is built from split_at_mut only
THR-4 exact partition at every thread::scope site
THR-5 single-thread variants forward to the multi-thread body with threads = 1
"""
from . import facts
from .cfg import CFG, Flow
from .sym import Sym, Poly

LIB = ("poulpy_hal", "poulpy_core", "poulpy_cpu_ref", "poulpy_cpu_avx", "poulpy_bin_fhe", "poulpy_ckks")
INTERIOR = ("UnsafeCell<", "::Cell<", "RefCell<", "Atomic", "Mutex<", "RwLock<", "OnceCell<", "OnceLock<", "LazyLock<", "Lazy<", "LazyCell<", "Condvar")
SYNC_FNS = ("std::thread::spawn", "thread_local", "std::sync::atomic", "std::sync::Mutex", "std::sync::RwLock", "std::sync::mpsc", "std::sync::OnceLock",
            "std::sync::LazyLock", "once_cell::", "core::sync::atomic", "core::cell::", "std::cell::")


def thr1(p, res):
    n_static = 0
    for c in p.crates.values():
        for s in c.statics:
            if s.get("test"):
                continue
            n_static += 1
            u = c.defs[s["d"]]["u"]
            if s["mut"]:
                res.bad("THR-1", u, "static-mut", "`static mut %s` is shared mutable state" % u, site="%s:%s" % (s["sp"][0], s["sp"][1]))
            elif not s["freeze"]:
                res.bad("THR-1", u, "static-interior-mut", "static %s : %s is not Freeze (interior mutability)" % (u, c.tys[s["ty"]]["s"]),
                        site="%s:%s" % (s["sp"][0], s["sp"][1]))
            else:
                res.ok("THR-1")
    n_adt = 0
    for c in p.crates.values():
        for a in c.adts:
            if a.get("test"):
                continue
            n_adt += 1
            u = c.defs[a["d"]]["u"]
            hit = None
            for v in a["vars"]:
                for f in v["fs"]:
                    ts = c.tys[f["ty"]]["s"]
                    if any(x in ts for x in INTERIOR):
                        hit = (f["n"], ts)
            if a.get("freeze") is False:
                hit = hit or ("<type>", "not Freeze")
            if hit:
                res.bad("THR-1", u, "field:%s" % hit[0], "library type %s has interior-mutable field %s: %s" % (u, hit[0], hit[1]),
                        site="%s:%s" % (a["sp"][0], a["sp"][1]))
            else:
                res.ok("THR-1")
    # uses of synchronisation / interior-mutability / thread-local machinery in library bodies
    n_calls = 0
    for f in p.lib_fns():
        for bi, t in f.calls():
            n_calls += 1
            d = f.callee_def(t)
            if not d:
                continue
            pr = d["p"]
            if any(pr.startswith(x) or (x in pr and x.endswith("::")) for x in SYNC_FNS):
                res.bad("THR-1", f.pretty, "call:%s" % pr, "library function %s uses %s (shared mutable / synchronised state)" % (f.pretty, pr), site=f.where(t["l"]))
        for blk in f.blocks:
            for s in blk["s"]:
                if s[0] == "A" and s[2]["k"] == "ThreadLocalRef":
                    res.bad("THR-1", f.pretty, "thread-local", "library function %s reads a thread_local" % f.pretty, site=f.where(s[3]))
    res.callsites += n_calls
    res.floor("THR-1", "statics", n_static, 11)
    res.floor("THR-1", "library ADTs", n_adt, 150)
    # positive control: the rule's matcher recognises interior mutability in a type string
    assert any(x in "core::cell::UnsafeCell<u8>" for x in INTERIOR)
    return n_static, n_adt


def thr2(p, res):
    """results of Module::ptr / as_mut_ptr are only dereferenced as shared places"""
    sites = 0
    for f in p.lib_fns():
        for bi, t in f.calls():
            u = f.callee_uid(t) or ""
            if not (u.startswith("poulpy_hal::layouts::module::") and (u.endswith("::ptr") or u.endswith("::as_mut_ptr"))):
                continue
            if f.uid.startswith("poulpy_hal::layouts::module::"):
                continue  # the accessor definitions and Drop (destroy) themselves
            sites += 1
            dest = t["d"][0]
            # follow the pointer: every use must be `&(*p)` (shared reborrow) or a copy/cast that is itself only so used
            flow = Flow(f)
            work = [dest]
            seen = set()
            ok = True
            while work:
                l = work.pop()
                if l in seen:
                    continue
                seen.add(l)
                for b2 in f.blocks:
                    if b2["c"]:
                        continue
                    for s in b2["s"]:
                        if s[0] == "CNO":
                            for o in (s[2],):
                                if o[0] in ("c", "m") and o[1][0] == l:
                                    ok = False
                                    why = "copy_nonoverlapping destination"
                            continue
                        if s[0] != "A":
                            continue
                        pl, rv = s[1], s[2]
                        # store through the pointer
                        if pl[0] == l and "*" in pl[1:]:
                            ok = False
                            why = "store through the handle pointer"
                        k = rv["k"]
                        if k in ("Ref", "RawPtr") and rv["p"][0] == l and "*" in rv["p"][1:]:
                            if rv["m"]:
                                ok = False
                                why = "`&mut *ptr` on the backend handle"
                        elif k in ("Use", "Cast") and rv["o"][0][0] in ("c", "m") and rv["o"][0][1][0] == l and len(rv["o"][0][1]) == 1:
                            if len(pl) == 1:
                                work.append(pl[0])
                    t2 = b2["t"]
                    if t2 and t2["k"] == "Call":
                        for a in t2["a"]:
                            if a[0] in ("c", "m") and a[1][0] == l and len(a[1]) == 1:
                                d2 = f.callee_def(t2)
                                nm = d2["p"] if d2 else "?"
                                # passing the raw handle on: only allowed to read-only std pointer helpers
                                if not any(x in nm for x in ("ptr::const_ptr", "NonNull", "as_ref", "is_null", "panicking", "fmt::")):
                                    ok = False
                                    why = "handle pointer passed to %s" % nm
            if ok:
                res.ok("THR-2", {"fn": f.pretty, "site": f.where(t["l"]), "use": "&*ptr"})
            else:
                res.bad("THR-2", f.pretty, "handle-mutation", "backend handle obtained from Module::%s is not used read-only: %s" % (u.rsplit("::", 1)[1], why),
                        site=f.where(t["l"]))
    res.floor("THR-2", "Module::ptr use sites", sites, 6)
    # Handle types must be Freeze (non-generic ADTs carry the flag)
    handles = 0
    for im in p.impls:
        if im["trait"] == "poulpy_hal::layouts::module::Backend" and not im["test"]:
            handles += 1
    res.floor("THR-2", "Backend impls", handles, 4, ref_min=2)


def thr3(p, res):
    n = 0
    for f in p.crates["poulpy_bin_fhe"].fns:
        if f.is_test():
            continue
        n += 1
        if f.unsafe:
            res.bad("THR-3", f.pretty, "unsafe-fn", "poulpy-bin-fhe declares unsafe fn %s; the borrow checker's disjointness proof no longer covers it" % f.pretty, site=f.where())
        # unsafe blocks are visible as calls to unsafe fns / raw derefs: approximate by raw-pointer deref places or calls to unsafe std fns
        for blk in f.blocks:
            if blk["c"]:
                continue
            for s in blk["s"]:
                if s[0] == "CNO":
                    res.bad("THR-3", f.pretty, "raw-copy", "raw copy_nonoverlapping in poulpy-bin-fhe", site=f.where(s[4]))
                if s[0] != "A":
                    continue
                for pl in [s[1]] + ([s[2]["p"]] if "p" in s[2] else []):
                    if "*" in pl[1:]:
                        ty = f.local_ty(pl[0])
                        if ty.get("r", "").startswith("*"):
                            res.bad("THR-3", f.pretty, "raw-deref", "raw pointer dereference in poulpy-bin-fhe (%s)" % f.pretty, site=f.where(s[3]))
    for im in p.impls:
        if im["crate"] == "poulpy_bin_fhe" and im["unsafe"] and not im["test"] and im["trait"] != "core::clone::TrivialClone":  # emitted by #[derive(Clone, Copy)]
            res.bad("THR-3", im["uid"], "unsafe-impl", "unsafe impl in poulpy-bin-fhe: %s for %s" % (im["trait"], im["self"]))
    res.ok("THR-3", {"bodies_without_unsafe": n}, n=1)
    res.floor("THR-3", "bin-fhe bodies", n, 340)
    # split_mut: built only from split_at_mut; per-thread windows pushed in order
    sm = [f for f in p.fns.values() if f.uid.endswith("::split_mut") and f.uid.startswith("poulpy_hal::api::scratch::")]
    if len(sm) != 1:
        res.bad("THR-3", "Scratch::split_mut", "anchor-lost:split_mut", "Scratch::split_mut not found")
        return
    f = sm[0]
    names = set()
    for bi, t in f.calls():
        d = f.callee_def(t)
        if d and d["u"].startswith("poulpy_hal"):
            names.add(d.get("n"))
    if f.unsafe or not names <= {"split_at_mut", "available"} or "split_at_mut" not in names:
        res.bad("THR-3", f.pretty, "carving", "Scratch::split_mut carves windows with %s (expected only split_at_mut)" % sorted(names), site=f.where())
    else:
        # the loop runs exactly n times: Range 0..n with n = parameter 2, len = parameter 3
        flow = Flow(f)
        sym = Sym(f, flow)
        okp = False
        for bi, t in f.calls():
            if f.callee_def(t).get("n") == "split_at_mut":
                a = sym.operand(t["a"][1])
                if a == Poly.atom(("p", 3, ())):
                    okp = True
        if okp:
            res.ok("THR-3", {"fn": f.pretty, "carves": "n windows of `len` bytes via split_at_mut"})
        else:
            res.bad("THR-3", f.pretty, "window-size", "split_mut does not carve windows of the requested `len`", site=f.where())


# ------------------------------------------------------------------ THR-4
ITER_TRANSPARENT = {"into_iter", "by_ref"}


def iter_term(fn, flow, sym, op, depth=0):
    """iterator expression as a nested tuple"""
    if depth > 20:
        return ("?",)
    rr = [r for r in flow.op_roots(op)]
    calls = [r for r in rr if r[0] == "call"]
    if len(calls) == 1 and len(rr) == 1:
        t = fn.blocks[calls[0][1]]["t"]
        d = fn.callee_def(t)
        n = d.get("n")
        if n in ITER_TRANSPARENT:
            return iter_term(fn, flow, sym, t["a"][0], depth + 1)
        if n in ("iter_mut", "iter", "deref_mut", "deref"):
            inner = iter_term(fn, flow, sym, t["a"][0], depth + 1)
            if n.startswith("deref"):
                return inner
            return (n, inner)
        if n in ("zip",):
            return ("zip", iter_term(fn, flow, sym, t["a"][0], depth + 1), iter_term(fn, flow, sym, t["a"][1], depth + 1))
        if n in ("enumerate", "rev", "skip", "take", "step_by", "chain", "filter", "map"):
            return (n,) + tuple(iter_term(fn, flow, sym, a, depth + 1) for a in t["a"][:1]) + tuple(("arg", sym.operand(a)) for a in t["a"][1:])
        if n in ("chunks_mut", "chunks", "chunks_exact_mut", "chunks_exact"):
            return (n, iter_term(fn, flow, sym, t["a"][0], depth + 1), sym.operand(t["a"][1]))
        if n in ("index_mut", "index"):
            return ("slice", iter_term(fn, flow, sym, t["a"][0], depth + 1), range_term(fn, flow, sym, t["a"][1]))
        return ("call", n, calls[0][1])
    if len(rr) == 1:
        r = list(rr)[0]
        if r[0] == "param":
            if fn.kind == "Closure" and r[1] == 1 and r[2]:
                return ("cap", r[2][0], r[2][1:])
            return ("param", r[1], r[2])
    return ("?", tuple(sorted(map(repr, rr))))


def range_term(fn, flow, sym, op):
    """Range / RangeTo aggregate -> (lo poly, hi poly) or None"""
    if op[0] not in ("c", "m"):
        return None
    ds = flow.defs.get(op[1][0], [])
    for d in ds:
        if d[0] == "stmt" and d[4]["k"] == "Agg" and d[4].get("ak") == "Adt":
            nm = fn.d(d[4]["adt"])["p"]
            ops = d[4]["o"]
            fields = d[4]["fields"]
            vals = {fields[i]: sym.operand(ops[i]) for i in range(len(ops))}
            if nm.endswith("ops::RangeTo") or nm.endswith("range::RangeTo"):
                return (Poly.const(0), vals["end"])
            if nm.endswith("ops::Range") or nm.endswith("range::Range"):
                return (vals["start"], vals["end"])
            if nm.endswith("RangeFull"):
                return ("full",)
            return None
    return None


def closure_creation(fn, clos_uid):
    """(bb, stmt) of the Agg Closure creating clos_uid in fn, with operands"""
    for bi, blk in enumerate(fn.blocks):
        for s in blk["s"]:
            if s[0] == "A" and s[2]["k"] == "Agg" and s[2].get("ak") == "Closure" and fn.duid(s[2]["clos"]) == clos_uid:
                return bi, s
    return None


def cap_subst_for(parent_fn, parent_sym, clos_uid):
    cc = closure_creation(parent_fn, clos_uid)
    out = {}
    if cc is None:
        return out
    for i, o in enumerate(cc[1][2]["o"]):
        out[str(i)] = parent_sym.operand(o)
    return out


def thr4(p, res):
    sites = []
    for f in p.lib_fns():
        for bi, t in f.calls():
            d = f.callee_def(t)
            if d and d["p"] == "std::thread::scope":
                sites.append((f, bi, t))
    res.floor("THR-4", "thread::scope sites", len(sites), 2)
    for f, bi, t in sites:
        fkey = f.pretty
        cl = f.callee_closures(t)
        if len(cl) != 1 or p.fn(cl[0]) is None:
            res.bad("THR-4", fkey, "scope-closure", "thread::scope is not called with a literal closure", site=f.where(t["l"]))
            continue
        mid = p.fn(cl[0])
        flow_f = Flow(f)
        sym_f = Sym(f, flow_f)
        caps_mid = cap_subst_for(f, sym_f, mid.uid)
        flow_m = Flow(mid)
        sym_m = Sym(mid, flow_m, cap_subst=caps_mid)
        g = CFG(mid)
        # spawn site(s) inside the scope closure
        spawns = [(b2, t2) for b2, t2 in mid.calls() if (mid.callee_def(t2) or {}).get("p", "").endswith("Scope::<'scope, 'env>::spawn")]
        if len(spawns) != 1:
            res.bad("THR-4", fkey, "spawn-count", "expected one scope.spawn inside the scope closure, found %d" % len(spawns), site=mid.where())
            continue
        sb, st = spawns[0]
        loop = g.innermost_loop(sb)
        if loop is None:
            res.bad("THR-4", fkey, "spawn-not-in-loop", "scope.spawn is not inside the partition loop", site=mid.where(st["l"]))
            continue
        # iterator driving the loop: the `next` call in the header
        nxt = None
        for b2 in sorted(loop["body"]):
            t2 = mid.blocks[b2]["t"]
            if t2 and t2["k"] == "Call" and (mid.callee_def(t2) or {}).get("n") == "next":
                nxt = (b2, t2)
                break
        if nxt is None:
            res.bad("THR-4", fkey, "loop-iterator", "partition loop is not driven by an iterator", site=mid.where())
            continue
        it = iter_term(mid, flow_m, sym_m, nxt[1]["a"][0])
        # expected: enumerate(zip(iter_mut(S), chunks_mut(slice(X, range), c)))  (zip operands in either order)
        desc = repr(it)
        if not (it[0] == "enumerate" and isinstance(it[1], tuple) and it[1][0] == "zip"):
            res.bad("THR-4", fkey, "partition-shape", "partition loop iterates %s, expected enumerate(zip(scratches.iter_mut(), items.chunks_mut(chunk)))" % desc, site=mid.where(nxt[1]["l"]))
            continue
        z = it[1]
        parts = {x[0]: x for x in z[1:] if isinstance(x, tuple)}
        if "chunks_mut" not in parts or "iter_mut" not in parts:
            res.bad("THR-4", fkey, "partition-shape", "zip is not between per-thread scratches and chunks_mut of the work items: %s" % desc, site=mid.where(nxt[1]["l"]))
            continue
        ch = parts["chunks_mut"]
        sc = parts["iter_mut"]
        chunk_poly = ch[2]
        # scratches origin: capture -> parent local from split_mut(.., T, per).0
        ok = True
        T = None
        per = None
        if sc[1][0] == "cap":
            capi = sc[1][1]
            cc = closure_creation(f, mid.uid)
            op = cc[1][2]["o"][int(capi)]
            rr = [r for r in flow_f.op_roots(op) if r[0] == "call"]
            good = False
            for r in rr:
                t3 = f.blocks[r[1]]["t"]
                if (f.callee_uid(t3) or "").endswith("::split_mut") and r[2][:1] == ("0",):
                    T = sym_f.operand(t3["a"][1])
                    per = sym_f.operand(t3["a"][2])
                    good = True
            if not good:
                ok = False
                res.bad("THR-4", fkey, "scratch-origin", "per-thread scratches do not come from scratch.split_mut(threads, per_thread).0", site=f.where(t["l"]))
        else:
            ok = False
            res.bad("THR-4", fkey, "scratch-origin", "per-thread scratch iterator is %r" % (sc,), site=mid.where(nxt[1]["l"]))
        if not ok:
            continue
        # chunk = L.div_ceil(T); `max(L.div_ceil(T), 1)` is the same partition (for L > 0 the quotient is >= 1, for L = 0 there is no chunk)
        L = None
        chunk_as_written = chunk_poly
        atoms = list(chunk_poly.t.items())
        if len(atoms) == 1 and atoms[0][1] == 1 and len(atoms[0][0]) == 1 and atoms[0][0][0][0] == "f" and atoms[0][0][0][1] == "max" and len(atoms[0][0][0][2]) == 2:
            x, y = (Poly(dict(k)) for k in atoms[0][0][0][2])
            for u, v in ((x, y), (y, x)):
                if v.is_const() and v.const_value() == 1:
                    chunk_poly = u
                    atoms = list(chunk_poly.t.items())
        if len(atoms) == 1 and atoms[0][1] == 1 and len(atoms[0][0]) == 1 and atoms[0][0][0][0] == "f" and atoms[0][0][0][1] == "div_ceil":
            a = atoms[0][0][0]
            L = Poly(dict(a[2][0]))
            Td = Poly(dict(a[2][1]))
            if Td != T:
                res.bad("THR-4", fkey, "chunk-divisor", "chunk length divides by %r but split_mut creates %r windows" % (Td, T), site=f.where(t["l"]))
                continue
        else:
            res.bad("THR-4", fkey, "chunk-not-ceil", "chunk length is %r, expected items.div_ceil(threads): with a floor or any other length the zip with `threads` scratches drops the tail chunk(s)" % chunk_poly,
                    site=f.where(t["l"]))
            continue
        # chunked slice length == L
        sl = ch[1]
        base = Poly.const(0)
        if sl[0] == "slice" and sl[2] is not None and sl[2] != ("full",):
            lo, hi = sl[2]
            ln = hi - lo
            base = lo
            if ln != L:
                res.bad("THR-4", fkey, "slice-length", "work items are chunked over a slice of length %r but the chunk length is derived from %r" % (ln, L), site=mid.where(nxt[1]["l"]))
                continue
        else:
            res.bad("THR-4", fkey, "slice-shape", "chunked work-item slice is %r (expected items[lo..hi])" % (sl,), site=mid.where(nxt[1]["l"]))
            continue
        res.ok("THR-4", {"fn": fkey, "items": repr(L), "threads": repr(T), "chunk": repr(chunk_poly), "base": repr(base), "per_thread_scratch": repr(per)})
        # assertion that the scratch suffices: available() >= T * per (informational)
        # ---- global index inside the spawned closure
        inn_uid = mid.callee_closures(st)
        if len(inn_uid) != 1 or p.fn(inn_uid[0]) is None:
            res.bad("THR-4", fkey, "spawn-closure", "spawn is not called with a literal closure", site=mid.where(st["l"]))
            continue
        inn = p.fn(inn_uid[0])
        flow_i = Flow(inn)
        caps_inn = cap_subst_for(mid, sym_m, inn.uid)
        sym_i = Sym(inn, flow_i, cap_subst=caps_inn)
        gi = CFG(inn)
        # thread index atom: .0 of the middle enumerate's next()
        tid = Poly.atom(("call", mid.uid, nxt[0], ("0", "0")))
        # local index atom: the inner loop's enumerate next() .0.0
        inext = [(b2, t2) for b2, t2 in inn.calls() if (inn.callee_def(t2) or {}).get("n") == "next"]
        if len(inext) != 1:
            res.bad("THR-4", fkey, "inner-loop", "spawned closure does not contain exactly one item loop (found %d)" % len(inext), site=inn.where())
            continue
        iit = iter_term(inn, flow_i, sym_i, inext[0][1]["a"][0])
        if not (iit[0] == "enumerate" and iit[1][0] == "iter_mut" and iit[1][1][0] == "cap"):
            res.bad("THR-4", fkey, "inner-iter", "item loop iterates %r, expected chunk.iter_mut().enumerate()" % (iit,), site=inn.where(inext[0][1]["l"]))
            continue
        lidx = Poly.atom(("call", inn.uid, inext[0][0], ("0", "0")))
        expected = base + tid * chunk_as_written + lidx
        found = 0
        for b2, t2 in inn.calls():
            for ai, a in enumerate(t2["a"]):
                if a[0] not in ("c", "m"):
                    continue
                ty = inn.local_ty(a[1][0])
                if ty.get("s") != "usize":
                    continue
                pol = sym_i.operand(a)
                ats = pol.atoms()
                if ("call", inn.uid, inext[0][0], ("0", "0")) in ats or ("call", mid.uid, nxt[0], ("0", "0")) in ats:
                    found += 1
                    if pol != expected:
                        res.bad("THR-4", fkey, "global-index:%s" % (inn.callee_def(t2) or {}).get("n"),
                                "work item index passed to %s is %r, the exact partition requires %r" % ((inn.callee_def(t2) or {}).get("n"), pol, expected),
                                site=inn.where(t2["l"]))
                    else:
                        res.ok("THR-4", {"fn": fkey, "call": (inn.callee_def(t2) or {}).get("n"), "index": repr(pol)})
        if found == 0:
            res.bad("THR-4", fkey, "global-index:none", "no call in the spawned closure receives the global work-item index", site=inn.where())
        res.fn_count += 3


def thr5(p, res):
    n = 0
    for tu, tr in p.traits.items():
        if tr["test"] or not tu.startswith("poulpy_"):
            continue
        for name, (iu, has_default) in tr["items"].items():
            mt = name + "_multi_thread"
            if mt not in tr["items"] or name.endswith("_tmp_bytes"):
                continue
            # bodies of `name`: default body or impl items
            bodies = []
            if has_default and p.fn(iu):
                bodies.append(p.fn(iu))
            for ent, impl_item in p.trait_impl_items.get(iu, []):
                if p.fn(impl_item):
                    bodies.append(p.fn(impl_item))
            for f in bodies:
                n += 1
                calls = [(b, t) for b, t in f.calls() if f.callee_def(t) and not f.callee_def(t)["p"].startswith(("core::", "std::", "alloc::"))]
                mt_uid = tr["items"][mt][0]
                if len(calls) != 1:
                    res.bad("THR-5", f.pretty, "not-forwarder", "single-thread variant %s is not a plain forwarder to %s (%d calls)" % (f.pretty, mt, len(calls)), site=f.where())
                    continue
                b, t = calls[0]
                cu = f.callee_uid(t)
                tgt_ok = cu == mt_uid or (f.callee_res(t) and (p.fn(f.callee_res(t)) is not None and p.fn(f.callee_res(t)).trait_item == mt_uid)) \
                    or (f.callee_def(t).get("n") == mt)
                if not tgt_ok:
                    # accepted idiom B: X forwards (without a thread count) to Z, and X_multi_thread forwards to Z_multi_thread,
                    # where Z / Z_multi_thread is itself a pair checked by this rule
                    zn = f.callee_def(t).get("n")
                    okb = False
                    for g in [p.fn(x) for x in ([tr["items"][mt][0]] + [ii for _, ii in p.trait_impl_items.get(tr["items"][mt][0], [])])]:
                        if g is None or (g.impl_uid != f.impl_uid):
                            continue
                        gc = [(b2, t2) for b2, t2 in g.calls() if g.callee_def(t2) and not g.callee_def(t2)["p"].startswith(("core::", "std::", "alloc::"))]
                        if len(gc) == 1 and g.callee_def(gc[0][1]).get("n") == zn + "_multi_thread" and not any(a[0] == "k" and "v" in a[1] for a in t["a"]):
                            okb = True
                    if okb:
                        res.ok("THR-5", {"fn": f.pretty, "forwards_to": zn, "sibling_forwards_to": zn + "_multi_thread"})
                    else:
                        res.bad("THR-5", f.pretty, "forward-target", "single-thread variant %s calls %s instead of %s" % (f.pretty, f.callee_def(t)["p"], mt), site=f.where(t["l"]))
                    continue
                # which argument is `threads`? the parameter named threads of the callee = position of the usize const
                consts = [(i, a[1].get("v")) for i, a in enumerate(t["a"]) if a[0] == "k"]
                if len(consts) != 1 or consts[0][1] != 1:
                    res.bad("THR-5", f.pretty, "threads-const", "single-thread variant %s forwards with constants %s (expected threads = 1)" % (f.pretty, consts), site=f.where(t["l"]))
                    continue
                # remaining args must be the parameters in order
                flow = Flow(f)
                order = []
                for i, a in enumerate(t["a"]):
                    if i == consts[0][0]:
                        continue
                    rr = [r for r in flow.op_roots(a) if r[0] == "param"]
                    order.append(rr[0][1] if len(rr) == 1 else None)
                # multi-thread signatures come in two orders: (self, threads, rest..) and (threads, self..); rest must be increasing
                rest = [x for x in order if x is not None]
                if None in order or sorted(rest) != rest and sorted(rest[1:]) != rest[1:]:
                    res.bad("THR-5", f.pretty, "arg-order", "single-thread variant %s does not pass its parameters through in order: %s" % (f.pretty, order), site=f.where(t["l"]))
                    continue
                res.ok("THR-5", {"fn": f.pretty, "forwards_to": mt, "threads": 1})
    res.floor("THR-5", "single-thread forwarders", n, 14)


RANGE_SUFFIX = ("start", "end", "count", "len", "size", "offset")


def thr6(p, res):
    """window arguments keep their role across forwarding calls: a caller's own parameter named `<x>_end` is not passed, unchanged, in the position a callee declares as
    `<x>_count` / `<x>_len` (nor the other way round) - the partial-preparation wrappers take (bit_start, bit_end) while the trait takes (bit_start, bit_count)"""
    import re
    n = 0

    def role(name):
        m = re.match(r"^(.*)_(%s)$" % "|".join(RANGE_SUFFIX), name or "")
        return (m.group(1), m.group(2)) if m else None
    for f in sorted(p.lib_fns(), key=lambda x: x.uid):
        if f.kind == "Closure" or not f.uid.startswith(("poulpy_bin_fhe", "poulpy_core", "poulpy_ckks")) or not f.blocks:
            continue
        pn = f.param_names()
        mine = {l: role(nm) for l, nm in pn.items() if role(nm) and f.local_ty(l)["s"] == "usize"}
        if not mine:
            continue
        flow = None
        for bi, t in f.calls():
            d = f.callee_def(t) or {}
            if not d.get("u", "").startswith("poulpy_"):
                continue
            names = p.decl_args.get(d.get("u"))
            if not names:
                tg = [p.fn(u) for u in p.targets(f, t) if p.fn(u) is not None]
                if tg:
                    names = [tg[0].param_names().get(i + 1) for i in range(tg[0].argc)]
            if not names:
                continue
            if flow is None:
                flow = Flow(f)
            for i, a in enumerate(t["a"]):
                if i >= len(names) or a[0] not in ("c", "m") or len(a[1]) != 1:
                    continue
                rr = flow.op_roots(a)
                if len(rr) != 1:
                    continue
                r = next(iter(rr))
                if r[0] != "param" or r[2] or r[1] not in mine:
                    continue
                theirs = role(names[i])
                if theirs is None or theirs[0] != mine[r[1]][0]:
                    continue
                n += 1
                if theirs[1] == mine[r[1]][1]:
                    res.ok("THR-6")
                else:
                    res.bad("THR-6", f.pretty, "window-role:%s->%s" % (pn[r[1]], names[i]),
                            "%s passes its parameter `%s` unchanged where %s declares `%s`: a window given as (start, end) is executed as (start, count)"
                            % (f.pretty, pn[r[1]], d.get("n"), names[i]), site=f.where(t["l"]))
    return n


def thr7(p, res):
    """no work item skipped - and no panic - for an empty set of work items: `chunks_mut(c)` panics for c == 0, so a chunk length `items.div_ceil(threads)` is either floored at 1
    or the empty case is decided before (a comparison of the item count with zero dominating the call)"""
    n = 0
    for f in sorted(p.lib_fns(), key=lambda x: x.uid):
        if f.kind == "Closure" or not f.uid.startswith(("poulpy_bin_fhe", "poulpy_core", "poulpy_ckks")) or not f.blocks:
            continue
        bodies = [(f, None)] + [(c, f) for c in p.closures_of(f)]
        psym = Sym(f, Flow(f))
        for body, parent in bodies:
          sites = [(bi, t) for bi, t in body.calls() if (body.callee_def(t) or {}).get("n") in ("chunks_mut", "chunks", "chunks_exact_mut", "chunks_exact") and len(t["a"]) == 2]
          if not sites:
            continue
          if parent is None:
            sym = psym
          else:
            sym = Sym(body, Flow(body), cap_subst=cap_subst_for(f, psym, body.uid))
          g = CFG(f)
          for bi0, t in sites:
            # the empty case has to be decided in the enclosing function, before the closure is created
            bi = bi0 if parent is None else (closure_creation(f, body.uid) or (0, None))[0]
            c = sym.operand(t["a"][1])
            at = list(c.atoms())
            if not (len(c.t) == 1 and len(at) == 1 and at[0][0] == "f"):
                continue
            a = at[0]
            if a[1] == "max" and any(Poly(dict(k)).is_const() and (Poly(dict(k)).const_value() or 0) >= 1 for k in a[2]):
                n += 1
                res.ok("THR-7", {"fn": f.pretty, "chunk": repr(c)})
                continue
            if a[1] != "div_ceil":
                continue
            n += 1
            items = Poly(dict(a[2][0]))
            guarded = False
            for bj in g.reach:
                if bj == bi or not g.dominates(bj, bi):
                    continue
                for st in f.blocks[bj]["s"]:
                    if st[0] == "A" and st[2]["k"] == "Bin" and st[2]["op"] in ("Eq", "Ne", "Gt", "Lt", "Ge", "Le"):
                        x, y = psym.operand(st[2]["o"][0]), psym.operand(st[2]["o"][1])
                        for u, v in ((x, y), (y, x)):
                            if v.is_const() and (v.const_value() or 0) == 0 and (set(u.atoms()) & set(items.atoms())):
                                guarded = True
            if guarded:
                res.ok("THR-7", {"fn": f.pretty, "chunk": repr(c), "empty_case": "decided before"})
            else:
                res.bad("THR-7", f.pretty, "zero-chunk",
                        "%s chunks its work items by `%r`, which is 0 for an empty set of items: slice::chunks_mut(0) panics instead of doing nothing" % (f.pretty, c), site=f.where(t["l"]))
    return n


def run(res, tier):
    res.level = "other"
    res.explanation = ("Non-interference argument decided structurally: (THR-1) the library has no shared mutable state, (THR-2) the backend handle behind "
                       "`unsafe impl Sync for Module` is only read, (THR-3) the threaded crate has no unsafe code so chunks_mut x split_mut disjointness is the borrow "
                       "checker's, (THR-4) at every thread::scope site chunk = ceil(items/threads) of the very slice that is chunked, the scratch list has the same "
                       "`threads`, and the global index is base + thread*chunk + local, (THR-5) single-thread variants are the same code with threads = 1. "
                       "Determinism of each work item given its inputs is delegated to C11/C12 (no stale reads). Bit-equality itself is not executed.")
    res.rule("THR-1", "no static mut, every static Freeze, no library ADT with interior mutability, no thread_local / atomics / locks in library bodies")
    res.rule("THR-2", "pointers returned by Module::ptr/as_mut_ptr are only used as `&*p`")
    res.rule("THR-3", "no unsafe in poulpy-bin-fhe; Scratch::split_mut carves n windows of len bytes via split_at_mut only")
    res.rule("THR-4", "exact partition: chunk = items.div_ceil(threads), scratches = split_mut(threads, per).0, loop = enumerate(zip(scratches.iter_mut(), items[lo..hi].chunks_mut(chunk))), index = lo + thread*chunk + local")
    res.rule("THR-6", "a parameter named <x>_end / <x>_count / <x>_start ... forwarded unchanged lands in a callee parameter of the same role")
    res.rule("THR-7", "a chunk length items.div_ceil(threads) handed to chunks_mut is floored at 1, or the empty case is decided before")
    res.rule("THR-5", "X forwards to X_multi_thread with threads = 1 and its own parameters in order")
    res.assumptions = ["rustc's borrow checker (safe code cannot alias the chunks / scratch windows)", "std::thread::scope joins all threads before returning",
                       "per-item determinism: C11 (no stale output) and C12/SC-3 (scratch contents never read) decide that a work item is a function of its inputs"]
    cfgs = ["avx-dev"] if tier == "quick" else ["avx-dev", "ref-dev", "avx-nodbg"]
    for cfg in cfgs:
        p = facts.load(cfg)
        res.configs.append(p.build_info)
        res.fn_count += len(list(p.lib_fns()))
        thr1(p, res)
        thr2(p, res)
        thr3(p, res)
        thr4(p, res)
        thr5(p, res)
        n7 = thr7(p, res)
        res.floor("THR-7", "chunked work partitions", n7, 2)
        n6 = thr6(p, res)
        res.floor("THR-6", "window arguments forwarded by name", n6, 4)
