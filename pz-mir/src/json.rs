// Minimal JSON value + writer (the driver has zero Cargo dependencies).
use std::fmt::Write;

#[derive(Clone, Debug)]
pub enum J {
    Null,
    Bool(bool),
    Int(i128),
    Str(String),
    Arr(Vec<J>),
    Obj(Vec<(&'static str, J)>),
}

impl J {
    pub fn s<T: Into<String>>(t: T) -> J {
        J::Str(t.into())
    }
    pub fn opt_s(t: Option<String>) -> J {
        match t {
            Some(x) => J::Str(x),
            None => J::Null,
        }
    }
    pub fn write(&self, out: &mut String) {
        match self {
            J::Null => out.push_str("null"),
            J::Bool(b) => out.push_str(if *b { "true" } else { "false" }),
            J::Int(i) => {
                // JSON numbers beyond 2^63 are kept as strings to stay portable
                if *i > i64::MAX as i128 || *i < i64::MIN as i128 {
                    let _ = write!(out, "\"{}\"", i);
                } else {
                    let _ = write!(out, "{}", i);
                }
            }
            J::Str(s) => write_str(s, out),
            J::Arr(v) => {
                out.push('[');
                for (i, x) in v.iter().enumerate() {
                    if i > 0 {
                        out.push(',');
                    }
                    x.write(out);
                }
                out.push(']');
            }
            J::Obj(v) => {
                out.push('{');
                let mut first = true;
                for (k, x) in v.iter() {
                    if !first {
                        out.push(',');
                    }
                    first = false;
                    write_str(k, out);
                    out.push(':');
                    x.write(out);
                }
                out.push('}');
            }
        }
    }
}

fn write_str(s: &str, out: &mut String) {
    out.push('"');
    for c in s.chars() {
        match c {
            '"' => out.push_str("\\\""),
            '\\' => out.push_str("\\\\"),
            '\n' => out.push_str("\\n"),
            '\r' => out.push_str("\\r"),
            '\t' => out.push_str("\\t"),
            c if (c as u32) < 0x20 => {
                let _ = write!(out, "\\u{:04x}", c as u32);
            }
            c => out.push(c),
        }
    }
    out.push('"');
}
