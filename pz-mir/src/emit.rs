use crate::json::J;
use rustc_hir as hir;
use rustc_hir::def::{DefKind, Res};
use rustc_hir::def_id::{DefId, LocalDefId};
use rustc_middle::mir::{
    self, AggregateKind, BasicBlock, BorrowKind, Body, CastKind, Const as MirConst, Operand, Place, ProjectionElem, Rvalue,
    StatementKind, TerminatorKind, UnwindAction, VarDebugInfoContents,
};
use rustc_middle::ty::print::with_no_trimmed_paths;
use rustc_middle::ty::{self, GenericArgsRef, Ty, TyCtxt};
use rustc_span::Span;
use std::collections::HashMap;

pub struct Ctx<'tcx> {
    tcx: TyCtxt<'tcx>,
    defs: Vec<J>,
    def_ix: HashMap<DefId, usize>,
    tys: Vec<J>,
    ty_ix: HashMap<Ty<'tcx>, usize>,
}

fn uid<'tcx>(tcx: TyCtxt<'tcx>, did: DefId) -> String {
    format!("{}{}", tcx.crate_name(did.krate), tcx.def_path(did).to_string_no_crate_verbose())
}

fn pretty<'tcx>(tcx: TyCtxt<'tcx>, did: DefId) -> String {
    with_no_trimmed_paths!(tcx.def_path_str(did))
}

impl<'tcx> Ctx<'tcx> {
    fn def(&mut self, did: DefId) -> J {
        if let Some(&i) = self.def_ix.get(&did) {
            return J::Int(i as i128);
        }
        let tcx = self.tcx;
        let i = self.defs.len();
        self.def_ix.insert(did, i);
        self.defs.push(J::Null);
        let kind = tcx.def_kind(did);
        let mut o: Vec<(&'static str, J)> = vec![
            ("u", J::s(uid(tcx, did))),
            ("p", J::s(pretty(tcx, did))),
            ("k", J::s(format!("{:?}", kind))),
        ];
        if let Some(n) = tcx.opt_item_name(did) {
            o.push(("n", J::s(n.to_string())));
        }
        if matches!(kind, DefKind::AssocFn | DefKind::AssocConst { .. } | DefKind::AssocTy) {
            if let Some(t) = tcx.trait_of_assoc(did) {
                let tj = self.def(t);
                o.push(("tr", tj));
            } else if let Some(imp) = tcx.impl_of_assoc(did) {
                let ij = self.def(imp);
                o.push(("im", ij));
                if let Some(ti) = tcx.associated_item(did).trait_item_def_id() {
                    let tj = self.def(ti);
                    o.push(("ti", tj));
                }
            }
        }
        if matches!(kind, DefKind::Closure) {
            let p = tcx.parent(did);
            let pj = self.def(p);
            o.push(("par", pj));
        }
        if matches!(kind, DefKind::Ctor(..) | DefKind::Variant | DefKind::Field) {
            let p = tcx.parent(did);
            let pj = self.def(p);
            o.push(("par", pj));
        }
        self.defs[i] = J::Obj(o);
        J::Int(i as i128)
    }

    fn ty(&mut self, t: Ty<'tcx>) -> J {
        if let Some(&i) = self.ty_ix.get(&t) {
            return J::Int(i as i128);
        }
        let i = self.tys.len();
        self.ty_ix.insert(t, i);
        self.tys.push(J::Null);
        let s = with_no_trimmed_paths!(format!("{}", t));
        let mut o: Vec<(&'static str, J)> = vec![("s", J::s(s))];
        // peel references / raw pointers
        let mut refs = String::new();
        let mut cur = t;
        loop {
            match cur.kind() {
                ty::Ref(_, inner, m) => {
                    refs.push_str(if m.is_mut() { "&mut " } else { "& " });
                    cur = *inner;
                }
                ty::RawPtr(inner, m) => {
                    refs.push_str(if m.is_mut() { "*mut " } else { "*const " });
                    cur = *inner;
                }
                _ => break,
            }
        }
        if !refs.is_empty() {
            o.push(("r", J::s(refs.trim_end())));
            let bj = self.ty(cur);
            o.push(("b", bj));
        }
        match cur.kind() {
            ty::Adt(adt, args) => {
                let dj = self.def(adt.did());
                o.push(("adt", dj));
                let mut a = Vec::new();
                for ga in args.iter() {
                    if let Some(t) = ga.as_type() {
                        a.push(self.ty(t));
                    }
                }
                if refs.is_empty() {
                    o.push(("ta", J::Arr(a)));
                }
            }
            ty::Closure(d, _) => {
                let dj = self.def(*d);
                o.push(("clos", dj));
            }
            ty::FnDef(d, _) => {
                let dj = self.def(*d);
                o.push(("fndef", dj));
            }
            ty::Param(p) => o.push(("param", J::s(p.name.to_string()))),
            ty::Slice(e) | ty::Array(e, _) => {
                if refs.is_empty() {
                    let ej = self.ty(*e);
                    o.push(("elem", ej));
                }
            }
            ty::Tuple(ts) => {
                if refs.is_empty() {
                    let mut a = Vec::new();
                    for t in ts.iter() {
                        a.push(self.ty(t));
                    }
                    o.push(("tup", J::Arr(a)));
                }
            }
            ty::Alias(..) => o.push(("alias", J::Bool(true))),
            _ => {}
        }
        let kind = match cur.kind() {
            ty::Bool => "bool",
            ty::Int(_) => "int",
            ty::Uint(_) => "uint",
            ty::Float(_) => "float",
            ty::Adt(..) => "adt",
            ty::Slice(_) => "slice",
            ty::Array(..) => "array",
            ty::Tuple(_) => "tuple",
            ty::Closure(..) => "closure",
            ty::FnDef(..) => "fndef",
            ty::FnPtr(..) => "fnptr",
            ty::Param(_) => "param",
            ty::Alias(..) => "alias",
            ty::Str => "str",
            ty::Never => "never",
            ty::Dynamic(..) => "dyn",
            _ => "other",
        };
        o.push(("k", J::s(kind)));
        self.tys[i] = J::Obj(o);
        J::Int(i as i128)
    }

    fn span(&self, sp: Span) -> J {
        let sm = self.tcx.sess.source_map();
        let lo = sm.lookup_char_pos(sp.lo());
        let hi = sm.lookup_char_pos(sp.hi());
        let fname = match &lo.file.name {
            rustc_span::FileName::Real(r) => match r.local_path() {
                Some(p) => p.to_string_lossy().to_string(),
                None => format!("{:?}", r),
            },
            other => format!("{:?}", other),
        };
        J::Arr(vec![
            J::s(fname),
            J::Int(lo.line as i128),
            J::Int(lo.col.0 as i128 + 1),
            J::Int(hi.line as i128),
            J::Bool(sp.from_expansion()),
        ])
    }

    fn line(&self, sp: Span) -> J {
        let sm = self.tcx.sess.source_map();
        // for macro-expanded code report the outermost call site line
        let sp = sp.source_callsite();
        J::Int(sm.lookup_char_pos(sp.lo()).line as i128)
    }

    fn place(&mut self, body: &Body<'tcx>, p: &Place<'tcx>) -> J {
        let tcx = self.tcx;
        let mut v = vec![J::Int(p.local.as_u32() as i128)];
        let mut pty = mir::PlaceTy::from_ty(body.local_decls[p.local].ty);
        for elem in p.projection.iter() {
            match elem {
                ProjectionElem::Deref => v.push(J::s("*")),
                ProjectionElem::Field(f, _) => {
                    let mut name = format!("{}", f.as_u32());
                    if let ty::Adt(adt, _) = pty.ty.kind() {
                        let vi = pty.variant_index.unwrap_or(rustc_abi::FIRST_VARIANT);
                        if adt.is_enum() || adt.is_struct() || adt.is_union() {
                            if let Some(var) = adt.variants().get(vi) {
                                if let Some(fd) = var.fields.get(f) {
                                    name = fd.name.to_string();
                                }
                            }
                        }
                    }
                    v.push(J::Arr(vec![J::s("f"), J::Int(f.as_u32() as i128), J::s(name)]));
                }
                ProjectionElem::Index(l) => v.push(J::Arr(vec![J::s("i"), J::Int(l.as_u32() as i128)])),
                ProjectionElem::ConstantIndex { offset, min_length: _, from_end } => {
                    v.push(J::Arr(vec![J::s("ci"), J::Int(offset as i128), J::Bool(from_end)]))
                }
                ProjectionElem::Subslice { from, to, from_end } => {
                    v.push(J::Arr(vec![J::s("sub"), J::Int(from as i128), J::Int(to as i128), J::Bool(from_end)]))
                }
                ProjectionElem::Downcast(name, vi) => v.push(J::Arr(vec![
                    J::s("dc"),
                    J::Int(vi.as_u32() as i128),
                    J::s(name.map(|s| s.to_string()).unwrap_or_default()),
                ])),
                ProjectionElem::OpaqueCast(_) => v.push(J::s("opaque")),
                ProjectionElem::UnwrapUnsafeBinder(_) => v.push(J::s("unwrap_binder")),
            }
            pty = pty.projection_ty(tcx, elem);
        }
        J::Arr(v)
    }

    fn mir_const(&mut self, body_did: DefId, c: &MirConst<'tcx>) -> J {
        let tcx = self.tcx;
        let t = c.ty();
        let mut o: Vec<(&'static str, J)> = vec![];
        let tj = self.ty(t);
        o.push(("ty", tj));
        match t.kind() {
            ty::FnDef(did, args) => {
                let cj = self.callee(body_did, *did, args);
                o.push(("fn", cj));
            }
            ty::Closure(did, _) => {
                let dj = self.def(*did);
                o.push(("clos", dj));
            }
            _ => {
                let env = ty::TypingEnv::post_analysis(tcx, body_did);
                // integer / bool scalars
                let mut done = false;
                if t.is_integral() || t.is_bool() || t.is_char() {
                    if let Some(si) = c.try_eval_scalar_int(tcx, env) {
                        let size = si.size();
                        let v: i128 = if t.is_signed() { si.to_int(size) } else { si.to_uint(size) as i128 };
                        o.push(("v", J::Int(v)));
                        done = true;
                    }
                }
                if !done {
                    match c {
                        MirConst::Unevaluated(u, _) => {
                            let dj = self.def(u.def);
                            o.push(("uneval", dj));
                            if u.promoted.is_some() {
                                o.push(("promoted", J::Bool(true)));
                            }
                        }
                        MirConst::Val(..) | MirConst::Ty(..) => {}
                    }
                    // statics appear as pointer-valued constants
                    if let MirConst::Val(mir::ConstValue::Scalar(mir::interpret::Scalar::Ptr(ptr, _)), _) = c {
                        let (prov, _off) = ptr.into_raw_parts();
                        if let Some(ga) = tcx.try_get_global_alloc(prov.alloc_id()) {
                            if let mir::interpret::GlobalAlloc::Static(sd) = ga {
                                let dj = self.def(sd);
                                o.push(("static", dj));
                            }
                        }
                    }
                    let mut s = with_no_trimmed_paths!(format!("{}", c));
                    if s.len() > 200 {
                        s.truncate(200);
                    }
                    o.push(("s", J::s(s)));
                }
            }
        }
        J::Obj(o)
    }

    fn callee(&mut self, caller: DefId, did: DefId, args: GenericArgsRef<'tcx>) -> J {
        let tcx = self.tcx;
        let mut o: Vec<(&'static str, J)> = vec![];
        let dj = self.def(did);
        o.push(("d", dj));
        let mut targs = Vec::new();
        let mut clos = Vec::new();
        for ga in args.iter() {
            if let Some(t) = ga.as_type() {
                targs.push(self.ty(t));
                let mut cur = t;
                while let ty::Ref(_, inner, _) = cur.kind() {
                    cur = *inner;
                }
                if let ty::Closure(cd, _) = cur.kind() {
                    clos.push(self.def(*cd));
                }
            } else if let Some(c) = ga.as_const() {
                targs.push(J::s(format!("const {}", c)));
            }
        }
        o.push(("ta", J::Arr(targs)));
        if !clos.is_empty() {
            o.push(("clos", J::Arr(clos)));
        }
        // resolution in the caller's environment
        if matches!(tcx.def_kind(did), DefKind::Fn | DefKind::AssocFn) {
            let env = ty::TypingEnv::post_analysis(tcx, caller);
            let r = std::panic::catch_unwind(std::panic::AssertUnwindSafe(|| ty::Instance::try_resolve(tcx, env, did, args)));
            if let Ok(Ok(Some(inst))) = r {
                let rd = inst.def_id();
                if rd != did {
                    let rj = self.def(rd);
                    o.push(("r", rj));
                }
                let kind = match inst.def {
                    ty::InstanceKind::Item(_) => "item",
                    ty::InstanceKind::Intrinsic(_) => "intrinsic",
                    ty::InstanceKind::Virtual(..) => "virtual",
                    ty::InstanceKind::ClosureOnceShim { .. } => "closure_once",
                    ty::InstanceKind::FnPtrShim(..) => "fnptr_shim",
                    ty::InstanceKind::ReifyShim(..) => "reify",
                    ty::InstanceKind::DropGlue(..) => "drop",
                    ty::InstanceKind::CloneShim(..) => "clone",
                    _ => "other",
                };
                o.push(("rk", J::s(kind)));
            }
        }
        J::Obj(o)
    }

    fn operand(&mut self, body_did: DefId, body: &Body<'tcx>, op: &Operand<'tcx>) -> J {
        match op {
            Operand::Copy(p) => J::Arr(vec![J::s("c"), self.place(body, p)]),
            Operand::Move(p) => J::Arr(vec![J::s("m"), self.place(body, p)]),
            Operand::Constant(c) => J::Arr(vec![J::s("k"), self.mir_const(body_did, &c.const_)]),
            #[allow(unreachable_patterns)]
            _ => J::Arr(vec![J::s("o"), J::s(format!("{:?}", op))]),
        }
    }

    fn rvalue(&mut self, body_did: DefId, body: &Body<'tcx>, rv: &Rvalue<'tcx>) -> J {
        let tcx = self.tcx;
        match rv {
            Rvalue::Use(op, ..) => J::Obj(vec![("k", J::s("Use")), ("o", J::Arr(vec![self.operand(body_did, body, op)]))]),
            Rvalue::Repeat(op, n) => J::Obj(vec![
                ("k", J::s("Repeat")),
                ("o", J::Arr(vec![self.operand(body_did, body, op)])),
                ("n", J::s(format!("{}", n))),
            ]),
            Rvalue::Ref(_, bk, p) => J::Obj(vec![
                ("k", J::s("Ref")),
                ("m", J::Bool(matches!(bk, BorrowKind::Mut { .. }))),
                ("p", self.place(body, p)),
            ]),
            Rvalue::RawPtr(k, p) => J::Obj(vec![
                ("k", J::s("RawPtr")),
                ("m", J::Bool(matches!(k, mir::RawPtrKind::Mut))),
                ("p", self.place(body, p)),
            ]),
            Rvalue::Cast(ck, op, t) => {
                let cks = match ck {
                    CastKind::PointerCoercion(pc, _) => format!("PointerCoercion({:?})", pc),
                    other => format!("{:?}", other),
                };
                let from_ty = op.ty(&body.local_decls, tcx);
                J::Obj(vec![
                    ("k", J::s("Cast")),
                    ("ck", J::s(cks)),
                    ("o", J::Arr(vec![self.operand(body_did, body, op)])),
                    ("ty", self.ty(*t)),
                    ("from", self.ty(from_ty)),
                ])
            }
            Rvalue::BinaryOp(bop, ops) => J::Obj(vec![
                ("k", J::s("Bin")),
                ("op", J::s(format!("{:?}", bop))),
                ("o", J::Arr(vec![self.operand(body_did, body, &ops.0), self.operand(body_did, body, &ops.1)])),
                ("oty", {
                    let t0 = ops.0.ty(&body.local_decls, tcx);
                    self.ty(t0)
                }),
            ]),
            Rvalue::UnaryOp(uop, op) => J::Obj(vec![
                ("k", J::s("Un")),
                ("op", J::s(format!("{:?}", uop))),
                ("o", J::Arr(vec![self.operand(body_did, body, op)])),
            ]),
            Rvalue::Discriminant(p) => J::Obj(vec![("k", J::s("Disc")), ("p", self.place(body, p))]),
            Rvalue::Aggregate(ak, ops) => {
                let mut o: Vec<(&'static str, J)> = vec![("k", J::s("Agg"))];
                match &**ak {
                    AggregateKind::Array(_) => o.push(("ak", J::s("Array"))),
                    AggregateKind::Tuple => o.push(("ak", J::s("Tuple"))),
                    AggregateKind::Adt(did, vi, _, _, _) => {
                        o.push(("ak", J::s("Adt")));
                        let dj = self.def(*did);
                        o.push(("adt", dj));
                        let adt = tcx.adt_def(*did);
                        let var = adt.variant(*vi);
                        o.push(("variant", J::s(var.name.to_string())));
                        o.push(("fields", J::Arr(var.fields.iter().map(|f| J::s(f.name.to_string())).collect())));
                    }
                    AggregateKind::Closure(did, _) => {
                        o.push(("ak", J::s("Closure")));
                        let dj = self.def(*did);
                        o.push(("clos", dj));
                    }
                    AggregateKind::RawPtr(_, m) => {
                        o.push(("ak", J::s("RawPtr")));
                        o.push(("m", J::Bool(m.is_mut())));
                    }
                    _ => o.push(("ak", J::s("Other"))),
                }
                let mut v = Vec::new();
                for op in ops.iter() {
                    v.push(self.operand(body_did, body, op));
                }
                o.push(("o", J::Arr(v)));
                J::Obj(o)
            }
            Rvalue::CopyForDeref(p) => {
                J::Obj(vec![("k", J::s("Use")), ("o", J::Arr(vec![J::Arr(vec![J::s("c"), self.place(body, p)])]))])
            }
            Rvalue::ThreadLocalRef(d) => J::Obj(vec![("k", J::s("ThreadLocalRef")), ("d", self.def(*d))]),
            other => J::Obj(vec![("k", J::s("Other")), ("s", J::s(format!("{:?}", other)))]),
        }
    }

    fn bb(b: Option<BasicBlock>) -> J {
        match b {
            Some(b) => J::Int(b.as_u32() as i128),
            None => J::Null,
        }
    }

    fn unwind(u: &UnwindAction) -> J {
        match u {
            UnwindAction::Cleanup(b) => J::Int(b.as_u32() as i128),
            _ => J::Null,
        }
    }

    fn terminator(&mut self, body_did: DefId, body: &Body<'tcx>, t: &mir::Terminator<'tcx>) -> J {
        let sp = t.source_info.span;
        match &t.kind {
            TerminatorKind::Goto { target } => J::Obj(vec![("k", J::s("Goto")), ("t", Self::bb(Some(*target)))]),
            TerminatorKind::SwitchInt { discr, targets } => {
                let mut v = Vec::new();
                for (val, b) in targets.iter() {
                    v.push(J::Arr(vec![J::Int(val as i128), Self::bb(Some(b))]));
                }
                J::Obj(vec![
                    ("k", J::s("Switch")),
                    ("o", self.operand(body_did, body, discr)),
                    ("ts", J::Arr(v)),
                    ("else", Self::bb(Some(targets.otherwise()))),
                    ("l", self.line(sp)),
                ])
            }
            TerminatorKind::Return => J::Obj(vec![("k", J::s("Return"))]),
            TerminatorKind::Unreachable => J::Obj(vec![("k", J::s("Unreachable"))]),
            TerminatorKind::UnwindResume => J::Obj(vec![("k", J::s("Resume"))]),
            TerminatorKind::UnwindTerminate(_) => J::Obj(vec![("k", J::s("Terminate"))]),
            TerminatorKind::Drop { place, target, unwind, .. } => J::Obj(vec![
                ("k", J::s("Drop")),
                ("p", self.place(body, place)),
                ("t", Self::bb(Some(*target))),
                ("u", Self::unwind(unwind)),
            ]),
            TerminatorKind::Call { func, args, destination, target, unwind, fn_span, .. } => {
                let mut o: Vec<(&'static str, J)> = vec![("k", J::s("Call"))];
                match func {
                    Operand::Constant(c) => {
                        if let ty::FnDef(did, ga) = c.const_.ty().kind() {
                            let cj = self.callee(body_did, *did, ga);
                            o.push(("f", cj));
                        } else {
                            o.push(("fo", self.operand(body_did, body, func)));
                        }
                    }
                    _ => o.push(("fo", self.operand(body_did, body, func))),
                }
                let mut a = Vec::new();
                for arg in args.iter() {
                    a.push(self.operand(body_did, body, &arg.node));
                }
                o.push(("a", J::Arr(a)));
                o.push(("d", self.place(body, destination)));
                o.push(("t", Self::bb(*target)));
                o.push(("u", Self::unwind(unwind)));
                o.push(("sp", self.span(*fn_span)));
                o.push(("l", self.line(sp)));
                J::Obj(o)
            }
            TerminatorKind::TailCall { .. } => J::Obj(vec![("k", J::s("TailCall"))]),
            TerminatorKind::Assert { cond, expected, msg, target, unwind } => {
                let mk = match &**msg {
                    mir::AssertKind::BoundsCheck { .. } => "BoundsCheck".to_string(),
                    mir::AssertKind::Overflow(op, ..) => format!("Overflow({:?})", op),
                    mir::AssertKind::OverflowNeg(_) => "OverflowNeg".to_string(),
                    mir::AssertKind::DivisionByZero(_) => "DivisionByZero".to_string(),
                    mir::AssertKind::RemainderByZero(_) => "RemainderByZero".to_string(),
                    mir::AssertKind::MisalignedPointerDereference { .. } => "Misaligned".to_string(),
                    mir::AssertKind::NullPointerDereference => "NullDeref".to_string(),
                    _ => "Other".to_string(),
                };
                J::Obj(vec![
                    ("k", J::s("Assert")),
                    ("o", self.operand(body_did, body, cond)),
                    ("exp", J::Bool(*expected)),
                    ("msg", J::s(mk)),
                    ("t", Self::bb(Some(*target))),
                    ("u", Self::unwind(unwind)),
                    ("l", self.line(sp)),
                ])
            }
            TerminatorKind::FalseEdge { real_target, .. } => {
                J::Obj(vec![("k", J::s("Goto")), ("t", Self::bb(Some(*real_target)))])
            }
            TerminatorKind::FalseUnwind { real_target, .. } => {
                J::Obj(vec![("k", J::s("Goto")), ("t", Self::bb(Some(*real_target)))])
            }
            other => J::Obj(vec![("k", J::s("Other")), ("s", J::s(format!("{:?}", other)))]),
        }
    }

    fn body(&mut self, ldid: LocalDefId) -> Option<J> {
        let tcx = self.tcx;
        let did = ldid.to_def_id();
        let kind = tcx.def_kind(did);
        if !matches!(kind, DefKind::Fn | DefKind::AssocFn | DefKind::Closure) {
            return None;
        }
        if !tcx.is_mir_available(did) {
            return None;
        }
        let body: &Body<'tcx> = tcx.optimized_mir(did);
        let mut o: Vec<(&'static str, J)> = vec![];
        let dj = self.def(did);
        o.push(("d", dj));
        o.push(("sp", self.span(tcx.def_span(did))));
        o.push(("body_sp", self.span(body.span)));
        if matches!(kind, DefKind::Fn | DefKind::AssocFn) {
            let vis = tcx.visibility(did);
            o.push(("vis", J::s(if vis.is_public() { "pub".to_string() } else { format!("{:?}", vis) })));
            let sig = tcx.fn_sig(did).skip_binder().skip_binder();
            o.push(("unsafe", J::Bool(!sig.safety().is_safe())));
            let attrs = tcx.codegen_fn_attrs(did);
            if !attrs.target_features.is_empty() {
                o.push(("tf", J::Arr(attrs.target_features.iter().map(|f| J::s(f.name.to_string())).collect())));
            }
            // generics
            let g = tcx.generics_of(did);
            let mut names = Vec::new();
            for i in 0..g.count() {
                let p = g.param_at(i, tcx);
                names.push(J::s(p.name.to_string()));
            }
            o.push(("generics", J::Arr(names)));
        }
        o.push(("argc", J::Int(body.arg_count as i128)));
        let mut locals = Vec::new();
        for (_l, decl) in body.local_decls.iter_enumerated() {
            locals.push(self.ty(decl.ty));
        }
        o.push(("locals", J::Arr(locals)));
        // names
        let mut names = Vec::new();
        for vdi in body.var_debug_info.iter() {
            let v = match &vdi.value {
                VarDebugInfoContents::Place(p) => self.place(body, p),
                VarDebugInfoContents::Const(_) => J::Null,
            };
            names.push(J::Arr(vec![
                J::s(vdi.name.to_string()),
                v,
                match vdi.argument_index {
                    Some(i) => J::Int(i as i128),
                    None => J::Null,
                },
            ]));
        }
        o.push(("names", J::Arr(names)));
        let mut blocks = Vec::new();
        for (_bb, data) in body.basic_blocks.iter_enumerated() {
            let mut stmts = Vec::new();
            for st in data.statements.iter() {
                match &st.kind {
                    StatementKind::Assign(b) => {
                        let (p, rv) = &**b;
                        stmts.push(J::Arr(vec![
                            J::s("A"),
                            self.place(body, p),
                            self.rvalue(did, body, rv),
                            self.line(st.source_info.span),
                        ]));
                    }
                    StatementKind::SetDiscriminant { place, variant_index } => {
                        stmts.push(J::Arr(vec![
                            J::s("SD"),
                            self.place(body, place),
                            J::Int(variant_index.as_u32() as i128),
                            self.line(st.source_info.span),
                        ]));
                    }
                    StatementKind::Intrinsic(i) => match &**i {
                        mir::NonDivergingIntrinsic::CopyNonOverlapping(c) => {
                            stmts.push(J::Arr(vec![
                                J::s("CNO"),
                                self.operand(did, body, &c.src),
                                self.operand(did, body, &c.dst),
                                self.operand(did, body, &c.count),
                                self.line(st.source_info.span),
                            ]));
                        }
                        mir::NonDivergingIntrinsic::Assume(_) => {}
                    },
                    _ => {}
                }
            }
            let term = match &data.terminator {
                Some(t) => self.terminator(did, body, t),
                None => J::Null,
            };
            blocks.push(J::Obj(vec![("c", J::Bool(data.is_cleanup)), ("s", J::Arr(stmts)), ("t", term)]));
        }
        o.push(("blocks", J::Arr(blocks)));
        // promoted constants (e.g. `&Distribution::NONE`): straight-line bodies, emitted as statement lists
        if matches!(kind, DefKind::Fn | DefKind::AssocFn | DefKind::Closure) {
            let proms = tcx.promoted_mir(did);
            let mut pv = Vec::new();
            for pb in proms.iter() {
                let mut stmts = Vec::new();
                for data in pb.basic_blocks.iter() {
                    for st in data.statements.iter() {
                        if let StatementKind::Assign(b) = &st.kind {
                            let (p, rv) = &**b;
                            stmts.push(J::Arr(vec![J::s("A"), self.place(pb, p), self.rvalue(did, pb, rv)]));
                        }
                    }
                }
                pv.push(J::Arr(stmts));
            }
            if !pv.is_empty() {
                o.push(("promoted", J::Arr(pv)));
            }
        }
        Some(J::Obj(o))
    }

    // ---------------- HIR expression trees (static initialisers) ----------------
    fn hir_expr(&mut self, owner: LocalDefId, e: &hir::Expr<'tcx>, depth: usize) -> J {
        let tcx = self.tcx;
        if depth > 64 {
            return J::Obj(vec![("k", J::s("TooDeep"))]);
        }
        let tr = tcx.typeck(owner);
        match &e.kind {
            hir::ExprKind::Lit(l) => match l.node {
                rustc_ast::LitKind::Int(n, _) => J::Obj(vec![("k", J::s("Int")), ("v", J::Int(n.get() as i128))]),
                rustc_ast::LitKind::Bool(b) => J::Obj(vec![("k", J::s("Bool")), ("v", J::Bool(b))]),
                _ => J::Obj(vec![("k", J::s("Lit")), ("s", J::s(format!("{:?}", l.node)))]),
            },
            hir::ExprKind::Path(qp) => {
                let res = tr.qpath_res(qp, e.hir_id);
                match res {
                    Res::Def(dk, did) => J::Obj(vec![
                        ("k", J::s("Path")),
                        ("dk", J::s(format!("{:?}", dk))),
                        ("d", self.def(did)),
                    ]),
                    other => J::Obj(vec![("k", J::s("Path")), ("res", J::s(format!("{:?}", other)))]),
                }
            }
            hir::ExprKind::Call(f, args) => {
                let fj = self.hir_expr(owner, f, depth + 1);
                let mut a = Vec::new();
                for x in args.iter() {
                    a.push(self.hir_expr(owner, x, depth + 1));
                }
                J::Obj(vec![("k", J::s("Call")), ("f", fj), ("a", J::Arr(a))])
            }
            hir::ExprKind::Struct(qp, fields, _) => {
                let res = tr.qpath_res(qp, e.hir_id);
                let dj = match res {
                    Res::Def(_, did) => self.def(did),
                    _ => J::Null,
                };
                let mut fs = Vec::new();
                for f in fields.iter() {
                    fs.push(J::Arr(vec![J::s(f.ident.name.to_string()), self.hir_expr(owner, f.expr, depth + 1)]));
                }
                J::Obj(vec![("k", J::s("Struct")), ("d", dj), ("fs", J::Arr(fs))])
            }
            hir::ExprKind::Array(xs) => {
                let mut a = Vec::new();
                for x in xs.iter() {
                    a.push(self.hir_expr(owner, x, depth + 1));
                }
                J::Obj(vec![("k", J::s("Array")), ("a", J::Arr(a))])
            }
            hir::ExprKind::Tup(xs) => {
                let mut a = Vec::new();
                for x in xs.iter() {
                    a.push(self.hir_expr(owner, x, depth + 1));
                }
                J::Obj(vec![("k", J::s("Tup")), ("a", J::Arr(a))])
            }
            hir::ExprKind::AddrOf(_, _, x) => J::Obj(vec![("k", J::s("AddrOf")), ("x", self.hir_expr(owner, x, depth + 1))]),
            hir::ExprKind::Cast(x, _) => J::Obj(vec![("k", J::s("Cast")), ("x", self.hir_expr(owner, x, depth + 1))]),
            hir::ExprKind::Block(b, _) if b.stmts.is_empty() && b.expr.is_some() => {
                self.hir_expr(owner, b.expr.unwrap(), depth + 1)
            }
            hir::ExprKind::DropTemps(x) => self.hir_expr(owner, x, depth + 1),
            hir::ExprKind::Unary(op, x) => {
                J::Obj(vec![("k", J::s("Unary")), ("op", J::s(format!("{:?}", op))), ("x", self.hir_expr(owner, x, depth + 1))])
            }
            hir::ExprKind::Binary(op, x, y) => J::Obj(vec![
                ("k", J::s("Binary")),
                ("op", J::s(format!("{:?}", op.node))),
                ("x", self.hir_expr(owner, x, depth + 1)),
                ("y", self.hir_expr(owner, y, depth + 1)),
            ]),
            hir::ExprKind::Repeat(x, _) => J::Obj(vec![("k", J::s("Repeat")), ("x", self.hir_expr(owner, x, depth + 1))]),
            other => {
                let mut s = format!("{:?}", std::mem::discriminant(other));
                s.truncate(60);
                J::Obj(vec![("k", J::s("Other")), ("s", J::s(s)), ("l", self.line(e.span))])
            }
        }
    }
}

fn is_test_path(u: &str) -> bool {
    u.contains("::tests::") || u.ends_with("::tests") || u.contains("::test_suite::") || u.contains("::test_suite")
}

pub fn emit_crate<'tcx>(tcx: TyCtxt<'tcx>) {
    let dir = match std::env::var("PZ_FACTS_DIR") {
        Ok(d) => d,
        Err(_) => return,
    };
    let crate_name = tcx.crate_name(rustc_hir::def_id::LOCAL_CRATE).to_string();
    let only = std::env::var("PZ_CRATES").unwrap_or_default();
    if !only.is_empty() && !only.split(',').any(|c| c == crate_name) {
        return;
    }
    let mut cx = Ctx { tcx, defs: Vec::new(), def_ix: HashMap::new(), tys: Vec::new(), ty_ix: HashMap::new() };

    // ---- function bodies
    let mut fns = Vec::new();
    let mut skipped_tests = 0usize;
    for ldid in tcx.hir_body_owners() {
        let u = uid(tcx, ldid.to_def_id());
        if is_test_path(&u) {
            skipped_tests += 1;
            continue;
        }
        if let Some(j) = cx.body(ldid) {
            fns.push(j);
        }
    }

    // ---- impls
    let mut impls = Vec::new();
    let mut traits = Vec::new();
    let mut adts = Vec::new();
    let mut statics = Vec::new();
    let mut consts = Vec::new();
    for id in tcx.hir_free_items() {
        let item = tcx.hir_item(id);
        let did = item.owner_id.to_def_id();
        let u = uid(tcx, did);
        let test = is_test_path(&u);
        match &item.kind {
            hir::ItemKind::Impl(imp) => {
                let mut o: Vec<(&'static str, J)> = vec![("d", cx.def(did)), ("sp", cx.span(item.span)), ("test", J::Bool(test))];
                let self_ty = tcx.type_of(did).skip_binder();
                o.push(("self", cx.ty(self_ty)));
                if let Some(tr) = tcx.impl_opt_trait_ref(did) {
                    let tr = tr.skip_binder();
                    o.push(("trait", cx.def(tr.def_id)));
                    let mut ta = Vec::new();
                    for ga in tr.args.iter() {
                        if let Some(t) = ga.as_type() {
                            ta.push(cx.ty(t));
                        }
                    }
                    o.push(("trait_args", J::Arr(ta)));
                }
                let unsafe_impl = match imp.of_trait {
                    Some(h) => !h.safety.is_safe(),
                    None => false,
                };
                o.push(("unsafe", J::Bool(unsafe_impl)));
                let mut items = Vec::new();
                for &ai in tcx.associated_item_def_ids(did).iter() {
                    let assoc = tcx.associated_item(ai);
                    let mut io: Vec<(&'static str, J)> = vec![("d", cx.def(ai)), ("n", J::s(assoc.name().to_string()))];
                    if let Some(ti) = assoc.trait_item_def_id() {
                        io.push(("ti", cx.def(ti)));
                    }
                    if matches!(tcx.def_kind(ai), DefKind::AssocConst { .. }) && tcx.generics_of(ai).count() == 0 {
                        if let Ok(v) = tcx.const_eval_poly(ai) {
                            if let Some(si) = v.try_to_scalar_int() {
                                let t = tcx.type_of(ai).skip_binder();
                                let size = si.size();
                                let iv: i128 = if t.is_signed() { si.to_int(size) } else { si.to_uint(size) as i128 };
                                io.push(("v", J::Int(iv)));
                            }
                        }
                    }
                    items.push(J::Obj(io));
                }
                o.push(("items", J::Arr(items)));
                // predicates (where clauses) as strings, for MS-1(g)
                let preds = tcx.predicates_of(did);
                let mut ps = Vec::new();
                for (p, _) in preds.predicates.iter() {
                    ps.push(J::s(with_no_trimmed_paths!(format!("{}", p))));
                }
                o.push(("preds", J::Arr(ps)));
                impls.push(J::Obj(o));
            }
            hir::ItemKind::Trait { .. } => {
                let mut items = Vec::new();
                for &ai in tcx.associated_item_def_ids(did).iter() {
                    let assoc = tcx.associated_item(ai);
                    let mut io: Vec<(&'static str, J)> = vec![
                        ("d", cx.def(ai)),
                        ("n", J::s(assoc.name().to_string())),
                        ("default", J::Bool(assoc.defaultness(tcx).has_value())),
                    ];
                    if matches!(tcx.def_kind(ai), DefKind::AssocFn) {
                        let mut an = Vec::new();
                        for id in tcx.fn_arg_idents(ai).iter() {
                            an.push(match id {
                                Some(i) => J::s(i.name.to_string()),
                                None => J::Null,
                            });
                        }
                        io.push(("args", J::Arr(an)));
                    }
                    items.push(J::Obj(io));
                }
                traits.push(J::Obj(vec![("d", cx.def(did)), ("sp", cx.span(item.span)), ("items", J::Arr(items)), ("test", J::Bool(test))]));
            }
            hir::ItemKind::Struct(..) | hir::ItemKind::Enum(..) | hir::ItemKind::Union(..) => {
                let adt = tcx.adt_def(did);
                let mut vars = Vec::new();
                for v in adt.variants().iter() {
                    let mut fs = Vec::new();
                    for f in v.fields.iter() {
                        let fty = tcx.type_of(f.did).skip_binder();
                        fs.push(J::Obj(vec![
                            ("n", J::s(f.name.to_string())),
                            ("ty", cx.ty(fty)),
                            ("vis", J::s(if f.vis.is_public() { "pub".to_string() } else { format!("{:?}", f.vis) })),
                        ]));
                    }
                    vars.push(J::Obj(vec![("n", J::s(v.name.to_string())), ("fs", J::Arr(fs))]));
                }
                // freeze: only decidable for non-generic types
                let mut o: Vec<(&'static str, J)> = vec![
                    ("d", cx.def(did)),
                    ("sp", cx.span(item.span)),
                    ("kind", J::s(if adt.is_enum() { "enum" } else if adt.is_union() { "union" } else { "struct" })),
                    ("vars", J::Arr(vars)),
                    ("test", J::Bool(test)),
                ];
                let g = tcx.generics_of(did);
                if g.count() == 0 {
                    let t = tcx.type_of(did).skip_binder();
                    let env = ty::TypingEnv::post_analysis(tcx, did);
                    o.push(("freeze", J::Bool(t.is_freeze(tcx, env))));
                }
                adts.push(J::Obj(o));
            }
            hir::ItemKind::Static(m, _ident, _ty, body_id) => {
                let t = tcx.type_of(did).skip_binder();
                let env = ty::TypingEnv::post_analysis(tcx, did);
                let ts = with_no_trimmed_paths!(format!("{}", t));
                let mut o: Vec<(&'static str, J)> = vec![
                    ("d", cx.def(did)),
                    ("sp", cx.span(item.span)),
                    ("ty", cx.ty(t)),
                    ("mut", J::Bool(m.is_mut())),
                    ("freeze", J::Bool(t.is_freeze(tcx, env))),
                    ("test", J::Bool(test)),
                ];
                if ts.contains("Circuit") || std::env::var("PZ_ALL_STATIC_INIT").is_ok() {
                    let body = tcx.hir_body(*body_id);
                    o.push(("init", cx.hir_expr(item.owner_id.def_id, body.value, 0)));
                }
                statics.push(J::Obj(o));
            }
            hir::ItemKind::Const(..) => {
                let mut o: Vec<(&'static str, J)> = vec![("d", cx.def(did)), ("test", J::Bool(test))];
                if tcx.generics_of(did).count() == 0 {
                    if let Ok(v) = tcx.const_eval_poly(did) {
                        if let Some(si) = v.try_to_scalar_int() {
                            let t = tcx.type_of(did).skip_binder();
                            if t.is_integral() {
                                let size = si.size();
                                let iv: i128 = if t.is_signed() { si.to_int(size) } else { si.to_uint(size) as i128 };
                                o.push(("v", J::Int(iv)));
                            }
                        }
                    }
                }
                consts.push(J::Obj(o));
            }
            _ => {}
        }
    }

    let nfns = fns.len();
    let out = J::Obj(vec![
        ("crate", J::s(crate_name.clone())),
        ("nfns", J::Int(nfns as i128)),
        ("skipped_test_bodies", J::Int(skipped_tests as i128)),
        ("fns", J::Arr(fns)),
        ("impls", J::Arr(impls)),
        ("traits", J::Arr(traits)),
        ("adts", J::Arr(adts)),
        ("statics", J::Arr(statics)),
        ("consts", J::Arr(consts)),
        ("defs", J::Arr(std::mem::take(&mut cx.defs))),
        ("tys", J::Arr(std::mem::take(&mut cx.tys))),
    ]);
    let mut s = String::with_capacity(1 << 24);
    out.write(&mut s);
    let kind = if tcx.crate_types().iter().any(|t| format!("{:?}", t).contains("Executable")) { "bin" } else { "lib" };
    let path = format!("{}/{}.{}.json", dir, crate_name, kind);
    let tmp = format!("{}.tmp{}", path, std::process::id());
    std::fs::write(&tmp, s).expect("write facts");
    std::fs::rename(&tmp, &path).expect("rename facts");
}
