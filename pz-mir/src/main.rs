// pz-mir: fact emitter.  A rustc driver (RUSTC_WORKSPACE_WRAPPER) that type-checks one
// crate exactly as cargo would and writes the resolved program (MIR-lite, impl tables,
// ADTs, statics with HIR initialisers) as JSON to $PZ_FACTS_DIR/<crate>.json.
// It contains no rule: every verdict is produced by the Python rule library from
// these facts.
#![feature(rustc_private)]
#![allow(clippy::all)]

extern crate rustc_abi;
extern crate rustc_ast;
extern crate rustc_driver;
extern crate rustc_hir;
extern crate rustc_interface;
extern crate rustc_middle;
extern crate rustc_session;
extern crate rustc_span;

mod json;
mod emit;

use rustc_driver::Compilation;
use rustc_interface::interface::Compiler;
use rustc_middle::ty::TyCtxt;

struct Cb;

impl rustc_driver::Callbacks for Cb {
    fn after_analysis<'tcx>(&mut self, _c: &Compiler, tcx: TyCtxt<'tcx>) -> Compilation {
        emit::emit_crate(tcx);
        Compilation::Continue
    }
}

fn main() {
    let mut args: Vec<String> = std::env::args().collect();
    // RUSTC_WORKSPACE_WRAPPER: argv[1] is the path of the real rustc.
    if args.len() > 1 && (args[1].ends_with("rustc") || args[1].contains("/rustc")) {
        args.remove(1);
    }
    let mut cb = Cb;
    rustc_driver::run_compiler(&args, &mut cb);
}
