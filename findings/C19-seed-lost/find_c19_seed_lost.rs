use poulpy_core::{
    EncryptionLayout, GGLWEToGGSWKeyCompressedEncryptSk,
    layouts::{Dsize, GGLWECompressedSeed, GGLWEToGGSWKeyCompressed, GGLWEToGGSWKeyLayout, GLWESecret},
};
use poulpy_cpu_ref::FFT64Ref;
use poulpy_hal::{
    api::{ModuleNew, ScratchOwnedAlloc, ScratchOwnedBorrow},
    layouts::{Module, ScratchOwned},
    source::Source,
};

#[test]
fn seeds_of_compressed_tensor_key_are_stored() {
    let module: Module<FFT64Ref> = Module::<FFT64Ref>::new(64);
    let base2k = 12usize;
    let k = 4 * base2k + 1;
    let rank = 2usize;
    let key_infos = EncryptionLayout::new_from_default_sigma(GGLWEToGGSWKeyLayout {
        n: 64u32.into(),
        base2k: base2k.into(),
        k: k.into(),
        dnum: (k / base2k).into(),
        dsize: Dsize(1),
        rank: rank.into(),
    })
    .unwrap();
    let mut key: GGLWEToGGSWKeyCompressed<Vec<u8>> = GGLWEToGGSWKeyCompressed::alloc_from_infos(&key_infos);
    let mut source_xs = Source::new([0u8; 32]);
    let mut source_xe = Source::new([0u8; 32]);
    let mut scratch: ScratchOwned<FFT64Ref> =
        ScratchOwned::alloc(GGLWEToGGSWKeyCompressedEncryptSk::gglwe_to_ggsw_key_encrypt_sk_tmp_bytes(&module, &key_infos));
    let mut sk: GLWESecret<Vec<u8>> = GLWESecret::alloc_from_infos(&key_infos);
    sk.fill_ternary_prob(0.5, &mut source_xs);
    GGLWEToGGSWKeyCompressedEncryptSk::gglwe_to_ggsw_key_encrypt_sk(
        &module,
        &mut key,
        &sk,
        [1u8; 32],
        &key_infos,
        &mut source_xe,
        scratch.borrow(),
    );
    for i in 0..rank {
        let seeds = key.at(i).seed();
        assert!(
            seeds.iter().any(|s| s != &[0u8; 32]),
            "row key {i}: every stored seed is still zero after encryption: {:?}",
            &seeds[..1]
        );
    }
}
