//! SC-15: a scratch view `take_T(infos)` has the dimensions of `T::alloc_from_infos(infos)`.
use poulpy_core::{
    ScratchTakeCore,
    layouts::{Base2K, Degree, Dnum, Dsize, GGLWE, GGLWEInfos, GGLWELayout, LWE, LWEInfos, LWELayout, Rank, TorusPrecision},
};
use poulpy_cpu_ref::FFT64Ref;
use poulpy_hal::{
    api::{ScratchOwnedAlloc, ScratchOwnedBorrow},
    layouts::ScratchOwned,
};

#[test]
fn take_lwe_has_the_dimension_of_its_layout() {
    let infos = LWELayout { n: Degree(40), base2k: Base2K(12), k: TorusPrecision(36) };
    let owned: LWE<Vec<u8>> = LWE::alloc_from_infos(&infos);
    let mut scratch: ScratchOwned<FFT64Ref> = ScratchOwned::alloc(1 << 16);
    let (view, _) = scratch.borrow().take_lwe(&infos);
    assert_eq!(owned.n(), infos.n);
    assert_eq!(view.n(), infos.n, "take_lwe(infos).n() != infos.n()");
}

#[test]
fn take_gglwe_has_the_rows_of_its_layout() {
    let infos = GGLWELayout {
        n: Degree(8),
        base2k: Base2K(12),
        k: TorusPrecision(96),
        rank_in: Rank(1),
        rank_out: Rank(1),
        dnum: Dnum(4),
        dsize: Dsize(2),
    };
    let owned: GGLWE<Vec<u8>> = GGLWE::alloc_from_infos(&infos);
    let mut scratch: ScratchOwned<FFT64Ref> = ScratchOwned::alloc(1 << 16);
    let (view, _) = scratch.borrow().take_gglwe(&infos);
    assert_eq!(owned.dnum(), infos.dnum);
    assert_eq!(view.dnum(), infos.dnum, "take_gglwe(infos).dnum() != infos.dnum()");
}
