//! C08: the AVX kernels must agree limb-for-limb with the reference kernels (which are checked against an exact
//! oracle in poulpy-cpu-ref/tests/c08_*.rs) for normalisation (small / big, fused forms) and shifts.
//!
//! Run with: RUSTFLAGS="-C target-feature=+avx2,+fma" cargo test -p poulpy-cpu-avx --features enable-avx --test c08_avx_vs_ref
#![cfg(all(feature = "enable-avx", target_arch = "x86_64", target_feature = "avx2", target_feature = "fma"))]

#[path = "../../poulpy-cpu-ref/tests/c08_common/mod.rs"]
mod c08_common;
use c08_common::*;

use poulpy_cpu_avx::{FFT64Avx, NTT120Avx};
use poulpy_cpu_ref::{FFT64Ref, NTT120Ref};
use poulpy_hal::{
    api::{
        ModuleNew, ScratchOwnedAlloc, ScratchOwnedBorrow, VecZnxBigAlloc, VecZnxBigNormalize, VecZnxBigNormalizeTmpBytes,
        VecZnxLsh, VecZnxLshAddInto, VecZnxLshAssign, VecZnxLshSub, VecZnxLshTmpBytes, VecZnxNormalize, VecZnxNormalizeAssign,
        VecZnxNormalizeTmpBytes, VecZnxRsh, VecZnxRshAddInto, VecZnxRshAssign, VecZnxRshSub, VecZnxRshTmpBytes,
    },
    layouts::{Backend, Module, ScratchOwned, VecZnx, VecZnxBigOwned, ZnxViewMut},
};

fn fill(a: &mut VecZnx<Vec<u8>>, cols: usize, size: usize, lanes: &[Vec<i128>]) {
    for c in 0..cols {
        for j in 0..size {
            for (l, lv) in lanes.iter().enumerate() {
                a.at_mut(c, j)[l] = lv[j] as i64;
            }
        }
    }
}

fn small_ops<BR: Backend, BT: Backend>(name: &str, mr: &Module<BR>, mt: &Module<BT>, n: usize, mag: usize)
where
    Module<BR>: VecZnxNormalize<BR>
        + VecZnxNormalizeAssign<BR>
        + VecZnxNormalizeTmpBytes
        + VecZnxLsh<BR>
        + VecZnxLshAddInto<BR>
        + VecZnxLshSub<BR>
        + VecZnxLshAssign<BR>
        + VecZnxRsh<BR>
        + VecZnxRshAddInto<BR>
        + VecZnxRshSub<BR>
        + VecZnxRshAssign<BR>
        + VecZnxLshTmpBytes
        + VecZnxRshTmpBytes,
    Module<BT>: VecZnxNormalize<BT>
        + VecZnxNormalizeAssign<BT>
        + VecZnxNormalizeTmpBytes
        + VecZnxLsh<BT>
        + VecZnxLshAddInto<BT>
        + VecZnxLshSub<BT>
        + VecZnxLshAssign<BT>
        + VecZnxRsh<BT>
        + VecZnxRshAddInto<BT>
        + VecZnxRshSub<BT>
        + VecZnxRshAssign<BT>
        + VecZnxLshTmpBytes
        + VecZnxRshTmpBytes,
    ScratchOwned<BR>: ScratchOwnedAlloc<BR> + ScratchOwnedBorrow<BR>,
    ScratchOwned<BT>: ScratchOwnedAlloc<BT> + ScratchOwnedBorrow<BT>,
{
    let bytes_r = mr.vec_znx_normalize_tmp_bytes().max(mr.vec_znx_lsh_tmp_bytes()).max(mr.vec_znx_rsh_tmp_bytes());
    let bytes_t = mt.vec_znx_normalize_tmp_bytes().max(mt.vec_znx_lsh_tmp_bytes()).max(mt.vec_znx_rsh_tmp_bytes());
    let mut sr: ScratchOwned<BR> = ScratchOwned::alloc(bytes_r);
    let mut st: ScratchOwned<BT> = ScratchOwned::alloc(bytes_t);
    let mut rng = Rng(0xA5);
    let mut checks = 0usize;
    for a_b in 1..=62usize {
        for res_b in [1, 2, 3, 7, 12, 17, 26, 31, 32, 33, 45, 52, 61, 62, a_b] {
            for a_size in 1..=5usize {
                for res_size in 1..=5usize {
                    let lanes: Vec<Vec<i128>> = (0..n).map(|l| lane_pattern(&mut rng, l, a_size, a_b, mag)).collect();
                    let mut a: VecZnx<Vec<u8>> = VecZnx::alloc(n, 1, a_size);
                    fill(&mut a, 1, a_size, &lanes);
                    let mut dirty: VecZnx<Vec<u8>> = VecZnx::alloc(n, 1, res_size);
                    for j in 0..res_size {
                        for x in dirty.at_mut(0, j).iter_mut() {
                            *x = rng.signed(58) as i64;
                        }
                    }
                    for offset in offsets_of_interest(&mut rng, a_size * a_b, a_b, res_size * res_b, 3) {
                        let mut r1 = dirty.clone();
                        let mut r2 = dirty.clone();
                        mr.vec_znx_normalize(&mut r1, res_b, offset, 0, &a, a_b, 0, sr.borrow());
                        mt.vec_znx_normalize(&mut r2, res_b, offset, 0, &a, a_b, 0, st.borrow());
                        assert_eq!(r1, r2, "{name}: normalize a_b={a_b} res_b={res_b} a_size={a_size} res_size={res_size} offset={offset}");
                        checks += 1;
                        if a_b == res_b && offset >= 0 {
                            let k = offset as usize;
                            let b = a_b;
                            macro_rules! cmp {
                                ($f:ident, $s:expr) => {{
                                    let mut r1 = dirty.clone();
                                    let mut r2 = dirty.clone();
                                    mr.$f(b, k, &mut r1, 0, &a, 0, sr.borrow());
                                    mt.$f(b, k, &mut r2, 0, &a, 0, st.borrow());
                                    assert_eq!(r1, r2, "{name}: {} b={b} k={k} a_size={a_size} res_size={res_size}", $s);
                                    checks += 1;
                                }};
                            }
                            cmp!(vec_znx_lsh, "lsh");
                            cmp!(vec_znx_lsh_add_into, "lsh_add_into");
                            cmp!(vec_znx_lsh_sub, "lsh_sub");
                            cmp!(vec_znx_rsh, "rsh");
                            cmp!(vec_znx_rsh_add_into, "rsh_add_into");
                            cmp!(vec_znx_rsh_sub, "rsh_sub");
                            let mut a1 = a.clone();
                            let mut a2 = a.clone();
                            mr.vec_znx_lsh_assign(b, k, &mut a1, 0, sr.borrow());
                            mt.vec_znx_lsh_assign(b, k, &mut a2, 0, st.borrow());
                            assert_eq!(a1, a2, "{name}: lsh_assign b={b} k={k} size={a_size}");
                            let mut a1 = a.clone();
                            let mut a2 = a.clone();
                            mr.vec_znx_rsh_assign(b, k, &mut a1, 0, sr.borrow());
                            mt.vec_znx_rsh_assign(b, k, &mut a2, 0, st.borrow());
                            assert_eq!(a1, a2, "{name}: rsh_assign b={b} k={k} size={a_size}");
                            let mut a1 = a.clone();
                            let mut a2 = a.clone();
                            mr.vec_znx_normalize_assign(b, &mut a1, 0, sr.borrow());
                            mt.vec_znx_normalize_assign(b, &mut a2, 0, st.borrow());
                            assert_eq!(a1, a2, "{name}: normalize_assign b={b} size={a_size}");
                            checks += 3;
                        }
                    }
                }
            }
        }
    }
    eprintln!("[{name}] {checks} calls compared (x {n} lanes)");
}

#[test]
fn c08_avx_small_fft64_60bit() {
    let n = 16;
    let mr: Module<FFT64Ref> = Module::<FFT64Ref>::new(n as u64);
    let mt: Module<FFT64Avx> = Module::<FFT64Avx>::new(n as u64);
    small_ops("fft64avx/60", &mr, &mt, n, 60);
}

#[test]
fn c08_avx_small_fft64_63bit() {
    let n = 16;
    let mr: Module<FFT64Ref> = Module::<FFT64Ref>::new(n as u64);
    let mt: Module<FFT64Avx> = Module::<FFT64Avx>::new(n as u64);
    small_ops("fft64avx/63", &mr, &mt, n, 63);
}

#[test]
fn c08_avx_small_ntt120() {
    let n = 16;
    let mr: Module<NTT120Ref> = Module::<NTT120Ref>::new(n as u64);
    let mt: Module<NTT120Avx> = Module::<NTT120Avx>::new(n as u64);
    small_ops("ntt120avx/60", &mr, &mt, n, 60);
}

macro_rules! big_test {
    ($fname:ident, $BR:ty, $BT:ty, $scalar:ty, $mag:expr) => {
        #[test]
        fn $fname() {
            let n = 16usize;
            let mr: Module<$BR> = Module::<$BR>::new(n as u64);
            let mt: Module<$BT> = Module::<$BT>::new(n as u64);
            let mut sr: ScratchOwned<$BR> = ScratchOwned::alloc(mr.vec_znx_big_normalize_tmp_bytes());
            let mut st: ScratchOwned<$BT> = ScratchOwned::alloc(mt.vec_znx_big_normalize_tmp_bytes());
            let mut rng = Rng(0xB16);
            let mut checks = 0usize;
            for a_b in 1..=62usize {
                for res_b in [1, 2, 3, 7, 12, 17, 26, 31, 32, 33, 45, 52, 61, 62, a_b] {
                    for a_size in 1..=5usize {
                        for res_size in 1..=5usize {
                            let lanes: Vec<Vec<i128>> = (0..n).map(|l| lane_pattern(&mut rng, l, a_size, a_b, $mag)).collect();
                            let mut ar: VecZnxBigOwned<$BR> = mr.vec_znx_big_alloc(1, a_size);
                            let mut at: VecZnxBigOwned<$BT> = mt.vec_znx_big_alloc(1, a_size);
                            for j in 0..a_size {
                                for (l, lv) in lanes.iter().enumerate() {
                                    ar.at_mut(0, j)[l] = lv[j] as $scalar;
                                    at.at_mut(0, j)[l] = lv[j] as $scalar;
                                }
                            }
                            let mut dirty: VecZnx<Vec<u8>> = VecZnx::alloc(n, 1, res_size);
                            for j in 0..res_size {
                                for x in dirty.at_mut(0, j).iter_mut() {
                                    *x = rng.signed(58) as i64;
                                }
                            }
                            for offset in offsets_of_interest(&mut rng, a_size * a_b, a_b, res_size * res_b, 3) {
                                macro_rules! cmp {
                                    ($f:ident, $s:expr) => {{
                                        let mut r1 = dirty.clone();
                                        let mut r2 = dirty.clone();
                                        mr.$f(&mut r1, res_b, offset, 0, &ar, a_b, 0, sr.borrow());
                                        mt.$f(&mut r2, res_b, offset, 0, &at, a_b, 0, st.borrow());
                                        assert_eq!(
                                            r1, r2,
                                            "{} a_b={a_b} res_b={res_b} a_size={a_size} res_size={res_size} offset={offset}",
                                            $s
                                        );
                                        checks += 1;
                                    }};
                                }
                                cmp!(vec_znx_big_normalize, "big_normalize");
                                cmp!(vec_znx_big_normalize_add_assign, "big_normalize_add_assign");
                                cmp!(vec_znx_big_normalize_sub_assign, "big_normalize_sub_assign");
                                cmp!(vec_znx_big_normalize_negate, "big_normalize_negate");
                            }
                        }
                    }
                }
            }
            eprintln!("[{}] {checks} calls compared (x {n} lanes)", stringify!($fname));
        }
    };
}

big_test!(c08_avx_big_fft64, FFT64Ref, FFT64Avx, i64, 60);
big_test!(c08_avx_big_fft64_63bit, FFT64Ref, FFT64Avx, i64, 63);
big_test!(c08_avx_big_ntt120, NTT120Ref, NTT120Avx, i128, 118);
big_test!(c08_avx_big_ntt120_small_values, NTT120Ref, NTT120Avx, i128, 60);
