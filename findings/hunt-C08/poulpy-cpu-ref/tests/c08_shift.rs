//! C08: left / right shifts (plain, fused add / sub, in-place) against an exact fixed-point oracle.
mod c08_common;
use c08_common::*;

use poulpy_cpu_ref::{FFT64Ref, NTT120Ref};
use poulpy_hal::{
    api::{
        ModuleNew, ScratchOwnedAlloc, ScratchOwnedBorrow, VecZnxLsh, VecZnxLshAddInto, VecZnxLshAssign, VecZnxLshSub,
        VecZnxLshTmpBytes, VecZnxRsh, VecZnxRshAddInto, VecZnxRshAssign, VecZnxRshSub, VecZnxRshTmpBytes,
    },
    layouts::{Backend, Module, ScratchOwned, VecZnx, ZnxView, ZnxViewMut},
};

#[derive(Clone, Copy, Debug, PartialEq, Eq)]
enum Op {
    Lsh,
    LshAdd,
    LshSub,
    LshAssign,
    Rsh,
    RshAdd,
    RshSub,
    RshAssign,
}

const OPS: [Op; 8] = [
    Op::Lsh,
    Op::LshAdd,
    Op::LshSub,
    Op::LshAssign,
    Op::Rsh,
    Op::RshAdd,
    Op::RshSub,
    Op::RshAssign,
];

trait ShiftModule<BE: Backend>:
    VecZnxLsh<BE>
    + VecZnxLshAddInto<BE>
    + VecZnxLshSub<BE>
    + VecZnxLshAssign<BE>
    + VecZnxRsh<BE>
    + VecZnxRshAddInto<BE>
    + VecZnxRshSub<BE>
    + VecZnxRshAssign<BE>
    + VecZnxLshTmpBytes
    + VecZnxRshTmpBytes
{
}
impl<BE: Backend, T> ShiftModule<BE> for T where
    T: VecZnxLsh<BE>
        + VecZnxLshAddInto<BE>
        + VecZnxLshSub<BE>
        + VecZnxLshAssign<BE>
        + VecZnxRsh<BE>
        + VecZnxRshAddInto<BE>
        + VecZnxRshSub<BE>
        + VecZnxRshAssign<BE>
        + VecZnxLshTmpBytes
        + VecZnxRshTmpBytes
{
}

struct Ctx<'a, BE: Backend> {
    module: &'a Module<BE>,
    n: usize,
    scratch_l: ScratchOwned<BE>,
    scratch_r: ScratchOwned<BE>,
}

#[allow(clippy::too_many_arguments)]
fn check_shift<BE: Backend>(
    ctx: &mut Ctx<BE>,
    rep: &mut Report,
    name: &str,
    op: Op,
    b: usize,
    k: usize,
    res_size: usize,
    a_size: usize,
    lanes: &[Vec<i128>],
    lane_vals: &[Big],
    normalized_prior: bool,
    rng: &mut Rng,
) where
    Module<BE>: ShiftModule<BE>,
    ScratchOwned<BE>: ScratchOwnedAlloc<BE> + ScratchOwnedBorrow<BE>,
{
    let n = ctx.n;
    let cols = 2;
    let inplace = matches!(op, Op::LshAssign | Op::RshAssign);
    let fused = matches!(op, Op::LshAdd | Op::LshSub | Op::RshAdd | Op::RshSub);
    if inplace {
        assert_eq!(res_size, a_size);
    }
    let mut a: VecZnx<Vec<u8>> = VecZnx::alloc(n, cols, a_size);
    for j in 0..a_size {
        for (l, lv) in lanes.iter().enumerate() {
            a.at_mut(1, j)[l] = lv[j] as i64;
            a.at_mut(0, j)[l] = rng.signed(50) as i64;
        }
    }
    let a_copy = a.clone();
    let mut res: VecZnx<Vec<u8>> = VecZnx::alloc(n, cols, res_size);
    for c in 0..cols {
        for j in 0..res_size {
            for x in res.at_mut(c, j).iter_mut() {
                *x = if fused {
                    if normalized_prior { rng.signed(b) as i64 } else { rng.signed(58) as i64 }
                } else {
                    rng.next_u64() as i64
                };
            }
        }
    }
    let prior = res.clone();
    let m = ctx.module;
    match op {
        Op::Lsh => m.vec_znx_lsh(b, k, &mut res, 1, &a, 1, ctx.scratch_l.borrow()),
        Op::LshAdd => m.vec_znx_lsh_add_into(b, k, &mut res, 1, &a, 1, ctx.scratch_l.borrow()),
        Op::LshSub => m.vec_znx_lsh_sub(b, k, &mut res, 1, &a, 1, ctx.scratch_l.borrow()),
        Op::LshAssign => m.vec_znx_lsh_assign(b, k, &mut a, 1, ctx.scratch_l.borrow()),
        Op::Rsh => m.vec_znx_rsh(b, k, &mut res, 1, &a, 1, ctx.scratch_r.borrow()),
        Op::RshAdd => m.vec_znx_rsh_add_into(b, k, &mut res, 1, &a, 1, ctx.scratch_r.borrow()),
        Op::RshSub => m.vec_znx_rsh_sub(b, k, &mut res, 1, &a, 1, ctx.scratch_r.borrow()),
        Op::RshAssign => m.vec_znx_rsh_assign(b, k, &mut a, 1, ctx.scratch_r.borrow()),
    }
    let out: &VecZnx<Vec<u8>> = if inplace { &a } else { &res };
    if inplace {
        for j in 0..a_size {
            assert_eq!(a.at(0, j), a_copy.at(0, j), "{name}: column 0 modified");
        }
    } else {
        assert_eq!(a, a_copy, "{name}: input modified");
        for j in 0..res_size {
            assert_eq!(res.at(0, j), prior.at(0, j), "{name}: column 0 modified");
        }
    }

    let offset: i64 = match op {
        Op::Lsh | Op::LshAdd | Op::LshSub | Op::LshAssign => k as i64,
        _ => -(k as i64),
    };
    let prec = res_size * b;
    for (l, lv) in lanes.iter().enumerate() {
        rep.checked += 1;
        let have_limbs: Vec<i64> = (0..res_size).map(|j| out.at(1, j)[l]).collect();
        let prior_limbs: Vec<i64> = (0..res_size).map(|j| prior.at(1, j)[l]).collect();
        let mut have = val(have_limbs.iter().map(|&x| x as i128), b);
        let mut want = scale(&lane_vals[l], offset);
        if fused {
            have = have.sub(&val(prior_limbs.iter().map(|&x| x as i128), b));
        }
        if matches!(op, Op::LshSub | Op::RshSub) {
            want = want.neg();
        }
        let (v, l2) = compare(&have, &want, prec);
        let cost = (a_size + res_size) * b + k;
        if v != Verdict::Ok {
            let ulps = ((l2 + prec as f64) as i64).min(8);
            let rel = if k >= prec { "k>=res_prec" } else { "k<res_prec" };
            let sz = if a_size > res_size {
                "a>res"
            } else if a_size < res_size {
                "a<res"
            } else {
                "a=res"
            };
            rep.fail_cost(
                format!("{name}/{op:?}/{v:?}/err>=2^{ulps}ulp/{rel}/{sz}/krem0={}/normprior={normalized_prior}", k % b == 0),
                cost,
                || {
                    format!(
                        "b={b} k={k} a_size={a_size} res_size={res_size} a={lv:?} prior={prior_limbs:?} have={have_limbs:?} log2|err|={l2} (ulp=2^-{prec})"
                    )
                },
            );
        }
        if !fused && !digits_in_range(&have_limbs, b) {
            rep.fail_cost(format!("{name}/{op:?}/DigitRange"), cost, || {
                format!("b={b} k={k} a_size={a_size} res_size={res_size} a={lv:?} have={have_limbs:?}")
            });
        }
    }
}

fn new_ctx<'a, BE: Backend>(module: &'a Module<BE>, n: usize) -> Ctx<'a, BE>
where
    Module<BE>: ShiftModule<BE>,
    ScratchOwned<BE>: ScratchOwnedAlloc<BE> + ScratchOwnedBorrow<BE>,
{
    Ctx {
        module,
        n,
        scratch_l: ScratchOwned::alloc(module.vec_znx_lsh_tmp_bytes()),
        scratch_r: ScratchOwned::alloc(module.vec_znx_rsh_tmp_bytes()),
    }
}

fn drive_exhaustive<BE: Backend>(name: &str, module: &Module<BE>, n: usize, bmax: usize)
where
    Module<BE>: ShiftModule<BE>,
    ScratchOwned<BE>: ScratchOwnedAlloc<BE> + ScratchOwnedBorrow<BE>,
{
    let mut ctx = new_ctx(module, n);
    let mut rep = Report::default();
    let mut rng = Rng(0x5417);
    for b in 1..=bmax {
        let lo = -(1i128 << b);
        let hi = 1i128 << b;
        for a_size in 1..=3usize {
            let mut tuples: Vec<Vec<i128>> = vec![vec![]];
            for _ in 0..a_size {
                let mut next = Vec::new();
                for t in &tuples {
                    for d in lo..=hi {
                        let mut t2 = t.clone();
                        t2.push(d);
                        next.push(t2);
                    }
                }
                tuples = next;
            }
            let vals: Vec<Big> = tuples.iter().map(|t| val(t.iter().copied(), b)).collect();
            for res_size in 1..=3usize {
                let kmax = a_size.max(res_size) * b + 2 * b;
                for k in 0..=kmax {
                    for op in OPS {
                        if matches!(op, Op::LshAssign | Op::RshAssign) && a_size != res_size {
                            continue;
                        }
                        for (chunk, vchunk) in tuples.chunks(n).zip(vals.chunks(n)) {
                            check_shift(
                                &mut ctx, &mut rep, name, op, b, k, res_size, a_size, chunk, vchunk, true, &mut rng,
                            );
                        }
                    }
                }
            }
        }
    }
    rep.finish(name);
}

fn drive_random<BE: Backend>(name: &str, module: &Module<BE>, n: usize, bs: &[usize], seed: u64)
where
    Module<BE>: ShiftModule<BE>,
    ScratchOwned<BE>: ScratchOwnedAlloc<BE> + ScratchOwnedBorrow<BE>,
{
    let mut ctx = new_ctx(module, n);
    let mut rep = Report::default();
    let mut rng = Rng(seed);
    for &b in bs {
        for a_size in 1..=6usize {
            for res_size in 1..=6usize {
                let lanes: Vec<Vec<i128>> = (0..n).map(|l| lane_pattern(&mut rng, l, a_size, b, 60)).collect();
                let vals: Vec<Big> = lanes.iter().map(|t| val(t.iter().copied(), b)).collect();
                let a_bits = a_size * b;
                let kmax = a_bits.max(res_size * b) + 2 * b;
                let mut ks: Vec<usize> = offsets_of_interest(&mut rng, a_bits, b, res_size * b, 6)
                    .into_iter()
                    .filter(|&x| x >= 0)
                    .map(|x| x as usize)
                    .collect();
                ks.push(kmax);
                ks.push(kmax + 1);
                ks.push(kmax + b);
                ks.sort();
                ks.dedup();
                for k in ks {
                    for op in OPS {
                        if matches!(op, Op::LshAssign | Op::RshAssign) && a_size != res_size {
                            continue;
                        }
                        let normprior = rng.below(2) == 0;
                        check_shift(
                            &mut ctx, &mut rep, name, op, b, k, res_size, a_size, &lanes, &vals, normprior, &mut rng,
                        );
                    }
                }
            }
        }
    }
    rep.finish(name);
}

#[test]
fn c08_shift_exhaustive_fft64() {
    let n = 64;
    let module: Module<FFT64Ref> = Module::<FFT64Ref>::new(n as u64);
    drive_exhaustive("shift/fft64/exh", &module, n, 3);
}

#[test]
fn c08_shift_random_fft64() {
    let n = 16;
    let module: Module<FFT64Ref> = Module::<FFT64Ref>::new(n as u64);
    let bs: Vec<usize> = (1..=62).collect();
    drive_random("shift/fft64/rnd", &module, n, &bs, 11);
}

#[test]
fn c08_shift_random_ntt120() {
    let n = 16;
    let module: Module<NTT120Ref> = Module::<NTT120Ref>::new(n as u64);
    let bs: Vec<usize> = (1..=62).collect();
    drive_random("shift/ntt120/rnd", &module, n, &bs, 12);
}
