//! Shared oracle for the C08 tests: exact fixed-point arithmetic on the torus.
#![allow(dead_code)]

use std::collections::BTreeMap;

/// Number of 64-bit words of the oracle integers.
pub const W: usize = 26;
/// Number of fractional bits: a torus element x is stored as the integer x * 2^F.
pub const F: usize = 1024;

/// Fixed width two's complement integer (wrapping arithmetic).
#[derive(Clone, Copy, PartialEq, Eq, Debug)]
pub struct Big(pub [u64; W]);

impl Big {
    pub const ZERO: Big = Big([0u64; W]);

    pub fn from_i128(x: i128) -> Self {
        let mut w = [if x < 0 { u64::MAX } else { 0 }; W];
        w[0] = x as u64;
        w[1] = (x >> 64) as u64;
        Big(w)
    }

    pub fn is_neg(&self) -> bool {
        (self.0[W - 1] >> 63) == 1
    }

    pub fn add(&self, o: &Big) -> Big {
        let mut r = [0u64; W];
        let mut c = 0u128;
        for i in 0..W {
            let s = self.0[i] as u128 + o.0[i] as u128 + c;
            r[i] = s as u64;
            c = s >> 64;
        }
        Big(r)
    }

    pub fn neg(&self) -> Big {
        let mut r = [0u64; W];
        for i in 0..W {
            r[i] = !self.0[i];
        }
        Big(r).add(&Big::from_i128(1))
    }

    pub fn sub(&self, o: &Big) -> Big {
        self.add(&o.neg())
    }

    pub fn shl(&self, k: usize) -> Big {
        let mut r = [0u64; W];
        let ws = k / 64;
        let bs = k % 64;
        for i in (0..W).rev() {
            if i < ws {
                continue;
            }
            let lo = self.0[i - ws];
            let mut v = lo << bs;
            if bs != 0 && i > ws {
                v |= self.0[i - ws - 1] >> (64 - bs);
            }
            r[i] = v;
        }
        Big(r)
    }

    /// Arithmetic shift right.
    pub fn sar(&self, k: usize) -> Big {
        let fill = if self.is_neg() { u64::MAX } else { 0 };
        let mut r = [fill; W];
        let ws = k / 64;
        let bs = k % 64;
        for i in 0..W {
            if i + ws >= W {
                continue;
            }
            let lo = self.0[i + ws];
            let hi = if i + ws + 1 < W { self.0[i + ws + 1] } else { fill };
            r[i] = if bs == 0 { lo } else { (lo >> bs) | (hi << (64 - bs)) };
        }
        Big(r)
    }

    /// True if the k low bits are zero.
    pub fn low_zero(&self, k: usize) -> bool {
        let ws = k / 64;
        let bs = k % 64;
        for i in 0..ws {
            if self.0[i] != 0 {
                return false;
            }
        }
        if bs != 0 && (self.0[ws] & ((1u64 << bs) - 1)) != 0 {
            return false;
        }
        true
    }

    /// Centered representative modulo 2^F, i.e. in [-2^(F-1), 2^(F-1)).
    pub fn reduce(&self) -> Big {
        // shift left so that bit F-1 becomes the sign bit, then shift back arithmetically
        let up = 64 * W - F;
        self.shl(up).sar(up)
    }

    pub fn abs(&self) -> Big {
        if self.is_neg() { self.neg() } else { *self }
    }

    /// |self| <= 2^e
    pub fn abs_le_pow2(&self, e: usize) -> bool {
        let a = self.abs();
        let hi = a.sar(e);
        if hi == Big::ZERO {
            return true;
        }
        hi == Big::from_i128(1) && a.low_zero(e)
    }

    /// |self| * 2 <= 2^e, i.e. |self| <= 2^(e-1), valid for e == 0 as well (then self must be 0)
    pub fn abs_le_half_pow2(&self, e: usize) -> bool {
        if e == 0 { *self == Big::ZERO } else { self.abs_le_pow2(e - 1) }
    }

    /// Approximate log2 of |self| / 2^F (for diagnostics only)
    pub fn log2_rel(&self) -> f64 {
        let a = self.abs();
        for i in (0..W).rev() {
            if a.0[i] != 0 {
                let top = 63 - a.0[i].leading_zeros() as usize;
                return (i * 64 + top) as f64 - F as f64;
            }
        }
        f64::NEG_INFINITY
    }
}

/// Exact real value (times 2^F) of a limb vector in radix 2^base: sum_j x_j 2^{-base (j+1)}.
pub fn val<I: IntoIterator<Item = i128>>(limbs: I, base: usize) -> Big {
    let mut acc = Big::ZERO;
    for (j, x) in limbs.into_iter().enumerate() {
        let sh = F - base * (j + 1);
        acc = acc.add(&Big::from_i128(x).shl(sh));
    }
    acc
}

/// Multiplies by 2^offset exactly (panics if bits would be lost).
pub fn scale(v: &Big, offset: i64) -> Big {
    if offset >= 0 {
        v.shl(offset as usize)
    } else {
        let k = (-offset) as usize;
        assert!(v.low_zero(k), "oracle lost precision");
        v.sar(k)
    }
}

/// Outcome of comparing `have` with `want` for an output of precision `prec` bits.
#[derive(Debug, PartialEq, Eq, Clone, Copy)]
pub enum Verdict {
    Ok,
    /// want is representable but have != want (error <= 1 ulp)
    Inexact,
    /// error > 1 ulp
    Wrong,
}

pub fn compare(have: &Big, want: &Big, prec: usize) -> (Verdict, f64) {
    let d = have.sub(want).reduce();
    let ulp_exp = F - prec;
    if d == Big::ZERO {
        return (Verdict::Ok, f64::NEG_INFINITY);
    }
    let l = d.log2_rel();
    if !d.abs_le_pow2(ulp_exp) {
        return (Verdict::Wrong, l);
    }
    if want.low_zero(ulp_exp) {
        return (Verdict::Inexact, l);
    }
    (Verdict::Ok, l)
}

/// splitmix64
pub struct Rng(pub u64);
impl Rng {
    pub fn next_u64(&mut self) -> u64 {
        self.0 = self.0.wrapping_add(0x9E3779B97F4A7C15);
        let mut z = self.0;
        z = (z ^ (z >> 30)).wrapping_mul(0xBF58476D1CE4E5B9);
        z = (z ^ (z >> 27)).wrapping_mul(0x94D049BB133111EB);
        z ^ (z >> 31)
    }
    pub fn next_i128(&mut self) -> i128 {
        ((self.next_u64() as u128) << 64 | self.next_u64() as u128) as i128
    }
    /// uniform in [-2^(bits-1), 2^(bits-1))
    pub fn signed(&mut self, bits: usize) -> i128 {
        if bits == 0 {
            return 0;
        }
        let x = self.next_i128();
        (x << (128 - bits)) >> (128 - bits)
    }
    pub fn below(&mut self, m: u64) -> u64 {
        self.next_u64() % m
    }
    pub fn range_i64(&mut self, lo: i64, hi: i64) -> i64 {
        lo + (self.next_u64() % ((hi - lo + 1) as u64)) as i64
    }
}

/// Failure collector: category -> (count, first example)
#[derive(Default)]
pub struct Report {
    pub fails: BTreeMap<String, (usize, String)>,
    pub checked: usize,
    pub costs: BTreeMap<String, usize>,
    pub info_cross_digit_range: usize,
}

impl Report {
    pub fn fail(&mut self, cat: String, example: impl FnOnce() -> String) {
        let e = self.fails.entry(cat).or_insert_with(|| (0, example()));
        e.0 += 1;
    }
    /// Keeps the example of smallest `cost` per category.
    pub fn fail_cost(&mut self, cat: String, cost: usize, example: impl FnOnce() -> String) {
        let c = self.costs.entry(cat.clone()).or_insert(usize::MAX);
        let e = self.fails.entry(cat).or_insert_with(|| (0, String::new()));
        e.0 += 1;
        if cost < *c {
            *c = cost;
            e.1 = example();
        }
    }
    pub fn finish(&self, name: &str) {
        eprintln!("[{name}] lane-checks: {}", self.checked);
        if self.info_cross_digit_range != 0 {
            eprintln!(
                "[{name}] info: {} outputs of different-radix normalisation have a digit outside [-2^(b-1), 2^(b-1)) (value correct)",
                self.info_cross_digit_range
            );
        }
        if !self.fails.is_empty() {
            for (k, (c, ex)) in &self.fails {
                eprintln!("[{name}] FAIL {k}: {c} cases; first: {ex}");
            }
            panic!("[{name}] {} failing categories", self.fails.len());
        }
    }
}

/// Value patterns for the lanes. Returns `size` limbs for lane `lane`.
/// `mag` = number of bits of the un-normalised random values.
pub fn lane_pattern(rng: &mut Rng, lane: usize, size: usize, b: usize, mag: usize) -> Vec<i128> {
    let half: i128 = 1i128 << (b - 1);
    match lane % 16 {
        0..=5 => (0..size).map(|_| rng.signed(mag)).collect(),
        6 => (0..size).map(|_| rng.signed(b)).collect(), // normalised
        7 => (0..size).map(|_| rng.signed((b + 3).min(mag))).collect(), // slightly un-normalised
        8 => vec![half - 1; size],                       // max positive digit
        9 => vec![-half; size],                          // min digit
        10 => vec![half; size],                          // just out of range: carry ripples through every limb
        11 => vec![2 * half - 1; size],
        12 => {
            // ripple: last limb = half, all other = half-1
            let mut v = vec![half - 1; size];
            v[size - 1] = half;
            v
        }
        13 => vec![-half - 1; size],
        14 => {
            // only the last limb is non-zero, large
            let mut v = vec![0i128; size];
            v[size - 1] = rng.signed(mag);
            v
        }
        _ => {
            // -1 everywhere except a big first limb
            let mut v = vec![-1i128; size];
            v[0] = rng.signed(mag);
            v
        }
    }
}

/// Offsets of interest for (a_bits, b_in, res_bits), all within +-(a_bits + 2 b).
pub fn offsets_of_interest(rng: &mut Rng, a_bits: usize, b: usize, res_bits: usize, extra_random: usize) -> Vec<i64> {
    let lim = (a_bits + 2 * b) as i64;
    let mut v: Vec<i64> = vec![0, 1, -1];
    let b = b as i64;
    for x in [
        b,
        b - 1,
        b + 1,
        2 * b,
        a_bits as i64,
        a_bits as i64 - 1,
        a_bits as i64 + 1,
        res_bits as i64,
        res_bits as i64 + 1,
        res_bits as i64 - 1,
        res_bits as i64 + b,
        lim,
    ] {
        v.push(x);
        v.push(-x);
    }
    for _ in 0..extra_random {
        v.push(rng.range_i64(-lim, lim));
    }
    v.retain(|x| x.abs() <= lim);
    v.sort();
    v.dedup();
    v
}

/// True if every digit lies in [-2^(b-1), 2^(b-1))
pub fn digits_in_range(limbs: &[i64], b: usize) -> bool {
    let half = 1i128 << (b - 1);
    limbs.iter().all(|&x| (x as i128) >= -half && (x as i128) < half)
}
