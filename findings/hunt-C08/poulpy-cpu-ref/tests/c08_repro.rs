//! C08: minimal reproducers of the defects found by the exhaustive tests (each test fails on the unmodified library).
mod c08_common;
use c08_common::*;

use poulpy_cpu_ref::{FFT64Ref, NTT120Ref};
use poulpy_hal::{
    api::{
        ModuleNew, ScratchOwnedAlloc, ScratchOwnedBorrow, VecZnxBigAlloc, VecZnxBigNormalize, VecZnxBigNormalizeTmpBytes,
        VecZnxNormalize, VecZnxNormalizeTmpBytes,
    },
    layouts::{Module, ScratchOwned, VecZnx, VecZnxBigOwned, ZnxView, ZnxViewMut},
};

fn torus(limbs: &[i64], b: usize) -> f64 {
    let mut x = 0f64;
    for (j, &l) in limbs.iter().enumerate() {
        x += l as f64 * 2f64.powi(-((b * (j + 1)) as i32));
    }
    x - x.round()
}

/// D1: cross-radix normalisation with a negative offset whose limb part (ceil(-offset / a_base2k) * a_base2k bits)
/// exceeds the precision of the output: the carry of `a` is injected at the last bit of `res` instead of
/// ceil(-offset/a_base2k)*a_base2k bits below the top.
#[test]
fn d1_cross_base2k_negative_offset_beyond_res_precision() {
    let n = 8;
    let module: Module<FFT64Ref> = Module::<FFT64Ref>::new(n as u64);
    let mut scratch: ScratchOwned<FFT64Ref> = ScratchOwned::alloc(module.vec_znx_normalize_tmp_bytes());

    // a = 7/16 in radix 2^4 (normalised, one limb); res: one limb in radix 2^3; offset = -1
    // expected: 7/32 rounded to 3 bits = 2/8 (or 1/8), library returns 4/8
    let (a_b, res_b, offset) = (4usize, 3usize, -1i64);
    let mut a: VecZnx<Vec<u8>> = VecZnx::alloc(n, 1, 1);
    a.at_mut(0, 0)[0] = 7;
    let mut res: VecZnx<Vec<u8>> = VecZnx::alloc(n, 1, 1);
    module.vec_znx_normalize(&mut res, res_b, offset, 0, &a, a_b, 0, scratch.borrow());
    let have = torus(&[res.at(0, 0)[0]], res_b);
    let want = 7.0 / 32.0;
    println!("D1a: have={have} want={want} limbs={:?}", res.at(0, 0)[0]);

    // same value, same radix on both sides (sibling path) is correct:
    let mut a2: VecZnx<Vec<u8>> = VecZnx::alloc(n, 1, 2);
    a2.at_mut(0, 0)[0] = 3; // 7/16 = 3/8 + 4/64  in radix 2^3: [3, 4] -> un-normalised but fine; use [4,-4]: 4/8-4/64 = 28/64
    a2.at_mut(0, 1)[0] = 4;
    let mut res2: VecZnx<Vec<u8>> = VecZnx::alloc(n, 1, 1);
    module.vec_znx_normalize(&mut res2, res_b, offset, 0, &a2, res_b, 0, scratch.borrow());
    let have2 = torus(&[res2.at(0, 0)[0]], res_b);
    println!("D1a (same radix sibling): have={have2} want={want}");
    assert!((have2 - want).abs() <= 1.0 / 8.0);

    // A more realistic shape: a in radix 2^17 (2 limbs), res in radix 2^8 with 2 limbs (16 bits < 17), offset -1
    let (a_b, res_b, offset) = (17usize, 8usize, -1i64);
    let mut a: VecZnx<Vec<u8>> = VecZnx::alloc(n, 1, 2);
    a.at_mut(0, 0)[0] = 12345; // ~ 0.0942
    a.at_mut(0, 1)[0] = -6789;
    let mut res: VecZnx<Vec<u8>> = VecZnx::alloc(n, 1, 2);
    module.vec_znx_normalize(&mut res, res_b, offset, 0, &a, a_b, 0, scratch.borrow());
    let have_l = [res.at(0, 0)[0], res.at(0, 1)[0]];
    let have_b = torus(&have_l, res_b);
    let want_b = torus(&[12345, -6789], a_b) / 2.0;
    println!("D1b: have={have_b} want={want_b} limbs={have_l:?} err/ulp={}", (have_b - want_b).abs() * 65536.0);

    assert!((have - want).abs() <= 1.0 / 8.0, "D1a: |{have} - {want}| > 1 ulp (1/8)");
    assert!((have_b - want_b).abs() <= 1.0 / 65536.0, "D1b: |{have_b} - {want_b}| > 1 ulp (2^-16)");
}

/// D1 on the big accumulators (fft64 i64 and ntt120 i128) - same outer loop, same defect.
#[test]
fn d1_big_cross_base2k_negative_offset_beyond_res_precision() {
    let n = 8;
    let (a_b, res_b, offset) = (4usize, 3usize, -1i64);
    let want = 7.0 / 32.0;
    let mut errs = vec![];
    {
        let module: Module<FFT64Ref> = Module::<FFT64Ref>::new(n as u64);
        let mut scratch: ScratchOwned<FFT64Ref> = ScratchOwned::alloc(module.vec_znx_big_normalize_tmp_bytes());
        let mut a: VecZnxBigOwned<FFT64Ref> = module.vec_znx_big_alloc(1, 1);
        a.at_mut(0, 0)[0] = 7;
        let mut res: VecZnx<Vec<u8>> = VecZnx::alloc(n, 1, 1);
        module.vec_znx_big_normalize(&mut res, res_b, offset, 0, &a, a_b, 0, scratch.borrow());
        let have = torus(&[res.at(0, 0)[0]], res_b);
        println!("D1 fft64 big: have={have} want={want}");
        errs.push((have - want).abs());
    }
    {
        let module: Module<NTT120Ref> = Module::<NTT120Ref>::new(n as u64);
        let mut scratch: ScratchOwned<NTT120Ref> = ScratchOwned::alloc(module.vec_znx_big_normalize_tmp_bytes());
        let mut a: VecZnxBigOwned<NTT120Ref> = module.vec_znx_big_alloc(1, 1);
        a.at_mut(0, 0)[0] = 7;
        let mut res: VecZnx<Vec<u8>> = VecZnx::alloc(n, 1, 1);
        module.vec_znx_big_normalize(&mut res, res_b, offset, 0, &a, a_b, 0, scratch.borrow());
        let have = torus(&[res.at(0, 0)[0]], res_b);
        println!("D1 ntt120 big: have={have} want={want}");
        errs.push((have - want).abs());
    }
    for e in errs {
        assert!(e <= 1.0 / 8.0, "error {e} > 1 ulp (1/8)");
    }
}

/// D2: NTT120 fused `res -= normalize(a)` with different radices and a negative offset: the carry produced by
/// re-normalising the limb of `res` that receives the top bits of `a` is subtracted from the upper limbs
/// instead of added.
#[test]
fn d2_ntt120_normalize_sub_assign_cross_base2k_negative_offset() {
    let n = 8;
    let module: Module<NTT120Ref> = Module::<NTT120Ref>::new(n as u64);
    let mut scratch: ScratchOwned<NTT120Ref> = ScratchOwned::alloc(module.vec_znx_big_normalize_tmp_bytes());

    // a: one limb in radix 2^3 (normalised); res: three limbs in radix 2^2 (normalised); offset = -3
    let (a_b, res_b, offset) = (3usize, 2usize, -3i64);
    let mut a: VecZnxBigOwned<NTT120Ref> = module.vec_znx_big_alloc(1, 1);
    let mut rep = Report::default();
    for av in -4i128..=3 {
        a.at_mut(0, 0)[0] = av;
        for r0 in -2i64..2 {
            for r1 in -2i64..2 {
                for r2 in -2i64..2 {
                    let mut res_sub: VecZnx<Vec<u8>> = VecZnx::alloc(n, 1, 3);
                    res_sub.at_mut(0, 0)[0] = r0;
                    res_sub.at_mut(0, 1)[0] = r1;
                    res_sub.at_mut(0, 2)[0] = r2;
                    let mut res_add = res_sub.clone();
                    module.vec_znx_big_normalize_sub_assign(&mut res_sub, res_b, offset, 0, &a, a_b, 0, scratch.borrow());
                    module.vec_znx_big_normalize_add_assign(&mut res_add, res_b, offset, 0, &a, a_b, 0, scratch.borrow());
                    let prior = val([r0 as i128, r1 as i128, r2 as i128], res_b);
                    let want = scale(&val([av], a_b), offset);
                    for (nm, out, w) in [("sub", &res_sub, want.neg()), ("add", &res_add, want)] {
                        rep.checked += 1;
                        let h = [out.at(0, 0)[0], out.at(0, 1)[0], out.at(0, 2)[0]];
                        let have = val(h.iter().map(|&x| x as i128), res_b).sub(&prior);
                        let (v, l2) = compare(&have, &w, 3 * res_b);
                        if v != Verdict::Ok {
                            let cost = (av.unsigned_abs() as u64 + r0.unsigned_abs() + r1.unsigned_abs() + r2.unsigned_abs()) as usize;
                            rep.fail_cost(format!("d2/{nm}/{v:?}"), cost, || {
                                format!("a=[{av}] (radix 8) offset=-3 res(radix 4)=[{r0},{r1},{r2}] -> {h:?}; log2|err|={l2}, ulp=2^-6")
                            });
                        }
                    }
                }
            }
        }
    }
    rep.finish("d2");
}

/// E1: encoding an i64 close to i64::MAX at a precision k > 64: the carry out of the first digit is computed
/// with a wrapping subtraction and gets the wrong sign.
#[test]
fn e1_encode_i64_max_k_gt_64() {
    let n = 8;
    let (b, k) = (22usize, 66usize);
    let mut a: VecZnx<Vec<u8>> = VecZnx::alloc(n, 1, 3);
    let mut data = vec![0i64; n];
    data[0] = i64::MAX;
    data[1] = i64::MAX - 5;
    data[2] = i64::MIN;
    a.encode_vec_i64(b, 0, k, &data);
    let mut out = vec![0i128; n];
    a.decode_vec_i128(b, 0, k, &mut out);
    println!("limbs(v=i64::MAX) = {:?}", (0..3).map(|j| a.at(0, j)[0]).collect::<Vec<_>>());
    println!("decoded = {:?}", &out[..3]);
    let mut a1: VecZnx<Vec<u8>> = VecZnx::alloc(n, 1, 3);
    a1.encode_coeff_i64(b, 0, k, 3, i64::MAX);
    let mut a128: VecZnx<Vec<u8>> = VecZnx::alloc(n, 1, 3);
    let data128: Vec<i128> = data.iter().map(|&x| x as i128).collect();
    a128.encode_vec_i128(b, 0, k, &data128);
    println!(
        "i128 sibling limbs(v=i64::MAX) = {:?}",
        (0..3).map(|j| a128.at(0, j)[0]).collect::<Vec<_>>()
    );
    for i in 0..3 {
        assert_eq!(out[i], data[i] as i128, "lane {i}");
    }
    assert_eq!(a1.decode_coeff_i64(b, 0, k, 3), i64::MAX);
}

/// D3 (minor): `vec_znx_big_normalize_negate` negates the normalised digits, so a digit equal to -2^(b-1)
/// becomes +2^(b-1), which is outside [-2^(b-1), 2^(b-1)) (the value is correct).
#[test]
fn d3_normalize_negate_digit_range() {
    let n = 8;
    let module: Module<FFT64Ref> = Module::<FFT64Ref>::new(n as u64);
    let mut scratch: ScratchOwned<FFT64Ref> = ScratchOwned::alloc(module.vec_znx_big_normalize_tmp_bytes());
    let b = 4usize;
    let mut a: VecZnxBigOwned<FFT64Ref> = module.vec_znx_big_alloc(1, 2);
    a.at_mut(0, 0)[0] = 3;
    a.at_mut(0, 1)[0] = -8; // already normalised: 3/16 - 8/256
    let mut res: VecZnx<Vec<u8>> = VecZnx::alloc(n, 1, 2);
    module.vec_znx_big_normalize_negate(&mut res, b, 0, 0, &a, b, 0, scratch.borrow());
    let h = [res.at(0, 0)[0], res.at(0, 1)[0]];
    println!("negate([3,-8]) = {h:?}");
    assert!(digits_in_range(&h, b), "digits {h:?} not in [-8, 8)");
}
