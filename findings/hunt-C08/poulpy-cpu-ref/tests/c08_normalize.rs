//! C08: normalisation (small / big accumulators, same / different radix, signed offsets, fused forms)
//! checked against an exact fixed-point oracle.
mod c08_common;
use c08_common::*;

use poulpy_cpu_ref::{FFT64Ref, NTT120Ref};
use poulpy_hal::{
    api::{
        ModuleNew, ScratchOwnedAlloc, ScratchOwnedBorrow, VecZnxBigAlloc, VecZnxBigNormalize, VecZnxBigNormalizeTmpBytes,
        VecZnxNormalize, VecZnxNormalizeAssign, VecZnxNormalizeTmpBytes,
    },
    layouts::{Module, ScratchOwned, VecZnx, VecZnxBigOwned, ZnxView, ZnxViewMut},
};

#[derive(Clone, Copy, Debug, PartialEq, Eq)]
pub enum Mode {
    Plain,
    Add,
    Sub,
    Negate,
}

/// call(res, res_b, offset, res_col, lanes, a_size, a_b, mode)
type Call<'a> = dyn FnMut(&mut VecZnx<Vec<u8>>, usize, i64, usize, &[Vec<i128>], usize, usize, Mode) + 'a;

#[allow(clippy::too_many_arguments)]
fn check_call(
    rep: &mut Report,
    name: &str,
    call: &mut Call,
    n: usize,
    res_b: usize,
    res_size: usize,
    offset: i64,
    lanes: &[Vec<i128>],
    lane_vals: &[Big],
    a_size: usize,
    a_b: usize,
    mode: Mode,
    rng: &mut Rng,
) {
    let cols = 2;
    let res_col = 1;
    let mut res: VecZnx<Vec<u8>> = VecZnx::alloc(n, cols, res_size);
    for c in 0..cols {
        for j in 0..res_size {
            for x in res.at_mut(c, j).iter_mut() {
                *x = match mode {
                    Mode::Plain | Mode::Negate => rng.next_u64() as i64,
                    _ => rng.signed(58) as i64,
                };
            }
        }
    }
    let prior = res.clone();
    call(&mut res, res_b, offset, res_col, lanes, a_size, a_b, mode);

    for j in 0..res_size {
        assert_eq!(res.at(0, j), prior.at(0, j), "{name}: column 0 modified");
    }

    let prec = res_size * res_b;
    for (l, lv) in lanes.iter().enumerate() {
        rep.checked += 1;
        let have_limbs: Vec<i64> = (0..res_size).map(|j| res.at(res_col, j)[l]).collect();
        let prior_limbs: Vec<i64> = (0..res_size).map(|j| prior.at(res_col, j)[l]).collect();
        let mut have = val(have_limbs.iter().map(|&x| x as i128), res_b);
        let mut want = scale(&lane_vals[l], offset);
        match mode {
            Mode::Plain => {}
            Mode::Negate => want = want.neg(),
            Mode::Add => have = have.sub(&val(prior_limbs.iter().map(|&x| x as i128), res_b)),
            Mode::Sub => {
                have = have.sub(&val(prior_limbs.iter().map(|&x| x as i128), res_b));
                want = want.neg()
            }
        }
        let (v, l2) = compare(&have, &want, prec);
        let shape = format!(
            "{}{}",
            if a_b == res_b { "same" } else { "cross" },
            if offset < 0 {
                "/off<0"
            } else if offset > 0 {
                "/off>0"
            } else {
                "/off=0"
            }
        );
        let cost = a_size * a_b + res_size * res_b + offset.unsigned_abs() as usize + lv.iter().map(|x| x.unsigned_abs().min(1 << 20) as usize).sum::<usize>();
        if v != Verdict::Ok {
            let ulps = ((l2 + prec as f64) as i64).min(8); // floor(log2(err / ulp)), capped
            let fine = if std::env::var("C08_FINE").is_ok() {
                // replicate the library's index computations (diagnostics only)
                let ab = a_b as i64;
                let mut lo = offset / ab;
                if offset < 0 && offset % ab != 0 {
                    lo -= 1;
                }
                let a_tot = (a_size * a_b) as i64;
                let r_tot = (res_size * res_b) as i64;
                let res_end_bit_raw = -lo * ab;
                let a_end_bit = (lo * ab).clamp(0, a_tot);
                let a_start_bit = (r_tot + lo * ab).clamp(0, a_tot);
                let a_end = a_end_bit / ab;
                let a_start = (a_start_bit + ab - 1) / ab;
                format!(
                    "/overlap={},res_end_clamped={},res_end_aligned={},lsh0={}",
                    a_start != a_end,
                    res_end_bit_raw > r_tot,
                    res_end_bit_raw.clamp(0, r_tot) % (res_b as i64) == 0,
                    offset.rem_euclid(ab) == 0
                )
            } else {
                String::new()
            };
            rep.fail_cost(format!("{name}/{mode:?}/{v:?}/{shape}/err>=2^{ulps}ulp{fine}"), cost, || {
                format!(
                    "a_b={a_b} a_size={a_size} a={lv:?} res_b={res_b} res_size={res_size} offset={offset} prior={prior_limbs:?} have={have_limbs:?} log2|err|={l2} (ulp=2^-{prec})"
                )
            });
        }
        if mode == Mode::Plain && !digits_in_range(&have_limbs, res_b) {
            if a_b != res_b {
                // not claimed by the property for different radices: only counted
                rep.info_cross_digit_range += 1;
                continue;
            }
            rep.fail_cost(format!("{name}/{mode:?}/DigitRange/{shape}"), cost, || {
                format!("a_b={a_b} a_size={a_size} a={lv:?} res_b={res_b} res_size={res_size} offset={offset} have={have_limbs:?}")
            });
        }
    }
}

// ------------------------------------------------------------------------------------------------
// Backend adaptors
// ------------------------------------------------------------------------------------------------

fn small_call<'a, BE>(module: &'a Module<BE>, n: usize) -> Box<Call<'a>>
where
    BE: poulpy_hal::layouts::Backend,
    Module<BE>: VecZnxNormalize<BE> + VecZnxNormalizeTmpBytes,
    ScratchOwned<BE>: ScratchOwnedAlloc<BE> + ScratchOwnedBorrow<BE>,
{
    // exact-size scratch, re-used (hence dirty) across calls
    let mut scratch: ScratchOwned<BE> = ScratchOwned::alloc(module.vec_znx_normalize_tmp_bytes());
    Box::new(move |res, res_b, offset, res_col, lanes, a_size, a_b, mode| {
        assert_eq!(mode, Mode::Plain);
        let mut a: VecZnx<Vec<u8>> = VecZnx::alloc(n, 2, a_size);
        for j in 0..a_size {
            for (l, lv) in lanes.iter().enumerate() {
                a.at_mut(1, j)[l] = lv[j] as i64;
                a.at_mut(0, j)[l] = 0x5555_5555_5555;
            }
        }
        let a_copy = a.clone();
        module.vec_znx_normalize(res, res_b, offset, res_col, &a, a_b, 1, scratch.borrow());
        assert_eq!(a, a_copy, "input modified");
    })
}

fn big_call_fft64<'a>(module: &'a Module<FFT64Ref>, _n: usize) -> Box<Call<'a>> {
    let mut scratch: ScratchOwned<FFT64Ref> = ScratchOwned::alloc(module.vec_znx_big_normalize_tmp_bytes());
    Box::new(move |res, res_b, offset, res_col, lanes, a_size, a_b, mode| {
        let mut a: VecZnxBigOwned<FFT64Ref> = module.vec_znx_big_alloc(2, a_size);
        for j in 0..a_size {
            for (l, lv) in lanes.iter().enumerate() {
                a.at_mut(1, j)[l] = lv[j] as i64;
                a.at_mut(0, j)[l] = 0x5555_5555_5555;
            }
        }
        match mode {
            Mode::Plain => module.vec_znx_big_normalize(res, res_b, offset, res_col, &a, a_b, 1, scratch.borrow()),
            Mode::Add => module.vec_znx_big_normalize_add_assign(res, res_b, offset, res_col, &a, a_b, 1, scratch.borrow()),
            Mode::Sub => module.vec_znx_big_normalize_sub_assign(res, res_b, offset, res_col, &a, a_b, 1, scratch.borrow()),
            Mode::Negate => module.vec_znx_big_normalize_negate(res, res_b, offset, res_col, &a, a_b, 1, scratch.borrow()),
        }
        for j in 0..a_size {
            for (l, lv) in lanes.iter().enumerate() {
                assert_eq!(a.at(1, j)[l], lv[j] as i64, "input modified");
            }
        }
    })
}

fn big_call_ntt120<'a>(module: &'a Module<NTT120Ref>, _n: usize) -> Box<Call<'a>> {
    let mut scratch: ScratchOwned<NTT120Ref> = ScratchOwned::alloc(module.vec_znx_big_normalize_tmp_bytes());
    Box::new(move |res, res_b, offset, res_col, lanes, a_size, a_b, mode| {
        let mut a: VecZnxBigOwned<NTT120Ref> = module.vec_znx_big_alloc(2, a_size);
        for j in 0..a_size {
            for (l, lv) in lanes.iter().enumerate() {
                a.at_mut(1, j)[l] = lv[j];
                a.at_mut(0, j)[l] = 0x5555_5555_5555;
            }
        }
        match mode {
            Mode::Plain => module.vec_znx_big_normalize(res, res_b, offset, res_col, &a, a_b, 1, scratch.borrow()),
            Mode::Add => module.vec_znx_big_normalize_add_assign(res, res_b, offset, res_col, &a, a_b, 1, scratch.borrow()),
            Mode::Sub => module.vec_znx_big_normalize_sub_assign(res, res_b, offset, res_col, &a, a_b, 1, scratch.borrow()),
            Mode::Negate => module.vec_znx_big_normalize_negate(res, res_b, offset, res_col, &a, a_b, 1, scratch.borrow()),
        }
        for j in 0..a_size {
            for (l, lv) in lanes.iter().enumerate() {
                assert_eq!(a.at(1, j)[l], lv[j], "input modified");
            }
        }
    })
}

// ------------------------------------------------------------------------------------------------
// Drivers
// ------------------------------------------------------------------------------------------------

/// Small scope: b in 1..=bmax, sizes <= 3, every digit tuple in [-2^b, 2^b], every offset.
fn drive_exhaustive(name: &str, call: &mut Call, n: usize, bmax: usize, modes: &[Mode]) {
    let mut rep = Report::default();
    let mut rng = Rng(0xC08);
    for a_b in 1..=bmax {
        let normalized_only = std::env::var("C08_NORMALIZED").is_ok();
        let lo = if normalized_only { -(1i128 << (a_b - 1)) } else { -(1i128 << a_b) };
        let hi = if normalized_only { (1i128 << (a_b - 1)) - 1 } else { 1i128 << a_b };
        for a_size in 1..=3usize {
            // enumerate all tuples
            let mut tuples: Vec<Vec<i128>> = vec![vec![]];
            for _ in 0..a_size {
                let mut next = Vec::new();
                for t in &tuples {
                    for d in lo..=hi {
                        let mut t2 = t.clone();
                        t2.push(d);
                        next.push(t2);
                    }
                }
                tuples = next;
            }
            let vals: Vec<Big> = tuples.iter().map(|t| val(t.iter().copied(), a_b)).collect();
            let a_bits = a_size * a_b;
            let lim = (a_bits + 2 * a_b) as i64;
            for res_b in 1..=bmax {
                for res_size in 1..=3usize {
                    for offset in -lim..=lim {
                        for &mode in modes {
                            for (chunk, vchunk) in tuples.chunks(n).zip(vals.chunks(n)) {
                                check_call(
                                    &mut rep, name, call, n, res_b, res_size, offset, chunk, vchunk, a_size, a_b, mode, &mut rng,
                                );
                            }
                        }
                    }
                }
            }
        }
    }
    rep.finish(name);
}

/// All radix pairs in `a_bs` x 1..=62, sizes 1..=6, offsets of interest, lane patterns.
fn drive_random(name: &str, call: &mut Call, n: usize, a_bs: &[usize], mag: usize, modes: &[Mode], seed: u64) {
    let mut rep = Report::default();
    let mut rng = Rng(seed);
    let mag: usize = std::env::var("C08_MAG").ok().and_then(|x| x.parse().ok()).unwrap_or(mag);
    for &a_b in a_bs {
        for res_b in 1..=62usize {
            for a_size in 1..=6usize {
                for res_size in 1..=6usize {
                    let lanes: Vec<Vec<i128>> = (0..n).map(|l| lane_pattern(&mut rng, l, a_size, a_b, mag)).collect();
                    let vals: Vec<Big> = lanes.iter().map(|t| val(t.iter().copied(), a_b)).collect();
                    let offs = offsets_of_interest(&mut rng, a_size * a_b, a_b, res_size * res_b, 4);
                    for offset in offs {
                        for &mode in modes {
                            check_call(
                                &mut rep, name, call, n, res_b, res_size, offset, &lanes, &vals, a_size, a_b, mode, &mut rng,
                            );
                        }
                    }
                }
            }
        }
    }
    rep.finish(name);
}

const ALL: [Mode; 4] = [Mode::Plain, Mode::Add, Mode::Sub, Mode::Negate];

fn bs(lo: usize, hi: usize) -> Vec<usize> {
    (lo..=hi).collect()
}

// ---------------- small (VecZnx -> VecZnx) ----------------

#[test]
fn c08_small_normalize_exhaustive_fft64() {
    let n = 64;
    let module: Module<FFT64Ref> = Module::<FFT64Ref>::new(n as u64);
    let mut call = small_call(&module, n);
    drive_exhaustive("small/fft64/exh", &mut *call, n, 4, &[Mode::Plain]);
}

#[test]
fn c08_small_normalize_random_fft64_lo() {
    let n = 16;
    let module: Module<FFT64Ref> = Module::<FFT64Ref>::new(n as u64);
    let mut call = small_call(&module, n);
    drive_random("small/fft64/rnd-lo", &mut *call, n, &bs(1, 31), 60, &[Mode::Plain], 1);
}

#[test]
fn c08_small_normalize_random_fft64_hi() {
    let n = 16;
    let module: Module<FFT64Ref> = Module::<FFT64Ref>::new(n as u64);
    let mut call = small_call(&module, n);
    drive_random("small/fft64/rnd-hi", &mut *call, n, &bs(32, 62), 60, &[Mode::Plain], 2);
}

#[test]
fn c08_small_normalize_random_ntt120() {
    let n = 16;
    let module: Module<NTT120Ref> = Module::<NTT120Ref>::new(n as u64);
    let mut call = small_call(&module, n);
    drive_random(
        "small/ntt120/rnd",
        &mut *call,
        n,
        &[1, 2, 3, 7, 12, 17, 31, 32, 45, 52, 61, 62],
        60,
        &[Mode::Plain],
        3,
    );
}

// ---------------- big fft64 (i64) ----------------

#[test]
fn c08_big_normalize_exhaustive_fft64() {
    let n = 64;
    let module: Module<FFT64Ref> = Module::<FFT64Ref>::new(n as u64);
    let mut call = big_call_fft64(&module, n);
    drive_exhaustive("big/fft64/exh", &mut *call, n, 3, &ALL);
}

#[test]
fn c08_big_normalize_random_fft64_lo() {
    let n = 16;
    let module: Module<FFT64Ref> = Module::<FFT64Ref>::new(n as u64);
    let mut call = big_call_fft64(&module, n);
    drive_random("big/fft64/rnd-lo", &mut *call, n, &bs(1, 31), 60, &ALL, 4);
}

#[test]
fn c08_big_normalize_random_fft64_hi() {
    let n = 16;
    let module: Module<FFT64Ref> = Module::<FFT64Ref>::new(n as u64);
    let mut call = big_call_fft64(&module, n);
    drive_random("big/fft64/rnd-hi", &mut *call, n, &bs(32, 62), 60, &ALL, 5);
}

// ---------------- big ntt120 (i128) ----------------

#[test]
fn c08_big_normalize_exhaustive_ntt120() {
    let n = 64;
    let module: Module<NTT120Ref> = Module::<NTT120Ref>::new(n as u64);
    let mut call = big_call_ntt120(&module, n);
    drive_exhaustive("big/ntt120/exh", &mut *call, n, 3, &ALL);
}

#[test]
fn c08_big_normalize_random_ntt120_lo() {
    let n = 16;
    let module: Module<NTT120Ref> = Module::<NTT120Ref>::new(n as u64);
    let mut call = big_call_ntt120(&module, n);
    drive_random("big/ntt120/rnd-lo", &mut *call, n, &bs(1, 31), 118, &ALL, 6);
}

#[test]
fn c08_big_normalize_random_ntt120_hi() {
    let n = 16;
    let module: Module<NTT120Ref> = Module::<NTT120Ref>::new(n as u64);
    let mut call = big_call_ntt120(&module, n);
    drive_random("big/ntt120/rnd-hi", &mut *call, n, &bs(32, 62), 118, &ALL, 7);
}

// ---------------- in-place normalisation ----------------

#[test]
fn c08_normalize_assign() {
    let n = 16;
    let module: Module<FFT64Ref> = Module::<FFT64Ref>::new(n as u64);
    let mut scratch: ScratchOwned<FFT64Ref> = ScratchOwned::alloc(module.vec_znx_normalize_tmp_bytes());
    let mut rep = Report::default();
    let mut rng = Rng(8);
    for b in 1..=62usize {
        for size in 1..=6usize {
            for _rep in 0..4 {
                let lanes: Vec<Vec<i128>> = (0..n).map(|l| lane_pattern(&mut rng, l, size, b, 60)).collect();
                let mut a: VecZnx<Vec<u8>> = VecZnx::alloc(n, 2, size);
                for j in 0..size {
                    for (l, lv) in lanes.iter().enumerate() {
                        a.at_mut(1, j)[l] = lv[j] as i64;
                        a.at_mut(0, j)[l] = rng.next_u64() as i64;
                    }
                }
                let prior = a.clone();
                module.vec_znx_normalize_assign(b, &mut a, 1, scratch.borrow());
                for j in 0..size {
                    assert_eq!(a.at(0, j), prior.at(0, j));
                }
                for (l, lv) in lanes.iter().enumerate() {
                    rep.checked += 1;
                    let have_limbs: Vec<i64> = (0..size).map(|j| a.at(1, j)[l]).collect();
                    let have = val(have_limbs.iter().map(|&x| x as i128), b);
                    let want = val(lv.iter().copied(), b);
                    let (v, l2) = compare(&have, &want, size * b);
                    if v != Verdict::Ok {
                        rep.fail_cost(format!("normalize_assign/{v:?}"), size * b, || {
                            format!("b={b} size={size} a={lv:?} have={have_limbs:?} log2err={l2}")
                        });
                    }
                    if !digits_in_range(&have_limbs, b) {
                        rep.fail_cost("normalize_assign/DigitRange".to_string(), size * b, || {
                            format!("b={b} size={size} a={lv:?} have={have_limbs:?}")
                        });
                    }
                }
            }
        }
    }
    rep.finish("normalize_assign");
}
