//! C08: integer encoding / decoding into radix-2^b limbs against an exact oracle.
mod c08_common;
use c08_common::*;

use dashu_float::{FBig, round::mode::HalfEven};
use poulpy_hal::layouts::{VecZnx, ZnxView, ZnxViewMut};

/// Does the balanced expansion of v * 2^-k fit in ceil(k/b) limbs of radix 2^b ?
fn balanced_fits(v: i128, b: usize, k: usize) -> bool {
    let size = k.div_ceil(b);
    let k_rem = (b - (k % b)) % b;
    let mut x = Big::from_i128(v).shl(k_rem);
    for _ in 0..size {
        // balanced digit of x in radix 2^b
        let up = 64 * W - b;
        let d = x.shl(up).sar(up);
        x = x.sub(&d).sar(b);
    }
    x == Big::ZERO
}

fn candidates(rng: &mut Rng, k: usize, bits: usize) -> Vec<i128> {
    // bits = 64 or 128 : width of the integer type
    let mut v: Vec<i128> = vec![0, 1, -1, 2, -2, 3, -3];
    let tmax: i128 = if bits == 64 { i64::MAX as i128 } else { i128::MAX };
    let tmin: i128 = if bits == 64 { i64::MIN as i128 } else { i128::MIN };
    v.push(tmax);
    v.push(tmin);
    v.push(tmax - 1);
    v.push(tmin + 1);
    for e in [k as i64 - 3, k as i64 - 2, k as i64 - 1, k as i64, k as i64 + 1] {
        if e >= 0 && (e as usize) < bits - 1 {
            let p = 1i128 << e;
            for x in [p, -p, p - 1, -p + 1, p + 1, -p - 1] {
                v.push(x);
            }
        }
    }
    for _ in 0..6 {
        v.push(rng.signed(k.min(bits)));
        v.push(rng.signed(k.saturating_sub(2).min(bits)));
        v.push(rng.signed((k + 3).min(bits)));
        v.push(rng.signed(bits));
    }
    v.retain(|x| *x >= tmin && *x <= tmax);
    v
}

/// x == y modulo 2^k (as mathematical integers)
fn congruent(x: i128, y: i128, k: usize) -> bool {
    if k >= 128 {
        return x == y;
    }
    let d = x.wrapping_sub(y);
    // careful: wrapping_sub is exact modulo 2^128 which is a multiple of 2^k
    (d & ((1i128 << k).wrapping_sub(1))) == 0
}

fn exact_float(limbs: &[i64], b: usize) -> FBig<HalfEven> {
    let mut acc: FBig<HalfEven> = FBig::<HalfEven>::ZERO.with_precision(4096).value();
    for (j, &x) in limbs.iter().enumerate() {
        let t: FBig<HalfEven> = FBig::<HalfEven>::from(x).with_precision(4096).value() >> ((b * (j + 1)) as isize);
        acc += t;
    }
    acc
}

#[derive(Clone, Copy, Debug)]
enum Form {
    VecI64,
    VecI128,
    CoeffI64,
}

fn run(form: Form, name: &str) {
    let n = 8usize;
    let cols = 2usize;
    let mut rep = Report::default();
    let mut rng = Rng(0xE2C);
    for b in 2..=62usize {
        for size_needed in 1..=4usize {
            for extra in 0..=1usize {
                let size = size_needed + extra;
                let k_lo = (size_needed - 1) * b + 1;
                let k_hi = size_needed * b;
                for k in k_lo..=k_hi {
                    let bits = match form {
                        Form::VecI128 => 128,
                        _ => 64,
                    };
                    if matches!(form, Form::VecI128) && k > 127 + 62 {
                        continue;
                    }
                    let cands = candidates(&mut rng, k, bits);
                    for chunk in cands.chunks(n) {
                        let mut data: Vec<i128> = chunk.to_vec();
                        data.resize(n, 0);
                        let mut a: VecZnx<Vec<u8>> = VecZnx::alloc(n, cols, size);
                        for c in 0..cols {
                            for j in 0..size {
                                for x in a.at_mut(c, j).iter_mut() {
                                    *x = rng.next_u64() as i64;
                                }
                            }
                        }
                        let prior = a.clone();
                        let col = 1;
                        let idx_for_coeff = (rng.below(n as u64)) as usize;
                        match form {
                            Form::VecI64 => {
                                let d: Vec<i64> = data.iter().map(|&x| x as i64).collect();
                                a.encode_vec_i64(b, col, k, &d);
                            }
                            Form::VecI128 => a.encode_vec_i128(b, col, k, &data),
                            Form::CoeffI64 => {
                                a.encode_coeff_i64(b, col, k, idx_for_coeff, data[0] as i64);
                            }
                        }
                        // other column untouched
                        for j in 0..size {
                            assert_eq!(a.at(0, j), prior.at(0, j), "{name}: other column modified");
                        }
                        let lanes: Vec<(usize, i128)> = match form {
                            Form::CoeffI64 => vec![(idx_for_coeff, data[0])],
                            _ => data.iter().copied().enumerate().collect(),
                        };
                        if let Form::CoeffI64 = form {
                            // other coefficients untouched
                            for j in 0..size {
                                for i in 0..n {
                                    if i != idx_for_coeff {
                                        assert_eq!(a.at(col, j)[i], prior.at(col, j)[i], "{name}: other coeff modified");
                                    }
                                }
                            }
                        }

                        // decoders (batch)
                        let a_ref = &a;
                        let mut decf: Vec<FBig<HalfEven>> = (0..n).map(|_| FBig::ZERO).collect();
                        a.decode_vec_float(b, col, &mut decf);
                        let batch64 = if matches!(form, Form::CoeffI64) {
                            None
                        } else {
                            std::panic::catch_unwind(std::panic::AssertUnwindSafe(|| {
                                let mut d = vec![0i64; n];
                                a_ref.decode_vec_i64(b, col, k, &mut d);
                                d
                            }))
                            .ok()
                        };
                        let batch128 = if matches!(form, Form::CoeffI64) {
                            None
                        } else {
                            std::panic::catch_unwind(std::panic::AssertUnwindSafe(|| {
                                let mut d = vec![0i128; n];
                                a_ref.decode_vec_i128(b, col, k, &mut d);
                                d
                            }))
                            .ok()
                        };
                        for &(i, v) in &lanes {
                            rep.checked += 1;
                            let limbs: Vec<i64> = (0..size).map(|j| a.at(col, j)[i]).collect();
                            // isolated copy of lane i (all other lanes zero) so that a panic is attributed to this lane only
                            let mut iso: VecZnx<Vec<u8>> = VecZnx::alloc(n, 1, size);
                            for j in 0..size {
                                iso.at_mut(0, j)[i] = limbs[j];
                            }
                            let iso_ref = &iso;
                            let r64 = std::panic::catch_unwind(std::panic::AssertUnwindSafe(|| {
                                let mut d = vec![0i64; n];
                                iso_ref.decode_vec_i64(b, 0, k, &mut d);
                                d
                            }));
                            let mut dec64 = vec![0i64; n];
                            let dec64_ok = match r64 {
                                Ok(d) => {
                                    dec64 = d;
                                    true
                                }
                                Err(_) => false,
                            };
                            let r128 = std::panic::catch_unwind(std::panic::AssertUnwindSafe(|| {
                                let mut d = vec![0i128; n];
                                iso_ref.decode_vec_i128(b, 0, k, &mut d);
                                d
                            }));
                            let mut dec128 = vec![0i128; n];
                            let dec128_ok = match r128 {
                                Ok(d) => {
                                    dec128 = d;
                                    true
                                }
                                Err(_) => false,
                            };
                            if let (Some(bd), true) = (&batch64, dec64_ok) {
                                assert_eq!(bd[i], dec64[i], "batch vs isolated decode differ");
                            }
                            if let (Some(bd), true) = (&batch128, dec128_ok) {
                                assert_eq!(bd[i], dec128[i], "batch vs isolated decode differ");
                            }
                            let ex = || format!("b={b} k={k} size={size} v={v} limbs={limbs:?}");
                            let small = k >= 2 && v.unsigned_abs() < (1u128 << (k - 2).min(127));
                            let fits = balanced_fits(v, b, k);
                            let cls = if small {
                                "small"
                            } else if fits {
                                "fits"
                            } else {
                                "nofit"
                            };
                            let kk = if k < b {
                                "k<b"
                            } else if k % b == 0 {
                                "k%b=0"
                            } else {
                                "k%b!=0"
                            };
                            // 1. limbs represent v 2^-k on the torus, exactly
                            let have = val(limbs.iter().map(|&x| x as i128), b);
                            let want = Big::from_i128(v).shl(F - k);
                            if have.sub(&want).reduce() != Big::ZERO {
                                rep.fail_cost(format!("{name}/limbs-value/{cls}/{kk}"), k, ex);
                            }
                            if !digits_in_range(&limbs, b) {
                                rep.fail_cost(format!("{name}/limbs-digit-range/{cls}/{kk}"), k, ex);
                            }
                            // 2. decode i64
                            if bits == 64 {
                                if !dec64_ok {
                                    rep.fail_cost(format!("{name}/decode_vec_i64/PANIC/{cls}/{kk}/k>64={}", k > 64), k, ex);
                                } else {
                                    let d = dec64[i] as i128;
                                    let ok = if k >= 64 { (d as i64) == (v as i64) } else { congruent(d, v, k) };
                                    if !ok {
                                        rep.fail_cost(format!("{name}/decode_vec_i64/not-congruent/{cls}/{kk}"), k, || {
                                            format!("{} dec={d}", ex())
                                        });
                                    } else if (small || fits) && d != v {
                                        rep.fail_cost(format!("{name}/decode_vec_i64/not-exact/{cls}/{kk}"), k, || {
                                            format!("{} dec={d}", ex())
                                        });
                                    }
                                }
                                let rc = std::panic::catch_unwind(std::panic::AssertUnwindSafe(|| a_ref.decode_coeff_i64(b, col, k, i)));
                                match rc {
                                    Err(_) => rep.fail_cost(format!("{name}/decode_coeff_i64/PANIC/{cls}/{kk}/k>64={}", k > 64), k, ex),
                                    Ok(dc) => {
                                        let d = dc as i128;
                                        let ok = if k >= 64 { dc == (v as i64) } else { congruent(d, v, k) };
                                        if !ok {
                                            rep.fail_cost(format!("{name}/decode_coeff_i64/not-congruent/{cls}/{kk}"), k, || {
                                                format!("{} dec={d}", ex())
                                            });
                                        } else if (small || fits) && d != v {
                                            rep.fail_cost(format!("{name}/decode_coeff_i64/not-exact/{cls}/{kk}"), k, || {
                                                format!("{} dec={d}", ex())
                                            });
                                        }
                                        if dec64_ok && dc != dec64[i] {
                                            rep.fail_cost(format!("{name}/decode_coeff_vs_vec/{cls}/{kk}"), k, ex);
                                        }
                                    }
                                }
                            }
                            // 3. decode i128
                            if !dec128_ok {
                                rep.fail_cost(format!("{name}/decode_vec_i128/PANIC/{cls}/{kk}/k>128={}", k > 128), k, ex);
                            } else {
                                let d = dec128[i];
                                if !congruent(d, v, k) {
                                    rep.fail_cost(format!("{name}/decode_vec_i128/not-congruent/{cls}/{kk}"), k, || {
                                        format!("{} dec={d}", ex())
                                    });
                                } else if (small || fits) && d != v {
                                    rep.fail_cost(format!("{name}/decode_vec_i128/not-exact/{cls}/{kk}"), k, || {
                                        format!("{} dec={d}", ex())
                                    });
                                }
                            }
                            // 4. arbitrary precision decoding == exact rational value of the limbs
                            let exf = exact_float(&limbs, b);
                            if decf[i] != exf {
                                rep.fail_cost(format!("{name}/decode_vec_float/{kk}"), k, || {
                                    format!("{} float={} exact={}", ex(), decf[i], exf)
                                });
                            }
                        }
                    }
                }
            }
        }
    }
    rep.finish(name);
}

#[test]
fn c08_encode_vec_i64() {
    run(Form::VecI64, "enc/vec_i64");
}

#[test]
fn c08_encode_vec_i128() {
    run(Form::VecI128, "enc/vec_i128");
}

#[test]
fn c08_encode_coeff_i64() {
    run(Form::CoeffI64, "enc/coeff_i64");
}

/// decode_vec_float on arbitrary (un-normalised) limbs.
#[test]
fn c08_decode_float_unnormalised() {
    let n = 8usize;
    let mut rng = Rng(77);
    let mut rep = Report::default();
    for b in 1..=62usize {
        for size in 1..=6usize {
            let mut a: VecZnx<Vec<u8>> = VecZnx::alloc(n, 1, size);
            for j in 0..size {
                for (i, x) in a.at_mut(0, j).iter_mut().enumerate() {
                    *x = match i {
                        0 => rng.next_u64() as i64,
                        1 => i64::MIN,
                        2 => i64::MAX,
                        3 => rng.signed(b) as i64,
                        _ => rng.signed(60) as i64,
                    };
                }
            }
            let mut decf: Vec<FBig<HalfEven>> = (0..n).map(|_| FBig::ZERO).collect();
            a.decode_vec_float(b, 0, &mut decf);
            for i in 0..n {
                rep.checked += 1;
                let limbs: Vec<i64> = (0..size).map(|j| a.at(0, j)[i]).collect();
                let exf = exact_float(&limbs, b);
                if decf[i] != exf {
                    rep.fail_cost("decode_vec_float/unnormalised".to_string(), b * size, || {
                        format!("b={b} size={size} limbs={limbs:?} float={} exact={}", decf[i], exf)
                    });
                }
            }
        }
    }
    rep.finish("decode_float");
}

/// Decoding arbitrary normalised limbs at precision k: result = round(value of the first ceil(k/b) limbs * 2^k).
#[test]
fn c08_decode_general_normalised_limbs() {
    let n = 8usize;
    let mut rng = Rng(99);
    let mut rep = Report::default();
    for b in 2..=30usize {
        for size in 1..=4usize {
            for k in 1..=(size * b).min(60) {
                let used = k.div_ceil(b);
                let mut a: VecZnx<Vec<u8>> = VecZnx::alloc(n, 1, size);
                for j in 0..size {
                    for x in a.at_mut(0, j).iter_mut() {
                        *x = rng.signed(b) as i64;
                    }
                }
                let mut d64 = vec![0i64; n];
                let mut d128 = vec![0i128; n];
                a.decode_vec_i64(b, 0, k, &mut d64);
                a.decode_vec_i128(b, 0, k, &mut d128);
                for i in 0..n {
                    rep.checked += 1;
                    let limbs: Vec<i64> = (0..used).map(|j| a.at(0, j)[i]).collect();
                    let v = val(limbs.iter().map(|&x| x as i128), b); // value * 2^F
                    // |dec * 2^(F-k) - v| <= 2^(F-k-1)
                    for (nm, d) in [("i64", d64[i] as i128), ("i128", d128[i]), ("coeff", a.decode_coeff_i64(b, 0, k, i) as i128)] {
                        let diff = Big::from_i128(d).shl(F - k).sub(&v);
                        if !diff.abs_le_pow2(F - k - 1) {
                            rep.fail_cost(format!("decode_general/{nm}"), k, || format!("b={b} k={k} limbs={limbs:?} dec={d}"));
                        }
                    }
                }
            }
        }
    }
    rep.finish("decode_general");
}

/// poulpy-core wrappers (GLWEPlaintext / LWEPlaintext) delegate to the same routines.
#[test]
fn c08_core_plaintext_wrappers() {
    use poulpy_core::layouts::{Base2K, Degree, GLWEPlaintext, LWEPlaintext, TorusPrecision};
    let mut rng = Rng(5);
    for b in [2u32, 7, 12, 17, 31, 52, 62] {
        for k in [1u32, b - 1, b, b + 1, 2 * b, 2 * b + 3, 3 * b] {
            if k == 0 {
                continue;
            }
            let n = 8usize;
            let mut pt = GLWEPlaintext::alloc(Degree(n as u32), Base2K(b), TorusPrecision(k));
            let kk = (k as usize).min(62);
            let data: Vec<i64> = (0..n).map(|_| rng.signed(kk.saturating_sub(2)) as i64).collect();
            pt.encode_vec_i64(&data, TorusPrecision(k));
            let mut out = vec![0i64; n];
            pt.decode_vec_i64(&mut out, TorusPrecision(k));
            assert_eq!(out, data, "glwe pt b={b} k={k}");
            pt.encode_coeff_i64(data[3], TorusPrecision(k), 5);
            assert_eq!(pt.decode_coeff_i64(TorusPrecision(k), 5), data[3]);
            assert_eq!(pt.decode_coeff_i64(TorusPrecision(k), 3), data[3]);
            let data128: Vec<i128> = data.iter().map(|&x| x as i128).collect();
            pt.encode_vec_i128(&data128, TorusPrecision(k));
            let mut out128 = vec![0i128; n];
            pt.decode_vec_i128(&mut out128, TorusPrecision(k));
            assert_eq!(out128, data128);

            let mut lwe = LWEPlaintext::alloc(Base2K(b), TorusPrecision(k));
            lwe.encode_i64(data[0], TorusPrecision(k));
            assert_eq!(lwe.decode_i64(TorusPrecision(k)), data[0], "lwe pt b={b} k={k}");
            lwe.encode_i128(data128[1], TorusPrecision(k));
            assert_eq!(lwe.decode_i64(TorusPrecision(k)), data[1], "lwe pt i128 b={b} k={k}");
        }
    }
}
