//! Shared helpers for the C02 audit tests: an exact fixed-point torus model (256-bit wrapping integers),
//! deterministic data generators and a backend-generic harness.
#![allow(dead_code)]

pub use poulpy_core::api::{
    GGSWRotate, GLWEAdd, GLWECopy, GLWEMulXpMinusOne, GLWENegate, GLWENormalize, GLWERotate, GLWEShift, GLWESub,
};
use poulpy_core::{
    ScratchTakeCore,
    layouts::{GLWE, GLWEInfos, LWEInfos},
};
pub use poulpy_hal::api::VecZnxMulXpMinusOneAssignTmpBytes;
use poulpy_hal::{
    api::{ModuleN, ModuleNew, ScratchAvailable, ScratchOwnedAlloc, ScratchOwnedBorrow},
    layouts::{Backend, DataMut, DataRef, Module, Scratch, ScratchOwned, VecZnx, ZnxInfos, ZnxView, ZnxViewMut},
};

/// Number of fractional bits of the fixed point torus model.
pub const Q: usize = 240;

// ---------------------------------------------------------------------------------------------
// 256-bit two's complement wrapping integer
// ---------------------------------------------------------------------------------------------

#[derive(Clone, Copy, PartialEq, Eq, Debug)]
pub struct W(pub [u64; 4]);

impl W {
    pub const ZERO: W = W([0; 4]);

    pub fn from_i64(x: i64) -> W {
        let s: u64 = if x < 0 { u64::MAX } else { 0 };
        W([x as u64, s, s, s])
    }

    pub fn one() -> W {
        W([1, 0, 0, 0])
    }

    pub fn add(self, o: W) -> W {
        let mut r = [0u64; 4];
        let mut c = 0u128;
        for i in 0..4 {
            let t = self.0[i] as u128 + o.0[i] as u128 + c;
            r[i] = t as u64;
            c = t >> 64;
        }
        W(r)
    }

    pub fn not(self) -> W {
        W([!self.0[0], !self.0[1], !self.0[2], !self.0[3]])
    }

    pub fn neg(self) -> W {
        self.not().add(W::one())
    }

    pub fn sub(self, o: W) -> W {
        self.add(o.neg())
    }

    pub fn bit(self, i: usize) -> bool {
        (self.0[i / 64] >> (i % 64)) & 1 == 1
    }

    pub fn is_neg(self) -> bool {
        self.bit(255)
    }

    pub fn shl(self, n: usize) -> W {
        if n >= 256 {
            return W::ZERO;
        }
        let words = n / 64;
        let bits = n % 64;
        let mut r = [0u64; 4];
        for i in (0..4).rev() {
            if i < words {
                continue;
            }
            let src = i - words;
            let mut v = self.0[src] << bits;
            if bits != 0 && src > 0 {
                v |= self.0[src - 1] >> (64 - bits);
            }
            r[i] = v;
        }
        W(r)
    }

    /// Arithmetic shift right (floor division by 2^n).
    pub fn sar(self, n: usize) -> W {
        let fill: u64 = if self.is_neg() { u64::MAX } else { 0 };
        if n >= 256 {
            return W([fill; 4]);
        }
        let words = n / 64;
        let bits = n % 64;
        let mut r = [fill; 4];
        for i in 0..4 {
            let src = i + words;
            if src >= 4 {
                continue;
            }
            let mut v = self.0[src] >> bits;
            if bits != 0 {
                let hi = if src + 1 < 4 { self.0[src + 1] } else { fill };
                v |= hi << (64 - bits);
            }
            r[i] = v;
        }
        W(r)
    }

    /// Keeps the `bits` low bits (unsigned reduction modulo 2^bits).
    pub fn low(self, bits: usize) -> W {
        if bits >= 256 {
            return self;
        }
        let mut r = self.0;
        for (i, w) in r.iter_mut().enumerate() {
            let lo = i * 64;
            if lo >= bits {
                *w = 0;
            } else if lo + 64 > bits {
                *w &= (1u64 << (bits - lo)) - 1;
            }
        }
        W(r)
    }

    /// Unsigned value as f64.
    pub fn to_f64_unsigned(self) -> f64 {
        let mut r = 0f64;
        for i in (0..4).rev() {
            r = r * 18446744073709551616.0 + self.0[i] as f64;
        }
        r
    }

    /// Signed value as f64.
    pub fn to_f64(self) -> f64 {
        if self.is_neg() {
            -self.neg().to_f64_unsigned()
        } else {
            self.to_f64_unsigned()
        }
    }
}

/// Signed value of an element of Z/2^Q, centred in [-2^(Q-1), 2^(Q-1)).
pub fn centered(x: W) -> W {
    let x = x.low(Q);
    if x.bit(Q - 1) { x.sub(W::one().shl(Q)) } else { x }
}

// ---------------------------------------------------------------------------------------------
// Torus polynomials (vectors of N coefficients in Z/2^Q, value = x / 2^Q mod 1)
// ---------------------------------------------------------------------------------------------

pub type Poly = Vec<W>;

/// Exact (un-reduced) integer value of column `col`, scaled by 2^(size*base2k).
pub fn real_col<D: DataRef>(v: &VecZnx<D>, col: usize, base2k: usize) -> Poly {
    let size = v.size();
    assert!(size * base2k + 12 < 256, "model overflow");
    let n = v.n();
    let mut out = vec![W::ZERO; n];
    for j in 0..size {
        let limb = v.at(col, j);
        for i in 0..n {
            out[i] = out[i].add(W::from_i64(limb[i]).shl((size - 1 - j) * base2k));
        }
    }
    out
}

/// Torus value (mod 1) of column `col` at the model precision Q.
pub fn tor_col<D: DataRef>(v: &VecZnx<D>, col: usize, base2k: usize) -> Poly {
    let p = v.size() * base2k;
    assert!(p <= Q);
    real_col(v, col, base2k).into_iter().map(|x| x.shl(Q - p).low(Q)).collect()
}

pub fn glwe_tor<D: DataRef>(g: &GLWE<D>) -> Vec<Poly> {
    let b = g.base2k().as_usize();
    (0..g.rank().as_usize() + 1).map(|c| tor_col(g.data(), c, b)).collect()
}

pub fn p_zero(n: usize) -> Poly {
    vec![W::ZERO; n]
}
pub fn p_add(a: &Poly, b: &Poly) -> Poly {
    a.iter().zip(b).map(|(x, y)| x.add(*y).low(Q)).collect()
}
pub fn p_sub(a: &Poly, b: &Poly) -> Poly {
    a.iter().zip(b).map(|(x, y)| x.sub(*y).low(Q)).collect()
}
pub fn p_neg(a: &Poly) -> Poly {
    a.iter().map(|x| x.neg().low(Q)).collect()
}
/// Multiplication by X^k in Z[X]/(X^N+1), k in Z.
pub fn p_rot(a: &Poly, k: i64) -> Poly {
    let n = a.len() as i128;
    let mut out = vec![W::ZERO; a.len()];
    for (i, x) in a.iter().enumerate() {
        let t = (i as i128 + k as i128).rem_euclid(2 * n);
        if t < n {
            out[t as usize] = *x;
        } else {
            out[(t - n) as usize] = x.neg().low(Q);
        }
    }
    out
}
/// Multiplication by 2^k modulo 1.
pub fn p_shl(a: &Poly, k: usize) -> Poly {
    a.iter().map(|x| x.shl(k).low(Q)).collect()
}
/// Division by 2^k of the centred representative (floor at the model precision).
pub fn p_shr_centered(a: &Poly, k: usize) -> Poly {
    a.iter().map(|x| centered(*x).sar(k).low(Q)).collect()
}
/// Negacyclic product by a small integer polynomial (used for the phase map).
pub fn p_mul_small(a: &Poly, s: &[i64]) -> Poly {
    let n = a.len();
    let mut out = vec![W::ZERO; n];
    for (j, &sj) in s.iter().enumerate() {
        if sj == 0 {
            continue;
        }
        let r = p_rot(a, j as i64);
        for i in 0..n {
            out[i] = match sj {
                1 => out[i].add(r[i]),
                -1 => out[i].sub(r[i]),
                _ => panic!("ternary only"),
            }
            .low(Q);
        }
    }
    out
}
/// phase = body + <mask, s>
pub fn phase(cols: &[Poly], sk: &[Vec<i64>]) -> Poly {
    let mut acc = cols[0].clone();
    for (i, c) in cols.iter().enumerate().skip(1) {
        acc = p_add(&acc, &p_mul_small(c, &sk[i - 1]));
    }
    acc
}

/// max_i |have_i - want_i| (centred, mod 1), expressed in units of 2^-p.
pub fn max_err_units(have: &Poly, want: &Poly, p: usize) -> f64 {
    assert_eq!(have.len(), want.len());
    let mut m = 0f64;
    for (h, w) in have.iter().zip(want) {
        let d = centered(h.sub(*w));
        let f = d.to_f64().abs() / 2f64.powi((Q - p) as i32);
        if f > m {
            m = f;
        }
    }
    m
}

/// Asserts |have - want| <= tol units of 2^-p (coefficient-wise, mod 1). `tol == 0` means exact.
#[track_caller]
pub fn check(have: &Poly, want: &Poly, p: usize, tol: f64, ctx: &dyn Fn() -> String) {
    let e = max_err_units(have, want, p);
    if tol == 0.0 {
        assert!(have == want, "EXACT mismatch, err = {e} units of 2^-{p} :: {}", ctx());
    } else {
        assert!(e <= tol * (1.0 + 1e-9), "err = {e} > tol = {tol} units of 2^-{p} :: {}", ctx());
    }
}

/// Non panicking variant of [`check`]: returns Some(err) on failure.
pub fn check_soft(have: &Poly, want: &Poly, p: usize, tol: f64) -> Option<f64> {
    let e = max_err_units(have, want, p);
    let ok = if tol == 0.0 { have == want } else { e <= tol * (1.0 + 1e-9) };
    if ok { None } else { Some(e) }
}

// ---------------------------------------------------------------------------------------------
// Deterministic data
// ---------------------------------------------------------------------------------------------

pub struct Rng(pub u64);
impl Rng {
    pub fn next(&mut self) -> u64 {
        self.0 = self.0.wrapping_add(0x9E3779B97F4A7C15);
        let mut z = self.0;
        z = (z ^ (z >> 30)).wrapping_mul(0xBF58476D1CE4E5B9);
        z = (z ^ (z >> 27)).wrapping_mul(0x94D049BB133111EB);
        z ^ (z >> 31)
    }
    pub fn below(&mut self, m: u64) -> u64 {
        self.next() % m
    }
    /// uniform in [-2^(bits-1), 2^(bits-1))
    pub fn signed(&mut self, bits: usize) -> i64 {
        assert!((1..=63).contains(&bits));
        let x = self.next() as i64;
        x >> (64 - bits)
    }
}

#[derive(Clone, Copy, Debug, PartialEq)]
pub enum Fill {
    /// Balanced digits in [-2^(b-1), 2^(b-1)), with extra weight on the boundary values.
    Norm,
    /// Limbs in [-2^(b-1+e), 2^(b-1+e)): un-normalised, as produced by chains of additions.
    Unnorm(usize),
    /// Un-normalised lower limbs, top limb small enough for the real value to stay in (-1/2, 1/2).
    UnnormSmallTop(usize),
    Zero,
}

pub fn fill_limb(l: &mut [i64], bits: usize, rng: &mut Rng) {
    let lo: i64 = -(1i64 << (bits - 1));
    let hi: i64 = (1i64 << (bits - 1)) - 1;
    for x in l.iter_mut() {
        *x = match rng.below(16) {
            0 | 1 => lo,
            2 | 3 => hi,
            4 => 0,
            _ => rng.signed(bits),
        }
    }
}

pub fn fill_vec<D: DataMut>(v: &mut VecZnx<D>, base2k: usize, fill: Fill, rng: &mut Rng) {
    let (cols, size) = (v.cols(), v.size());
    for c in 0..cols {
        for j in 0..size {
            let l = v.at_mut(c, j);
            match fill {
                Fill::Norm => fill_limb(l, base2k, rng),
                Fill::Unnorm(e) => fill_limb(l, base2k + e, rng),
                Fill::UnnormSmallTop(e) => {
                    if j == 0 {
                        // |top| <= 2^(b-4)  (or 0 when b is too small)
                        if base2k >= 5 {
                            fill_limb(l, base2k - 3, rng)
                        } else {
                            l.fill(0)
                        }
                    } else {
                        fill_limb(l, base2k + e, rng)
                    }
                }
                Fill::Zero => l.fill(0),
            }
        }
    }
}

/// Largest |tail| of column `col` when only its first `keep` limbs are kept, in units of 2^-(keep*base2k).
pub fn tail_units<D: DataRef>(v: &VecZnx<D>, col: usize, base2k: usize, keep: usize) -> f64 {
    let mut t = 0f64;
    for j in keep..v.size() {
        let m = v.at(col, j).iter().map(|x| x.unsigned_abs()).max().unwrap() as f64;
        t += m * 2f64.powi(-(((j + 1 - keep) * base2k) as i32));
    }
    t
}

// ---------------------------------------------------------------------------------------------
// Harness
// ---------------------------------------------------------------------------------------------

pub trait Ops<BE: Backend>:
    ModuleN
    + GLWEAdd
    + GLWESub
    + GLWENegate
    + GLWECopy
    + GLWERotate<BE>
    + GGSWRotate<BE>
    + GLWEMulXpMinusOne<BE>
    + GLWEShift<BE>
    + GLWENormalize<BE>
    + VecZnxMulXpMinusOneAssignTmpBytes
{
}
impl<BE: Backend, T> Ops<BE> for T where
    T: ModuleN
        + GLWEAdd
        + GLWESub
        + GLWENegate
        + GLWECopy
        + GLWERotate<BE>
        + GGSWRotate<BE>
        + GLWEMulXpMinusOne<BE>
        + GLWEShift<BE>
        + GLWENormalize<BE>
        + VecZnxMulXpMinusOneAssignTmpBytes
{
}

pub fn new_module<BE: Backend>(n: usize) -> Module<BE>
where
    Module<BE>: ModuleNew<BE>,
{
    Module::<BE>::new(n as u64)
}

/// Scratch of exactly `bytes` bytes, pre-filled with garbage.
pub fn dirty_scratch<BE: Backend>(bytes: usize, rng: &mut Rng) -> ScratchOwned<BE>
where
    ScratchOwned<BE>: ScratchOwnedAlloc<BE> + ScratchOwnedBorrow<BE>,
    Scratch<BE>: ScratchAvailable + ScratchTakeCore<BE>,
{
    let mut s: ScratchOwned<BE> = ScratchOwned::alloc(bytes);
    let seed = rng.next();
    let mut r = Rng(seed);
    for chunk in s.borrow().data.chunks_mut(8) {
        let v = r.next().to_le_bytes();
        let l = chunk.len();
        chunk.copy_from_slice(&v[..l]);
    }
    s
}

/// GLWE with `size` active limbs; when `slack > 0` the buffer owns `size + slack` limbs (garbage beyond `size`).
pub fn new_glwe(n: usize, base2k: usize, size: usize, rank: usize, slack: usize, fill: Fill, rng: &mut Rng) -> GLWE<Vec<u8>> {
    let mut g = GLWE::alloc(
        (n as u32).into(),
        (base2k as u32).into(),
        (((size + slack) * base2k) as u32).into(),
        (rank as u32).into(),
    );
    assert_eq!(g.size(), size + slack);
    // garbage everywhere first
    fill_vec(g.data_mut(), base2k.min(40), Fill::Unnorm(2), rng);
    g.data_mut().set_size(size);
    fill_vec(g.data_mut(), base2k, fill, rng);
    g
}

pub fn ternary(n: usize, rank: usize, rng: &mut Rng) -> Vec<Vec<i64>> {
    (0..rank).map(|_| (0..n).map(|_| rng.below(3) as i64 - 1).collect()).collect()
}

// ---------------------------------------------------------------------------------------------
// Failure collection
// ---------------------------------------------------------------------------------------------

#[derive(Default)]
pub struct Report {
    pub checks: usize,
    pub fails: usize,
    pub msgs: Vec<String>,
    /// category -> (checks, failures, max err)
    pub cats: std::collections::BTreeMap<String, (usize, usize, f64)>,
}

impl Report {
    pub fn new() -> Self {
        Self::default()
    }
    pub fn cmp(&mut self, have: &Poly, want: &Poly, p: usize, tol: f64, ctx: &dyn Fn() -> String) {
        self.checks += 1;
        if let Some(e) = check_soft(have, want, p, tol) {
            self.fails += 1;
            if self.msgs.len() < 25 {
                self.msgs.push(format!("err={e:.3} units(2^-{p}) tol={tol:.3} :: {}", ctx()));
            }
        }
    }
    /// Same as `cmp`, additionally tallying the outcome under category `cat`.
    pub fn cmp_cat(&mut self, cat: String, have: &Poly, want: &Poly, p: usize, tol: f64, ctx: &dyn Fn() -> String) {
        let e = max_err_units(have, want, p);
        let failed = check_soft(have, want, p, tol).is_some();
        let ent = self.cats.entry(cat).or_insert((0, 0, 0.0));
        ent.0 += 1;
        if failed {
            ent.1 += 1;
        }
        if e > ent.2 {
            ent.2 = e;
        }
        self.cmp(have, want, p, tol, ctx);
    }
    pub fn fail(&mut self, msg: String) {
        self.checks += 1;
        self.fails += 1;
        if self.msgs.len() < 25 {
            self.msgs.push(msg);
        }
    }
    #[track_caller]
    pub fn finish(self, name: &str) {
        println!("[{name}] {} checks, {} failures", self.checks, self.fails);
        for (k, (c, f, e)) in &self.cats {
            if *f != 0 {
                println!("[{name}]   category {k}: {f}/{c} failed, max err {e:.3} units");
            }
        }
        if self.fails != 0 {
            panic!("[{name}] {} / {} checks failed; first ones:\n{}", self.fails, self.checks, self.msgs.join("\n"));
        }
    }
}
