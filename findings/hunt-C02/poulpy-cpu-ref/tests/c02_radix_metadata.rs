//! C02 (robustness of the family): every two-operand operation either handles operands of different limb radix
//! (`glwe_normalize`) or must reject them. add / sub / lsh assert `base2k` equality; copy / negate / rotate /
//! mul_xp_minus_one do neither: they move raw limbs between radices and silently return a different torus value.
mod c02_common;
use c02_common::*;

use poulpy_cpu_ref::FFT64Ref;
use poulpy_hal::layouts::Module;
use std::panic::{AssertUnwindSafe, catch_unwind};

const N: usize = 8;

fn outcome(name: &str, f: impl FnOnce() -> (Vec<Poly>, Vec<Poly>, usize)) -> bool {
    match catch_unwind(AssertUnwindSafe(f)) {
        Err(_) => {
            println!("{name}: rejected (panic) -> fine");
            true
        }
        Ok((have, want, p)) => {
            let mut worst = 0f64;
            for (h, w) in have.iter().zip(&want) {
                worst = worst.max(max_err_units(h, w, p));
            }
            let ok = worst <= 1.0;
            println!("{name}: accepted, max err = {worst:.3e} units of the last limb of res -> {}", if ok { "fine" } else { "SILENTLY WRONG" });
            ok
        }
    }
}

#[test]
fn mismatched_radix_is_rejected_or_handled() {
    let m: Module<FFT64Ref> = new_module::<FFT64Ref>(N);
    let mut rng = Rng(0xC02_0401);
    let (ba, br, size, rank) = (17usize, 12usize, 2usize, 1usize);
    let a = new_glwe(N, ba, size, rank, 0, Fill::Norm, &mut rng);
    let ta = glwe_tor(&a);
    let p = size * br;
    let mut all_ok = true;

    let mut res = new_glwe(N, br, size, rank, 0, Fill::Zero, &mut rng);
    all_ok &= outcome("glwe_copy(res[base2k=12], a[base2k=17])", || {
        m.glwe_copy(&mut res, &a);
        (glwe_tor(&res), ta.clone(), p)
    });
    let mut res = new_glwe(N, br, size, rank, 0, Fill::Zero, &mut rng);
    all_ok &= outcome("glwe_negate(res[12], a[17])", || {
        m.glwe_negate(&mut res, &a);
        (glwe_tor(&res), ta.iter().map(p_neg).collect(), p)
    });
    let mut res = new_glwe(N, br, size, rank, 0, Fill::Zero, &mut rng);
    all_ok &= outcome("glwe_rotate(3, res[12], a[17])", || {
        m.glwe_rotate(3, &mut res, &a);
        (glwe_tor(&res), ta.iter().map(|x| p_rot(x, 3)).collect(), p)
    });
    let mut res = new_glwe(N, br, size, rank, 0, Fill::Zero, &mut rng);
    all_ok &= outcome("glwe_mul_xp_minus_one(3, res[12], a[17])", || {
        m.glwe_mul_xp_minus_one(3, &mut res, &a);
        (glwe_tor(&res), ta.iter().map(|x| p_sub(&p_rot(x, 3), x)).collect(), p)
    });
    // siblings, for reference
    let mut res = new_glwe(N, br, size, rank, 0, Fill::Zero, &mut rng);
    all_ok &= outcome("glwe_add_assign(res[12], a[17])", || {
        m.glwe_add_assign(&mut res, &a);
        (glwe_tor(&res), ta.clone(), p)
    });
    let mut res = new_glwe(N, br, size, rank, 0, Fill::Zero, &mut rng);
    all_ok &= outcome("glwe_sub_assign(res[12], a[17])", || {
        m.glwe_sub_assign(&mut res, &a);
        (glwe_tor(&res), ta.iter().map(p_neg).collect(), p)
    });
    assert!(all_ok, "some operation accepted operands of different radix and returned a wrong value");
}
