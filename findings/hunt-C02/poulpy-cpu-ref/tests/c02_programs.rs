//! C02: random straight-line programs over a register file of GLWE ciphertexts / plaintexts of mixed limb counts,
//! ranks and radices, built from every noise-free operation, checked after every instruction against the exact
//! torus model (column-wise and through the phase map for a random ternary secret).
mod c02_common;
use c02_common::*;

use poulpy_core::{
    ScratchTakeCore,
    layouts::{GLWE, GLWEInfos, LWEInfos},
};
use poulpy_cpu_ref::{FFT64Ref, NTT120Ref};
use poulpy_hal::{
    api::{ModuleNew, ScratchAvailable, ScratchOwnedAlloc, ScratchOwnedBorrow},
    layouts::{Backend, Module, Scratch, ScratchOwned, ZnxInfos},
};

const N: usize = 8;

struct Reg {
    ct: GLWE<Vec<u8>>,
    /// expected torus value of every column
    model: Vec<Poly>,
    /// bound on |actual - model| (absolute, as a fraction of 1)
    err: f64,
}

impl Reg {
    fn b(&self) -> usize {
        self.ct.base2k().as_usize()
    }
    fn size(&self) -> usize {
        self.ct.size()
    }
    fn rank(&self) -> usize {
        self.ct.rank().as_usize()
    }
    fn unit(&self) -> f64 {
        2f64.powi(-((self.size() * self.b()) as i32))
    }
    fn fresh(b: usize, size: usize, rank: usize, rng: &mut Rng) -> Reg {
        let ct = new_glwe(N, b, size, rank, (rng.below(2)) as usize, Fill::Norm, rng);
        let model = glwe_tor(&ct);
        Reg { ct, model, err: 0.0 }
    }
    /// absolute bound of the part of column `c` below limb `keep`
    fn tail(&self, c: usize, keep: usize) -> f64 {
        if c > self.rank() || keep >= self.size() {
            return 0.0;
        }
        tail_units(self.ct.data(), c, self.b(), keep) * 2f64.powi(-((keep * self.b()) as i32))
    }
    fn tail_all(&self, keep: usize) -> f64 {
        (0..=self.rank()).map(|c| self.tail(c, keep)).fold(0.0, f64::max)
    }
    /// true iff the exact (un-reduced) value of every coefficient lies in (-1/2 + m, 1/2 - m)
    fn real_within_half(&self, margin: f64) -> bool {
        let b = self.b();
        let p = self.size() * b;
        for c in 0..=self.rank() {
            for x in real_col(self.ct.data(), c, b) {
                let v = x.to_f64() * 2f64.powi(-(p as i32));
                if v.abs() >= 0.5 - margin {
                    return false;
                }
            }
        }
        true
    }
    fn model_ext(&self, cols: usize) -> Vec<Poly> {
        let mut v = self.model.clone();
        while v.len() < cols {
            v.push(p_zero(N));
        }
        v
    }
}

fn run_programs<BE: Backend>(name: &str, seed: u64, programs: usize, len: usize)
where
    Module<BE>: ModuleNew<BE> + Ops<BE>,
    ScratchOwned<BE>: ScratchOwnedAlloc<BE> + ScratchOwnedBorrow<BE>,
    Scratch<BE>: ScratchAvailable + ScratchTakeCore<BE>,
{
    let m: Module<BE> = new_module::<BE>(N);
    let mut rng = Rng(seed);
    let mut rep = Report::new();
    let mut op_hist: std::collections::BTreeMap<&'static str, usize> = Default::default();

    for prog in 0..programs {
        let bases = [[7usize, 12], [17, 5], [13, 13], [3, 26], [50, 12]][prog % 5];
        let max_size = |b: usize| -> usize { (200 / b).clamp(1, 5) };
        // register file: every (radix, rank) appears at several limb counts
        let mut regs: Vec<Reg> = vec![];
        for &b in &bases {
            for rank in 0..=2usize {
                for _ in 0..2 {
                    let size = 1 + rng.below(max_size(b) as u64) as usize;
                    regs.push(Reg::fresh(b, size, rank, &mut rng));
                }
            }
        }
        let sk = ternary(N, 2, &mut rng);
        let mut trace: Vec<String> = vec![];

        for _step in 0..len {
            let r = rng.below(regs.len() as u64) as usize;
            let (rb, rs, rr) = (regs[r].b(), regs[r].size(), regs[r].rank());
            // candidates compatible with r
            let same_b: Vec<usize> = (0..regs.len()).filter(|&i| i != r && regs[i].b() == rb).collect();
            let pick = |rng: &mut Rng, pred: &dyn Fn(&Reg) -> bool| -> Option<usize> {
                let c: Vec<usize> = same_b.iter().copied().filter(|&i| pred(&regs[i])).collect();
                if c.is_empty() { None } else { Some(c[rng.below(c.len() as u64) as usize]) }
            };
            let unit_r = regs[r].unit();
            let k_rot: i64 = match rng.below(4) {
                0 => rng.signed(5),
                1 => rng.signed(12),
                2 => rng.signed(63),
                _ => (rng.below(4 * N as u64) as i64) - 2 * N as i64,
            };
            let mut sc = dirty_scratch::<BE>(
                m.glwe_shift_tmp_bytes()
                    .max(m.glwe_normalize_tmp_bytes())
                    .max(m.glwe_rotate_tmp_bytes())
                    .max(m.vec_znx_mul_xp_minus_one_assign_tmp_bytes()),
                &mut rng,
            );
            let op = rng.below(20);
            let mut opname: &'static str = "skip";
            let mut desc = String::new();
            let mut new_model: Option<Vec<Poly>> = None;
            let mut new_err: f64 = 0.0;
            let mut res = regs[r].ct.clone();

            match op {
                // ---------------- binary out of place ----------------
                0 | 1 => {
                    // res.rank == max rank; the other operand has the same rank or rank 0
                    let Some(x) = pick(&mut rng, &|g| g.rank() == rr) else { continue };
                    let Some(y) = pick(&mut rng, &|g| g.rank() == rr || g.rank() == 0) else { continue };
                    let (x, y) = if rng.below(2) == 0 { (x, y) } else { (y, x) };
                    let (mx, my) = (regs[x].model_ext(rr + 1), regs[y].model_ext(rr + 1));
                    if op == 0 {
                        opname = "add_into";
                        m.glwe_add_into(&mut res, &regs[x].ct, &regs[y].ct);
                        new_model = Some((0..=rr).map(|c| p_add(&mx[c], &my[c])).collect());
                    } else {
                        opname = "sub";
                        m.glwe_sub(&mut res, &regs[x].ct, &regs[y].ct);
                        new_model = Some((0..=rr).map(|c| p_sub(&mx[c], &my[c])).collect());
                    }
                    new_err = regs[x].err + regs[y].err + regs[x].tail_all(rs) + regs[y].tail_all(rs);
                    desc = format!("r{r} = {opname}(r{x}, r{y})");
                }
                // ---------------- binary assign ----------------
                2..=4 => {
                    let need_eq_or_zero = op != 2;
                    let Some(x) = pick(&mut rng, &|g| if need_eq_or_zero { g.rank() == rr || g.rank() == 0 } else { g.rank() <= rr })
                    else {
                        continue;
                    };
                    let mx = regs[x].model_ext(rr + 1);
                    let m0 = regs[r].model.clone();
                    match op {
                        2 => {
                            opname = "add_assign";
                            m.glwe_add_assign(&mut res, &regs[x].ct);
                            new_model = Some((0..=rr).map(|c| p_add(&m0[c], &mx[c])).collect());
                        }
                        3 => {
                            opname = "sub_assign";
                            m.glwe_sub_assign(&mut res, &regs[x].ct);
                            new_model = Some((0..=rr).map(|c| p_sub(&m0[c], &mx[c])).collect());
                        }
                        _ => {
                            opname = "sub_negate_assign";
                            m.glwe_sub_negate_assign(&mut res, &regs[x].ct);
                            new_model = Some((0..=rr).map(|c| p_sub(&mx[c], &m0[c])).collect());
                        }
                    }
                    new_err = regs[r].err + regs[x].err + regs[x].tail_all(rs);
                    desc = format!("r{r} = {opname}(r{r}, r{x})");
                }
                // ---------------- unary out of place ----------------
                5..=8 => {
                    let eq_only = op == 5 || op == 8;
                    let Some(x) = pick(&mut rng, &|g| g.rank() == rr || (!eq_only && g.rank() == 0)) else { continue };
                    let mx = regs[x].model_ext(rr + 1);
                    let mut mult = 1.0;
                    match op {
                        5 => {
                            opname = "negate";
                            m.glwe_negate(&mut res, &regs[x].ct);
                            new_model = Some(mx.iter().map(p_neg).collect());
                        }
                        6 => {
                            opname = "copy";
                            m.glwe_copy(&mut res, &regs[x].ct);
                            new_model = Some(mx.clone());
                        }
                        7 => {
                            opname = "rotate";
                            m.glwe_rotate(k_rot, &mut res, &regs[x].ct);
                            new_model = Some(mx.iter().map(|p| p_rot(p, k_rot)).collect());
                        }
                        _ => {
                            opname = "mul_xp_minus_one";
                            m.glwe_mul_xp_minus_one(k_rot, &mut res, &regs[x].ct);
                            new_model = Some(mx.iter().map(|p| p_sub(&p_rot(p, k_rot), p)).collect());
                            mult = 2.0;
                        }
                    }
                    new_err = mult * (regs[x].err + regs[x].tail_all(rs));
                    desc = format!("r{r} = {opname}[k={k_rot}](r{x})");
                }
                // ---------------- unary in place ----------------
                9..=11 => {
                    let m0 = regs[r].model.clone();
                    let mut mult = 1.0;
                    match op {
                        9 => {
                            opname = "negate_assign";
                            m.glwe_negate_assign(&mut res);
                            new_model = Some(m0.iter().map(p_neg).collect());
                        }
                        10 => {
                            opname = "rotate_assign";
                            m.glwe_rotate_assign(k_rot, &mut res, sc.borrow());
                            new_model = Some(m0.iter().map(|p| p_rot(p, k_rot)).collect());
                        }
                        _ => {
                            opname = "mul_xp_minus_one_assign";
                            m.glwe_mul_xp_minus_one_assign(k_rot, &mut res, sc.borrow());
                            new_model = Some(m0.iter().map(|p| p_sub(&p_rot(p, k_rot), p)).collect());
                            mult = 2.0;
                        }
                    }
                    new_err = mult * regs[r].err;
                    desc = format!("r{r} = {opname}[k={k_rot}](r{r})");
                }
                // ---------------- shifts ----------------
                12 => {
                    // rsh, within the precision of the register (larger amounts: see c02_shift_normalize::rsh_*)
                    let k = rng.below((rs * rb) as u64 + 1) as usize;
                    if !regs[r].real_within_half(regs[r].err + 1e-3) {
                        // bring the representation back into (-1/2, 1/2): normalise in place instead
                        opname = "normalize_assign";
                        m.glwe_normalize_assign(&mut res, sc.borrow());
                        new_model = Some(regs[r].model.clone());
                        new_err = regs[r].err;
                        desc = format!("r{r} = normalize_assign(r{r})");
                    } else {
                        opname = "rsh";
                        m.glwe_rsh(k, &mut res, sc.borrow());
                        new_model = Some(regs[r].model.iter().map(|p| p_shr_centered(p, k)).collect());
                        new_err = regs[r].err * 2f64.powi(-(k as i32)) + unit_r;
                        desc = format!("r{r} = rsh[k={k}](r{r})");
                    }
                }
                13 => {
                    let k = rng.below(((rs + 1) * rb) as u64 + 1) as usize;
                    let k = if rng.below(3) == 0 { k } else { k % (rb + 2) };
                    opname = "lsh_assign";
                    m.glwe_lsh_assign(&mut res, k, sc.borrow());
                    new_model = Some(regs[r].model.iter().map(|p| p_shl(p, k)).collect());
                    new_err = regs[r].err * 2f64.powi(k as i32);
                    desc = format!("r{r} = lsh_assign[k={k}](r{r})");
                }
                14..=16 => {
                    let Some(x) = pick(&mut rng, &|g| g.rank() <= rr) else { continue };
                    let xs = regs[x].size();
                    let k = rng.below(((xs.max(rs) + 1) * rb) as u64 + 1) as usize;
                    let k = if rng.below(3) == 0 { k } else { k % (rb + 2) };
                    let mx = regs[x].model_ext(rr + 1);
                    let m0 = regs[r].model.clone();
                    let lossy = rs * rb + k < xs * rb;
                    let shifted: Vec<Poly> = mx.iter().map(|p| p_shl(p, k)).collect();
                    let e_shift = regs[x].err * 2f64.powi(k as i32) + if lossy { unit_r } else { 0.0 };
                    match op {
                        14 => {
                            opname = "lsh";
                            m.glwe_lsh(&mut res, &regs[x].ct, k, sc.borrow());
                            new_model = Some(shifted);
                            new_err = e_shift;
                        }
                        15 => {
                            opname = "lsh_add";
                            m.glwe_lsh_add(&mut res, &regs[x].ct, k, sc.borrow());
                            new_model = Some((0..=rr).map(|c| p_add(&m0[c], &shifted[c])).collect());
                            new_err = regs[r].err + e_shift;
                        }
                        _ => {
                            opname = "lsh_sub";
                            m.glwe_lsh_sub(&mut res, &regs[x].ct, k, sc.borrow());
                            new_model = Some((0..=rr).map(|c| p_sub(&m0[c], &shifted[c])).collect());
                            new_err = regs[r].err + e_shift;
                        }
                    }
                    desc = format!("r{r} = {opname}[k={k}](r{x})");
                }
                // ---------------- normalisation ----------------
                17 | 18 => {
                    // any radix, same rank
                    let c: Vec<usize> = (0..regs.len()).filter(|&i| i != r && regs[i].rank() == rr).collect();
                    if c.is_empty() {
                        continue;
                    }
                    let x = c[rng.below(c.len() as u64) as usize];
                    opname = if regs[x].b() == rb { "normalize" } else { "normalize_cross" };
                    m.glwe_normalize(&mut res, &regs[x].ct, sc.borrow());
                    new_model = Some(regs[x].model.clone());
                    let lossy = rs * rb < regs[x].size() * regs[x].b();
                    new_err = regs[x].err + if lossy { unit_r } else { 0.0 };
                    desc = format!("r{r} = {opname}(r{x})");
                }
                _ => {
                    opname = "normalize_assign";
                    m.glwe_normalize_assign(&mut res, sc.borrow());
                    new_model = Some(regs[r].model.clone());
                    new_err = regs[r].err;
                    desc = format!("r{r} = normalize_assign(r{r})");
                }
            }

            let Some(model) = new_model else { continue };
            *op_hist.entry(opname).or_default() += 1;
            trace.push(format!(
                "{desc}  [r{r}: b={rb} size={rs} rank={rr}] err_bound={:.3} units",
                new_err / unit_r
            ));
            if trace.len() > 12 {
                trace.remove(0);
            }

            regs[r].ct = res;
            regs[r].model = model;
            regs[r].err = new_err;

            // the buffer must keep its shape
            assert_eq!(regs[r].ct.size(), rs);
            assert_eq!(regs[r].ct.data().cols(), rr + 1);

            // column-wise check
            let have = glwe_tor(&regs[r].ct);
            let p = rs * rb;
            let tol_units = (new_err / unit_r).max(0.0);
            let tol = if tol_units == 0.0 { 0.0 } else { tol_units * 1.000001 + 1e-9 };
            for c in 0..=rr {
                rep.cmp_cat(opname.to_string(), &have[c], &regs[r].model[c], p, tol, &|| {
                    format!("{name} program {prog}: col {c} after\n    {}", trace.join("\n    "))
                });
            }
            // phase check: phase(result) == model phase, for a random ternary secret
            let ph_have = phase(&have, &sk);
            let ph_want = phase(&regs[r].model, &sk);
            let tol_ph = if tol == 0.0 { 0.0 } else { tol * (1.0 + (rr * N) as f64) };
            rep.cmp_cat(format!("{opname} (phase)"), &ph_have, &ph_want, p, tol_ph, &|| {
                format!("{name} program {prog}: PHASE after\n    {}", trace.join("\n    "))
            });

            // keep limbs far from i64 overflow (chains of additions / (X^k - 1) grow them): harness-level re-normalisation
            {
                use poulpy_hal::layouts::ZnxView;
                let maxabs = regs[r].ct.data().raw().iter().map(|x| x.unsigned_abs()).max().unwrap();
                if maxabs >> (rb + 6).min(60) != 0 {
                    let mut sc2 = dirty_scratch::<BE>(m.glwe_normalize_tmp_bytes(), &mut rng);
                    m.glwe_normalize_assign(&mut regs[r].ct, sc2.borrow());
                    trace.push(format!("r{r} = normalize_assign(r{r})  [harness: limb growth]"));
                    let have = glwe_tor(&regs[r].ct);
                    for c in 0..=rr {
                        rep.cmp_cat("normalize_assign".to_string(), &have[c], &regs[r].model[c], p, tol, &|| {
                            format!("{name} program {prog}: col {c} after\n    {}", trace.join("\n    "))
                        });
                    }
                }
            }

            // keep the error budget meaningful: refresh registers whose bound has grown too much
            if regs[r].err > 2f64.powi(-6) || regs[r].err / unit_r > 64.0 {
                regs[r] = Reg::fresh(rb, rs, rr, &mut rng);
            }
        }
    }
    println!("[{name}] op histogram: {op_hist:?}");
    rep.finish(&format!("{name}/programs"));
}

#[test]
fn programs_fft64() {
    run_programs::<FFT64Ref>("fft64", 0xC02_0301, 60, 400);
}

#[test]
fn programs_ntt120() {
    run_programs::<NTT120Ref>("ntt120", 0xC02_0302, 60, 400);
}
