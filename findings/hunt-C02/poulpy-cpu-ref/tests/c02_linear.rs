//! C02: add / sub / negate / copy / rotate / mul_xp_minus_one on GLWE (and rotate on GGSW) act column-wise on the
//! torus exactly as the plaintext operation, for every combination of limb counts and ranks, in both forms.
mod c02_common;
use c02_common::*;

use poulpy_core::{
    ScratchTakeCore,
    layouts::{GGSW, GGSWInfos, GLWE, GLWEInfos, GLWEPlaintext, LWEInfos},
};
use poulpy_cpu_ref::{FFT64Ref, NTT120Ref};
use poulpy_hal::{
    api::{ModuleNew, ScratchAvailable, ScratchOwnedAlloc, ScratchOwnedBorrow},
    layouts::{Backend, Module, Scratch, ScratchOwned},
};

const N: usize = 8;

fn zero_ext(cols: &[Poly], total: usize, n: usize) -> Vec<Poly> {
    let mut v = cols.to_vec();
    while v.len() < total {
        v.push(p_zero(n));
    }
    v
}

/// tolerance (in units of the last limb of a result with `keep` limbs) of truncating column `c` of `g`
fn tail<D: poulpy_hal::layouts::DataRef>(g: &GLWE<D>, c: usize, keep: usize) -> f64 {
    if c > g.rank().as_usize() {
        return 0.0;
    }
    tail_units(g.data(), c, g.base2k().as_usize(), keep)
}

fn run_add_sub<BE: Backend>(name: &str)
where
    Module<BE>: ModuleNew<BE> + Ops<BE>,
    ScratchOwned<BE>: ScratchOwnedAlloc<BE> + ScratchOwnedBorrow<BE>,
    Scratch<BE>: ScratchAvailable + ScratchTakeCore<BE>,
{
    let m: Module<BE> = new_module::<BE>(N);
    let mut rng = Rng(0xC02_0001);
    let mut rep = Report::new();

    for &b in &[1usize, 2, 5, 17, 50] {
        for fill in [Fill::Norm, Fill::Unnorm(2)] {
            for sa in 1..=4usize {
                for sb in 1..=4usize {
                    for sr in 1..=4usize {
                        // ---- three operand forms -------------------------------------------------------
                        for rank in 0..=2usize {
                            for (ra, rb) in [(rank, rank), (0, rank), (rank, 0)] {
                                let slack = (sa + sb + sr) % 2;
                                let a = new_glwe(N, b, sa, ra, slack, fill, &mut rng);
                                let bb = new_glwe(N, b, sb, rb, 0, fill, &mut rng);
                                let ta = zero_ext(&glwe_tor(&a), rank + 1, N);
                                let tb = zero_ext(&glwe_tor(&bb), rank + 1, N);
                                let p = sr * b;

                                for op in ["add_into", "sub"] {
                                    let mut res = new_glwe(N, b, sr, rank, slack, Fill::Unnorm(2), &mut rng);
                                    match op {
                                        "add_into" => m.glwe_add_into(&mut res, &a, &bb),
                                        _ => m.glwe_sub(&mut res, &a, &bb),
                                    }
                                    let tr = glwe_tor(&res);
                                    for c in 0..=rank {
                                        let want = if op == "add_into" { p_add(&ta[c], &tb[c]) } else { p_sub(&ta[c], &tb[c]) };
                                        let tol = tail(&a, c, sr) + tail(&bb, c, sr);
                                        if fill == Fill::Norm {
                                            assert!(tol <= 2.0);
                                        }
                                        rep.cmp(&tr[c], &want, p, tol, &|| {
                                            format!("{name} glwe_{op} b={b} {fill:?} sizes(a,b,res)=({sa},{sb},{sr}) ranks(a,b,res)=({ra},{rb},{rank}) col={c}")
                                        });
                                    }
                                }
                            }
                        }

                        // ---- assign forms (res <- res op a): sizes (sr, sa) --------------------------------
                        if sb != 1 {
                            continue;
                        }
                        for rr in 0..=2usize {
                            for ra in 0..=rr {
                                let a = new_glwe(N, b, sa, ra, 0, fill, &mut rng);
                                let ta = zero_ext(&glwe_tor(&a), rr + 1, N);
                                let res0 = new_glwe(N, b, sr, rr, 1, fill, &mut rng);
                                let t0 = glwe_tor(&res0);
                                let p = sr * b;
                                for op in ["add_assign", "sub_assign", "sub_negate_assign"] {
                                    if op != "add_assign" && !(ra == rr || ra == 0) {
                                        continue;
                                    }
                                    let mut res = res0.clone();
                                    match op {
                                        "add_assign" => m.glwe_add_assign(&mut res, &a),
                                        "sub_assign" => m.glwe_sub_assign(&mut res, &a),
                                        _ => m.glwe_sub_negate_assign(&mut res, &a),
                                    }
                                    let tr = glwe_tor(&res);
                                    for c in 0..=rr {
                                        let want = match op {
                                            "add_assign" => p_add(&t0[c], &ta[c]),
                                            "sub_assign" => p_sub(&t0[c], &ta[c]),
                                            _ => p_sub(&ta[c], &t0[c]),
                                        };
                                        let tol = tail(&a, c, sr);
                                        rep.cmp(&tr[c], &want, p, tol, &|| {
                                            format!("{name} glwe_{op} b={b} {fill:?} sizes(res,a)=({sr},{sa}) ranks(res,a)=({rr},{ra}) col={c}")
                                        });
                                    }
                                }
                            }
                        }
                    }
                }
            }
        }
    }
    rep.finish(&format!("{name}/add_sub"));
}

#[test]
fn add_sub_fft64() {
    run_add_sub::<FFT64Ref>("fft64");
}
#[test]
fn add_sub_ntt120() {
    run_add_sub::<NTT120Ref>("ntt120");
}

/// A rank-0 operand given as a `GLWEPlaintext` rather than as a rank-0 `GLWE`.
#[test]
fn add_sub_plaintext_operand_fft64() {
    let m: Module<FFT64Ref> = new_module::<FFT64Ref>(N);
    let mut rng = Rng(0xC02_0002);
    let mut rep = Report::new();
    let b = 12usize;
    for spt in 1..=3usize {
        for sct in 1..=3usize {
            for rank in 0..=2usize {
                let ct = new_glwe(N, b, sct, rank, 0, Fill::Norm, &mut rng);
                let mut pt = GLWEPlaintext::alloc((N as u32).into(), (b as u32).into(), ((spt * b) as u32).into());
                fill_vec(pt.data_mut(), b, Fill::Norm, &mut rng);
                let tpt = tor_col(pt.data(), 0, b);
                let tct = glwe_tor(&ct);
                let sr = sct;
                let p = sr * b;
                let tol_pt = tail_units(pt.data(), 0, b, sr);

                // ct + pt, pt + ct, ct - pt, pt - ct
                for (op, pt_first) in [("add", false), ("add", true), ("sub", false), ("sub", true)] {
                    let mut res = new_glwe(N, b, sr, rank, 0, Fill::Unnorm(1), &mut rng);
                    match (op, pt_first) {
                        ("add", false) => m.glwe_add_into(&mut res, &ct, &pt),
                        ("add", true) => m.glwe_add_into(&mut res, &pt, &ct),
                        ("sub", false) => m.glwe_sub(&mut res, &ct, &pt),
                        _ => m.glwe_sub(&mut res, &pt, &ct),
                    }
                    let tr = glwe_tor(&res);
                    for c in 0..=rank {
                        let x = if c == 0 { tpt.clone() } else { p_zero(N) };
                        let want = match (op, pt_first) {
                            ("add", _) => p_add(&tct[c], &x),
                            ("sub", false) => p_sub(&tct[c], &x),
                            _ => p_sub(&x, &tct[c]),
                        };
                        let tol = if c == 0 { tol_pt } else { 0.0 };
                        rep.cmp(&tr[c], &want, p, tol, &|| {
                            format!("glwe_{op} pt_first={pt_first} sizes(pt,ct)=({spt},{sct}) rank={rank} col={c}")
                        });
                    }
                }
                // assign forms with a plaintext right operand
                for op in ["add_assign", "sub_assign", "sub_negate_assign"] {
                    let mut res = ct.clone();
                    match op {
                        "add_assign" => m.glwe_add_assign(&mut res, &pt),
                        "sub_assign" => m.glwe_sub_assign(&mut res, &pt),
                        _ => m.glwe_sub_negate_assign(&mut res, &pt),
                    }
                    let tr = glwe_tor(&res);
                    for c in 0..=rank {
                        let x = if c == 0 { tpt.clone() } else { p_zero(N) };
                        let want = match op {
                            "add_assign" => p_add(&tct[c], &x),
                            "sub_assign" => p_sub(&tct[c], &x),
                            _ => p_sub(&x, &tct[c]),
                        };
                        let tol = if c == 0 { tol_pt } else { 0.0 };
                        rep.cmp(&tr[c], &want, p, tol, &|| format!("glwe_{op}(ct, pt) sizes(pt,ct)=({spt},{sct}) rank={rank} col={c}"));
                    }
                }
            }
        }
    }
    rep.finish("fft64/plaintext_operand");
}

fn rot_amounts(n: usize) -> Vec<i64> {
    let n = n as i64;
    vec![
        0,
        1,
        -1,
        3,
        n - 1,
        n,
        n + 1,
        2 * n - 1,
        2 * n,
        2 * n + 1,
        -n + 1,
        -n,
        -n - 1,
        -2 * n,
        -2 * n - 1,
        5 * n + 3,
        -7 * n - 2,
        i64::MAX,
        i64::MIN,
        i64::MIN + 1,
        (1i64 << 40) + 5,
        -(1i64 << 40) - 5,
    ]
}

fn run_unary<BE: Backend>(name: &str, n: usize)
where
    Module<BE>: ModuleNew<BE> + Ops<BE>,
    ScratchOwned<BE>: ScratchOwnedAlloc<BE> + ScratchOwnedBorrow<BE>,
    Scratch<BE>: ScratchAvailable + ScratchTakeCore<BE>,
{
    let m: Module<BE> = new_module::<BE>(n);
    let mut rng = Rng(0xC02_0003 + n as u64);
    let mut rep = Report::new();

    for &b in &[2usize, 13, 50] {
        for fill in [Fill::Norm, Fill::Unnorm(2)] {
            for sa in 1..=4usize {
                for sr in 1..=4usize {
                    for rr in 0..=2usize {
                        for ra in [0usize, rr] {
                            if ra == 0 && rr == 0 && sa + sr > 2 && b != 13 {
                                // (covered by ra == rr)
                            }
                            let slack = (sa + sr) % 2;
                            let a = new_glwe(n, b, sa, ra, slack, fill, &mut rng);
                            let ta = zero_ext(&glwe_tor(&a), rr + 1, n);
                            let p = sr * b;

                            // copy
                            {
                                let mut res = new_glwe(n, b, sr, rr, 1 - slack, Fill::Unnorm(2), &mut rng);
                                m.glwe_copy(&mut res, &a);
                                let tr = glwe_tor(&res);
                                for c in 0..=rr {
                                    rep.cmp(&tr[c], &ta[c], p, tail(&a, c, sr), &|| {
                                        format!("{name} n={n} glwe_copy b={b} {fill:?} sizes(a,res)=({sa},{sr}) ranks(a,res)=({ra},{rr}) col={c}")
                                    });
                                }
                            }
                            // negate (equal ranks only)
                            if ra == rr {
                                let mut res = new_glwe(n, b, sr, rr, 1 - slack, Fill::Unnorm(2), &mut rng);
                                m.glwe_negate(&mut res, &a);
                                let tr = glwe_tor(&res);
                                for c in 0..=rr {
                                    rep.cmp(&tr[c], &p_neg(&ta[c]), p, tail(&a, c, sr), &|| {
                                        format!("{name} n={n} glwe_negate b={b} {fill:?} sizes(a,res)=({sa},{sr}) rank={rr} col={c}")
                                    });
                                }
                            }
                            // rotate / mul_xp_minus_one
                            for &k in &rot_amounts(n) {
                                let mut res = new_glwe(n, b, sr, rr, 1 - slack, Fill::Unnorm(2), &mut rng);
                                m.glwe_rotate(k, &mut res, &a);
                                let tr = glwe_tor(&res);
                                for c in 0..=rr {
                                    rep.cmp(&tr[c], &p_rot(&ta[c], k), p, tail(&a, c, sr), &|| {
                                        format!("{name} n={n} glwe_rotate k={k} b={b} {fill:?} sizes(a,res)=({sa},{sr}) ranks(a,res)=({ra},{rr}) col={c}")
                                    });
                                }
                                if ra == rr {
                                    let mut res = new_glwe(n, b, sr, rr, 1 - slack, Fill::Unnorm(2), &mut rng);
                                    m.glwe_mul_xp_minus_one(k, &mut res, &a);
                                    let tr = glwe_tor(&res);
                                    for c in 0..=rr {
                                        let want = p_sub(&p_rot(&ta[c], k), &ta[c]);
                                        rep.cmp(&tr[c], &want, p, 2.0 * tail(&a, c, sr), &|| {
                                            format!("{name} n={n} glwe_mul_xp_minus_one k={k} b={b} {fill:?} sizes(a,res)=({sa},{sr}) rank={rr} col={c}")
                                        });
                                    }
                                }
                            }
                        }
                    }
                }

                // ---- in-place forms (size sa), exact-size dirty scratch ---------------------------------
                for rr in 0..=2usize {
                    let a = new_glwe(n, b, sa, rr, sa % 2, fill, &mut rng);
                    let ta = glwe_tor(&a);
                    let p = sa * b;
                    {
                        let mut res = a.clone();
                        m.glwe_negate_assign(&mut res);
                        let tr = glwe_tor(&res);
                        for c in 0..=rr {
                            rep.cmp(&tr[c], &p_neg(&ta[c]), p, 0.0, &|| format!("{name} n={n} glwe_negate_assign b={b} size={sa} rank={rr} col={c}"));
                        }
                    }
                    for &k in &rot_amounts(n) {
                        let mut res = a.clone();
                        let mut s = dirty_scratch::<BE>(m.glwe_rotate_tmp_bytes(), &mut rng);
                        m.glwe_rotate_assign(k, &mut res, s.borrow());
                        let tr = glwe_tor(&res);
                        for c in 0..=rr {
                            rep.cmp(&tr[c], &p_rot(&ta[c], k), p, 0.0, &|| {
                                format!("{name} n={n} glwe_rotate_assign k={k} b={b} {fill:?} size={sa} rank={rr} col={c}")
                            });
                        }
                        let mut res = a.clone();
                        let mut s = dirty_scratch::<BE>(m.vec_znx_mul_xp_minus_one_assign_tmp_bytes(), &mut rng);
                        m.glwe_mul_xp_minus_one_assign(k, &mut res, s.borrow());
                        let tr = glwe_tor(&res);
                        for c in 0..=rr {
                            let want = p_sub(&p_rot(&ta[c], k), &ta[c]);
                            rep.cmp(&tr[c], &want, p, 0.0, &|| {
                                format!("{name} n={n} glwe_mul_xp_minus_one_assign k={k} b={b} {fill:?} size={sa} rank={rr} col={c}")
                            });
                        }
                    }
                }
            }
        }
    }
    rep.finish(&format!("{name}/unary n={n}"));
}

#[test]
fn unary_fft64_n8() {
    run_unary::<FFT64Ref>("fft64", 8);
}
#[test]
fn unary_fft64_n4() {
    run_unary::<FFT64Ref>("fft64", 4);
}
#[test]
fn unary_fft64_n32() {
    run_unary::<FFT64Ref>("fft64", 32);
}
#[test]
fn unary_ntt120_n8() {
    run_unary::<NTT120Ref>("ntt120", 8);
}

fn run_ggsw_rotate<BE: Backend>(name: &str)
where
    Module<BE>: ModuleNew<BE> + Ops<BE>,
    ScratchOwned<BE>: ScratchOwnedAlloc<BE> + ScratchOwnedBorrow<BE>,
    Scratch<BE>: ScratchAvailable + ScratchTakeCore<BE>,
{
    let n = N;
    let m: Module<BE> = new_module::<BE>(n);
    let mut rng = Rng(0xC02_0004);
    let mut rep = Report::new();
    let b = 11usize;

    let ggsw_tor = |g: &GGSW<Vec<u8>>| -> Vec<Vec<Vec<Poly>>> {
        let rows = g.dnum().as_usize();
        let cols = g.rank().as_usize() + 1;
        (0..rows)
            .map(|r| (0..cols).map(|c| glwe_tor(&g.at(r, c))).collect())
            .collect()
    };
    let fill_ggsw = |g: &mut GGSW<Vec<u8>>, fill: Fill, rng: &mut Rng| {
        let rows = g.dnum().as_usize();
        let cols = g.rank().as_usize() + 1;
        for r in 0..rows {
            for c in 0..cols {
                let mut gl = g.at_mut(r, c);
                fill_vec(gl.data_mut(), b, fill, rng);
            }
        }
    };

    for dsize in 1..=2usize {
        for rank in 0..=2usize {
            for sa in (dsize + 1)..=5usize {
                for sr in (dsize + 1)..=5usize {
                    for dnum_a in 1..=(sa / dsize) {
                        for dnum_r in 1..=dnum_a.min(sr / dsize) {
                            let mut a = GGSW::alloc(
                                (n as u32).into(),
                                (b as u32).into(),
                                ((sa * b) as u32).into(),
                                (rank as u32).into(),
                                (dnum_a as u32).into(),
                                (dsize as u32).into(),
                            );
                            fill_ggsw(&mut a, Fill::Norm, &mut rng);
                            let ta = ggsw_tor(&a);
                            for &k in &[0i64, 1, -3, n as i64, 2 * n as i64 + 1, -(5 * n as i64) - 2, i64::MIN] {
                                let mut res = GGSW::alloc(
                                    (n as u32).into(),
                                    (b as u32).into(),
                                    ((sr * b) as u32).into(),
                                    (rank as u32).into(),
                                    (dnum_r as u32).into(),
                                    (dsize as u32).into(),
                                );
                                fill_ggsw(&mut res, Fill::Unnorm(2), &mut rng);
                                m.ggsw_rotate(k, &mut res, &a);
                                let tr = ggsw_tor(&res);
                                for r in 0..dnum_r {
                                    for ci in 0..=rank {
                                        for c in 0..=rank {
                                            let tol = tail(&a.at(r, ci), c, sr);
                                            rep.cmp(&tr[r][ci][c], &p_rot(&ta[r][ci][c], k), sr * b, tol, &|| {
                                                format!("{name} ggsw_rotate k={k} dsize={dsize} rank={rank} sizes(a,res)=({sa},{sr}) dnum(a,res)=({dnum_a},{dnum_r}) row={r} col_in={ci} col={c}")
                                            });
                                        }
                                    }
                                }
                                if sr == sa && dnum_r == dnum_a {
                                    let mut res = a.clone();
                                    let mut s = dirty_scratch::<BE>(m.ggsw_rotate_tmp_bytes(), &mut rng);
                                    m.ggsw_rotate_assign(k, &mut res, s.borrow());
                                    let tr = ggsw_tor(&res);
                                    for r in 0..dnum_r {
                                        for ci in 0..=rank {
                                            for c in 0..=rank {
                                                rep.cmp(&tr[r][ci][c], &p_rot(&ta[r][ci][c], k), sr * b, 0.0, &|| {
                                                    format!("{name} ggsw_rotate_assign k={k} dsize={dsize} rank={rank} size={sa} dnum={dnum_a} row={r} col_in={ci} col={c}")
                                                });
                                            }
                                        }
                                    }
                                }
                            }
                        }
                    }
                }
            }
        }
    }
    rep.finish(&format!("{name}/ggsw_rotate"));
}

#[test]
fn ggsw_rotate_fft64() {
    run_ggsw_rotate::<FFT64Ref>("fft64");
}
#[test]
fn ggsw_rotate_ntt120() {
    run_ggsw_rotate::<NTT120Ref>("ntt120");
}

#[test]
fn unary_fft64_n2() {
    run_unary::<FFT64Ref>("fft64", 2);
}
#[test]
fn unary_ntt120_n2() {
    run_unary::<NTT120Ref>("ntt120", 2);
}
