//! C02, kernel level: the HAL shift / normalise entry points that the GLWE operations delegate to, compared with
//! the exact torus model for all (a_size, res_size), shift amounts 0..=(size+2)*base2k and column placements.
mod c02_common;
use c02_common::*;

use poulpy_core::ScratchTakeCore;
use poulpy_cpu_ref::{FFT64Ref, NTT120Ref};
use poulpy_hal::{
    api::{
        ModuleNew, ScratchAvailable, ScratchOwnedAlloc, ScratchOwnedBorrow, VecZnxNormalize, VecZnxNormalizeTmpBytes, VecZnxRsh,
        VecZnxRshAddInto, VecZnxRshAssign, VecZnxRshSub, VecZnxRshTmpBytes,
    },
    layouts::{Backend, Module, Scratch, ScratchOwned, VecZnx, ZnxInfos},
};

const N: usize = 8;

fn amounts(b: usize, size: usize) -> Vec<usize> {
    let max = (size + 2) * b;
    if b <= 5 {
        (0..=max).collect()
    } else {
        let mut v = vec![];
        for s in 0..=size + 2 {
            for d in [0usize, 1, b / 2, b - 1] {
                if s * b + d <= max {
                    v.push(s * b + d);
                }
            }
        }
        v
    }
}

fn new_vec(cols: usize, size: usize, b: usize, fill: Fill, rng: &mut Rng) -> VecZnx<Vec<u8>> {
    let mut v = VecZnx::alloc(N, cols, size);
    fill_vec(&mut v, b, fill, rng);
    v
}

/// real(a) / 2^k at the model precision
fn shr_real(a: &VecZnx<Vec<u8>>, col: usize, b: usize, k: usize) -> Poly {
    let p = a.size() * b;
    real_col(a, col, b).into_iter().map(|x| x.shl(Q - p).sar(k).low(Q)).collect()
}

fn run_rsh<BE: Backend>(name: &str)
where
    Module<BE>: ModuleNew<BE>
        + VecZnxRsh<BE>
        + VecZnxRshAddInto<BE>
        + VecZnxRshSub<BE>
        + VecZnxRshAssign<BE>
        + VecZnxRshTmpBytes
        + VecZnxNormalize<BE>
        + VecZnxNormalizeTmpBytes,
    ScratchOwned<BE>: ScratchOwnedAlloc<BE> + ScratchOwnedBorrow<BE>,
    Scratch<BE>: ScratchAvailable + ScratchTakeCore<BE>,
{
    let m: Module<BE> = new_module::<BE>(N);
    let mut rng = Rng(0xC02_0201);
    let mut rep = Report::new();
    for &b in &[2usize, 3, 5, 12, 50] {
        for sa in 1..=4usize {
            for sr in 1..=4usize {
                for k in amounts(b, sa.max(sr)) {
                    let (a_col, r_col) = ((k + sa) % 2, (k + sr) % 3);
                    let a = new_vec(2, sa, b, Fill::Norm, &mut rng);
                    let sh = shr_real(&a, a_col, b, k);
                    let p = sr * b;
                    let class = |k: usize| -> String {
                        format!(
                            "k {} res_size*b, k%b {} 0",
                            if k < sr * b { "<" } else if k == sr * b { "==" } else { ">" },
                            if k % b == 0 { "==" } else { "!=" }
                        )
                    };
                    for op in ["rsh", "rsh_add_into", "rsh_sub"] {
                        let res0 = new_vec(3, sr, b, Fill::Norm, &mut rng);
                        let t0: Vec<Poly> = (0..3).map(|c| tor_col(&res0, c, b)).collect();
                        let mut res = res0.clone();
                        let mut s = dirty_scratch::<BE>(m.vec_znx_rsh_tmp_bytes(), &mut rng);
                        match op {
                            "rsh" => m.vec_znx_rsh(b, k, &mut res, r_col, &a, a_col, s.borrow()),
                            "rsh_add_into" => m.vec_znx_rsh_add_into(b, k, &mut res, r_col, &a, a_col, s.borrow()),
                            _ => m.vec_znx_rsh_sub(b, k, &mut res, r_col, &a, a_col, s.borrow()),
                        }
                        for c in 0..3 {
                            let have = tor_col(&res, c, b);
                            if c != r_col {
                                rep.cmp(&have, &t0[c], p, 0.0, &|| format!("{name} vec_znx_{op}: untouched column {c} modified"));
                                continue;
                            }
                            let want = match op {
                                "rsh" => sh.clone(),
                                "rsh_add_into" => p_add(&t0[c], &sh),
                                _ => p_sub(&t0[c], &sh),
                            };
                            rep.cmp_cat(format!("{op} {}", class(k)), &have, &want, p, 1.0, &|| {
                                format!("{name} vec_znx_{op} k={k} b={b} sizes(a,res)=({sa},{sr}) cols(a,res)=({a_col},{r_col})")
                            });
                        }
                    }
                    if sa == sr {
                        let mut res = a.clone();
                        let mut s = dirty_scratch::<BE>(m.vec_znx_rsh_tmp_bytes(), &mut rng);
                        m.vec_znx_rsh_assign(b, k, &mut res, a_col, s.borrow());
                        rep.cmp_cat(format!("rsh_assign {}", class(k)), &tor_col(&res, a_col, b), &sh, p, 1.0, &|| {
                            format!("{name} vec_znx_rsh_assign k={k} b={b} size={sa} col={a_col}")
                        });
                        rep.cmp(&tor_col(&res, 1 - a_col, b), &tor_col(&a, 1 - a_col, b), p, 0.0, &|| {
                            format!("{name} vec_znx_rsh_assign: untouched column modified")
                        });
                    }
                }
            }
        }
    }
    rep.finish(&format!("{name}/hal_rsh"));
}

#[test]
fn hal_rsh_fft64() {
    run_rsh::<FFT64Ref>("fft64");
}
#[test]
fn hal_rsh_ntt120() {
    run_rsh::<NTT120Ref>("ntt120");
}

/// vec_znx_normalize with a bit offset: res = a * 2^offset (offset < 0: division of the real value).
fn run_normalize_offset<BE: Backend>(name: &str)
where
    Module<BE>: ModuleNew<BE> + VecZnxNormalize<BE> + VecZnxNormalizeTmpBytes,
    ScratchOwned<BE>: ScratchOwnedAlloc<BE> + ScratchOwnedBorrow<BE>,
    Scratch<BE>: ScratchAvailable + ScratchTakeCore<BE>,
{
    let m: Module<BE> = new_module::<BE>(N);
    let mut rng = Rng(0xC02_0202);
    let mut rep = Report::new();
    for &(ba, br) in &[(3usize, 3usize), (5, 5), (12, 12), (50, 50), (3, 5), (5, 3), (12, 17), (17, 12), (7, 50), (50, 7)] {
        for sa in 1..=4usize {
            for sr in 1..=4usize {
                let max = (sa.max(sr) + 2) * ba.max(br);
                let step = if max <= 40 { 1 } else { (max / 37).max(1) };
                let mut offs: Vec<i64> = (0..=max).step_by(step).map(|x| x as i64).collect();
                offs.extend((1..=max).step_by(step).map(|x| -(x as i64)));
                for s in 0..=sa.max(sr) + 2 {
                    for d in [-1i64, 0, 1] {
                        offs.push((s * ba) as i64 + d);
                        offs.push(-((s * ba) as i64) + d);
                        offs.push(-((s * br) as i64) + d);
                    }
                }
                offs.sort();
                offs.dedup();
                for off in offs {
                    let a = new_vec(1, sa, ba, Fill::Norm, &mut rng);
                    let mut res = new_vec(1, sr, br, Fill::Unnorm(2), &mut rng);
                    let mut s = dirty_scratch::<BE>(m.vec_znx_normalize_tmp_bytes(), &mut rng);
                    m.vec_znx_normalize(&mut res, br, off, 0, &a, ba, 0, s.borrow());
                    let want: Poly = if off >= 0 {
                        p_shl(&tor_col(&a, 0, ba), off as usize)
                    } else {
                        shr_real_b(&a, ba, (-off) as usize)
                    };
                    let p = sr * br;
                    let cat = format!(
                        "{} offset {}",
                        if ba == br { "same-radix" } else { "cross-radix" },
                        if off >= 0 {
                            "non-negative".to_string()
                        } else if (-off) as usize <= sr * br {
                            "negative, |off| <= res bits".to_string()
                        } else {
                            "negative, |off| > res bits".to_string()
                        }
                    );
                    rep.cmp_cat(cat, &tor_col(&res, 0, br), &want, p, 1.0, &|| {
                        format!("{name} vec_znx_normalize offset={off} base2k(a,res)=({ba},{br}) sizes(a,res)=({sa},{sr})")
                    });
                }
            }
        }
    }
    rep.finish(&format!("{name}/hal_normalize_offset"));
}

fn shr_real_b(a: &VecZnx<Vec<u8>>, b: usize, k: usize) -> Poly {
    shr_real(a, 0, b, k)
}

#[test]
fn hal_normalize_offset_fft64() {
    run_normalize_offset::<FFT64Ref>("fft64");
}
