//! C02: shifts by powers of two and (cross-radix) re-normalisation of GLWE ciphertexts act on every column as the
//! corresponding torus operation, up to one unit of the last limb of the result when precision is dropped.
mod c02_common;
use c02_common::*;

use poulpy_core::{
    ScratchTakeCore,
    layouts::{GLWE, GLWEInfos, LWEInfos},
};
use poulpy_cpu_ref::{FFT64Ref, NTT120Ref};
use poulpy_hal::{
    api::{ModuleNew, ScratchAvailable, ScratchOwnedAlloc, ScratchOwnedBorrow},
    layouts::{Backend, Module, Scratch, ScratchOwned},
};

const N: usize = 8;

fn shift_amounts(b: usize, size: usize, rng: &mut Rng) -> Vec<usize> {
    let max = (size + 2) * b;
    if b <= 5 {
        (0..=max).collect()
    } else {
        let mut v = vec![];
        for s in 0..=size + 2 {
            for d in [0usize, 1, 2, b / 2, b - 2, b - 1] {
                let k = s * b + d;
                if k <= max {
                    v.push(k);
                }
            }
        }
        for _ in 0..4 {
            v.push(rng.below(max as u64 + 1) as usize);
        }
        v.sort();
        v.dedup();
        v
    }
}

/// real value / 2^k, at the model precision (floor), of every column
fn shr_real<D: poulpy_hal::layouts::DataRef>(g: &GLWE<D>, k: usize) -> Vec<Poly> {
    let b = g.base2k().as_usize();
    let p = g.size() * b;
    (0..g.rank().as_usize() + 1)
        .map(|c| {
            real_col(g.data(), c, b)
                .into_iter()
                .map(|x| {
                    // x is the exact integer numerator over 2^p with |x| < 2^(p+4)
                    x.shl(Q - p).sar(k).low(Q)
                })
                .collect()
        })
        .collect()
}

fn run_rsh<BE: Backend>(name: &str)
where
    Module<BE>: ModuleNew<BE> + Ops<BE>,
    ScratchOwned<BE>: ScratchOwnedAlloc<BE> + ScratchOwnedBorrow<BE>,
    Scratch<BE>: ScratchAvailable + ScratchTakeCore<BE>,
{
    let m: Module<BE> = new_module::<BE>(N);
    let mut rng = Rng(0xC02_0101);
    let mut rep = Report::new();
    for &b in &[2usize, 3, 5, 12, 17, 50] {
        for fill in [Fill::Norm, Fill::UnnormSmallTop(1), Fill::UnnormSmallTop(3)] {
            if fill == Fill::UnnormSmallTop(3) && b < 5 {
                continue; // the real value would leave (-1/2, 1/2)
            }
            for size in 1..=4usize {
                for rank in 0..=2usize {
                    for k in shift_amounts(b, size, &mut rng) {
                        let a = new_glwe(N, b, size, rank, k % 2, fill, &mut rng);
                        let want = shr_real(&a, k);
                        let mut res = a.clone();
                        let mut s = dirty_scratch::<BE>(m.glwe_shift_tmp_bytes(), &mut rng);
                        m.glwe_rsh(k, &mut res, s.borrow());
                        let tr = glwe_tor(&res);
                        for c in 0..=rank {
                            // floor in the model + rounding in the library: strictly less than 1.5 unit; spec says 1 unit
                            let cat = format!(
                                "rsh {fill:?} k {} size*b, k%b {} 0",
                                if k < size * b { "<" } else if k == size * b { "==" } else { ">" },
                                if k % b == 0 { "==" } else { "!=" }
                            );
                            rep.cmp_cat(cat, &tr[c], &want[c], size * b, 1.0, &|| {
                                format!("{name} glwe_rsh k={k} b={b} {fill:?} size={size} rank={rank} col={c}")
                            });
                        }
                    }
                }
            }
        }
    }
    rep.finish(&format!("{name}/rsh"));
}

#[test]
fn rsh_fft64() {
    run_rsh::<FFT64Ref>("fft64");
}
#[test]
fn rsh_ntt120() {
    run_rsh::<NTT120Ref>("ntt120");
}

fn run_lsh<BE: Backend>(name: &str)
where
    Module<BE>: ModuleNew<BE> + Ops<BE>,
    ScratchOwned<BE>: ScratchOwnedAlloc<BE> + ScratchOwnedBorrow<BE>,
    Scratch<BE>: ScratchAvailable + ScratchTakeCore<BE>,
{
    let m: Module<BE> = new_module::<BE>(N);
    let mut rng = Rng(0xC02_0102);
    let mut rep = Report::new();
    for &b in &[2usize, 3, 5, 12, 17, 50] {
        for fill in [Fill::Norm, Fill::Unnorm(2)] {
            for sa in 1..=4usize {
                // ---- in place ---------------------------------------------------------------------------------
                for rank in 0..=2usize {
                    for k in shift_amounts(b, sa, &mut rng) {
                        let a = new_glwe(N, b, sa, rank, k % 2, fill, &mut rng);
                        let ta = glwe_tor(&a);
                        let mut res = a.clone();
                        let mut s = dirty_scratch::<BE>(m.glwe_shift_tmp_bytes(), &mut rng);
                        m.glwe_lsh_assign(&mut res, k, s.borrow());
                        let tr = glwe_tor(&res);
                        for c in 0..=rank {
                            rep.cmp(&tr[c], &p_shl(&ta[c], k), sa * b, 0.0, &|| {
                                format!("{name} glwe_lsh_assign k={k} b={b} {fill:?} size={sa} rank={rank} col={c}")
                            });
                        }
                    }
                }
                // ---- out of place / accumulate ---------------------------------------------------------------------
                for sr in 1..=4usize {
                    for (ra, rr) in [(0usize, 0usize), (0, 1), (1, 1), (0, 2), (1, 2), (2, 2)] {
                        for k in shift_amounts(b, sa.max(sr), &mut rng) {
                            let a = new_glwe(N, b, sa, ra, k % 2, fill, &mut rng);
                            let ta = glwe_tor(&a);
                            let p = sr * b;
                            // a * 2^k has (sa*b - k) fractional bits: exact iff the result can hold them
                            let exact = sr * b + k >= sa * b;
                            let tol = if exact { 0.0 } else { 1.0 };
                            for op in ["lsh", "lsh_add", "lsh_sub"] {
                                let res0 = new_glwe(N, b, sr, rr, 1 - k % 2, if op == "lsh" { Fill::Unnorm(2) } else { fill }, &mut rng);
                                let t0 = glwe_tor(&res0);
                                let mut res = res0.clone();
                                let mut s = dirty_scratch::<BE>(m.glwe_shift_tmp_bytes(), &mut rng);
                                match op {
                                    "lsh" => m.glwe_lsh(&mut res, &a, k, s.borrow()),
                                    "lsh_add" => m.glwe_lsh_add(&mut res, &a, k, s.borrow()),
                                    _ => m.glwe_lsh_sub(&mut res, &a, k, s.borrow()),
                                }
                                let tr = glwe_tor(&res);
                                for c in 0..=rr {
                                    let sh = if c <= ra { p_shl(&ta[c], k) } else { p_zero(N) };
                                    let want = match op {
                                        "lsh" => sh,
                                        "lsh_add" => p_add(&t0[c], &sh),
                                        _ => p_sub(&t0[c], &sh),
                                    };
                                    let tol = if c <= ra { tol } else { 0.0 };
                                    rep.cmp(&tr[c], &want, p, tol, &|| {
                                        format!("{name} glwe_{op} k={k} b={b} {fill:?} sizes(a,res)=({sa},{sr}) ranks(a,res)=({ra},{rr}) col={c}")
                                    });
                                }
                            }
                        }
                    }
                }
            }
        }
    }
    rep.finish(&format!("{name}/lsh"));
}

#[test]
fn lsh_fft64() {
    run_lsh::<FFT64Ref>("fft64");
}
#[test]
fn lsh_ntt120() {
    run_lsh::<NTT120Ref>("ntt120");
}

fn run_normalize<BE: Backend>(name: &str, check_values: bool, check_digits: bool)
where
    Module<BE>: ModuleNew<BE> + Ops<BE>,
    ScratchOwned<BE>: ScratchOwnedAlloc<BE> + ScratchOwnedBorrow<BE>,
    Scratch<BE>: ScratchAvailable + ScratchTakeCore<BE>,
{
    let m: Module<BE> = new_module::<BE>(N);
    let mut rng = Rng(0xC02_0103);
    let mut rep = Report::new();
    let bases = [1usize, 2, 3, 5, 7, 12, 13, 17, 26, 50, 52];
    for &ba in &bases {
        for &br in &bases {
            for fill in [Fill::Norm, Fill::Unnorm(2)] {
                for sa in 1..=4usize {
                    for sr in 1..=4usize {
                        for rank in 0..=2usize {
                            if rank == 2 && (sa + sr) % 2 == 0 {
                                continue;
                            }
                            let a = new_glwe(N, ba, sa, rank, sr % 2, fill, &mut rng);
                            let ta = glwe_tor(&a);
                            let mut res = new_glwe(N, br, sr, rank, sa % 2, Fill::Unnorm(2), &mut rng);
                            let mut s = dirty_scratch::<BE>(m.glwe_normalize_tmp_bytes(), &mut rng);
                            m.glwe_normalize(&mut res, &a, s.borrow());
                            let tr = glwe_tor(&res);
                            let p = sr * br;
                            let tol = if p >= sa * ba { 0.0 } else { 1.0 };
                            for c in 0..=rank {
                                let cat = format!(
                                    "normalize value {fill:?} radix {} prec {}",
                                    if ba == br { "same" } else { "cross" },
                                    if p > sa * ba { "res>a" } else if p == sa * ba { "res==a" } else { "res<a" }
                                );
                                if check_values {
                                    rep.cmp_cat(cat, &tr[c], &ta[c], p, tol, &|| {
                                    format!("{name} glwe_normalize base2k(a,res)=({ba},{br}) {fill:?} sizes(a,res)=({sa},{sr}) rank={rank} col={c}")
                                    });
                                }
                                // the output must be normalised: digits in [-2^(br-1), 2^(br-1))
                                use poulpy_hal::layouts::ZnxView;
                                for j in 0..if check_digits { sr } else { 0 } {
                                    let ok = res.data().at(c, j).iter().all(|&x| x >= -(1i64 << (br - 1)) && x < (1i64 << (br - 1)));
                                    if !ok {
                                        let ent = rep
                                            .cats
                                            .entry(format!(
                                                "normalize OUTPUT-NOT-NORMALISED {fill:?} radix {} prec {}",
                                                if ba == br { "same" } else { "cross" },
                                                if p > sa * ba { "res>a" } else if p == sa * ba { "res==a" } else { "res<a" }
                                            ))
                                            .or_insert((0, 0, 0.0));
                                        ent.0 += 1;
                                        ent.1 += 1;
                                        rep.fail(format!(
                                            "{name} glwe_normalize output limb {j} not normalised: base2k(a,res)=({ba},{br}) {fill:?} sizes(a,res)=({sa},{sr}) rank={rank} col={c}"
                                        ));
                                    }
                                }
                            }
                        }
                    }
                }
                // in place
                if ba == br && check_values {
                    for sa in 1..=4usize {
                        for rank in 0..=2usize {
                            let a = new_glwe(N, ba, sa, rank, sa % 2, fill, &mut rng);
                            let ta = glwe_tor(&a);
                            let mut res = a.clone();
                            let mut s = dirty_scratch::<BE>(m.glwe_normalize_tmp_bytes(), &mut rng);
                            m.glwe_normalize_assign(&mut res, s.borrow());
                            let tr = glwe_tor(&res);
                            for c in 0..=rank {
                                rep.cmp(&tr[c], &ta[c], sa * ba, 0.0, &|| {
                                    format!("{name} glwe_normalize_assign base2k={ba} {fill:?} size={sa} rank={rank} col={c}")
                                });
                            }
                        }
                    }
                }
            }
        }
    }
    rep.finish(&format!("{name}/normalize"));
}

#[test]
fn normalize_fft64() {
    run_normalize::<FFT64Ref>("fft64", true, false);
}
#[test]
fn normalize_ntt120() {
    run_normalize::<NTT120Ref>("ntt120", true, false);
}

/// Secondary observation (the torus value is right, so this is not a phase violation): after `glwe_normalize` into a
/// different radix the limbs of the result are not balanced digits, i.e. the output of "normalize" is not normalised.
#[test]
fn normalize_output_digits_are_balanced_fft64() {
    run_normalize::<FFT64Ref>("fft64", false, true);
}

/// `glwe_maybe_cross_normalize_to_ref / _to_mut`: the returned view must carry the same torus value as the input
/// (up to one unit when the target radix makes it shorter).
#[test]
fn maybe_cross_normalize_fft64() {
    type BE = FFT64Ref;
    let m: Module<BE> = new_module::<BE>(N);
    let mut rng = Rng(0xC02_0104);
    let mut rep = Report::new();
    for &ba in &[3usize, 7, 12, 17, 50] {
        for &bt in &[3usize, 7, 12, 17, 50] {
            for sa in 1..=4usize {
                for rank in 0..=2usize {
                    let mut a = new_glwe(N, ba, sa, rank, 0, Fill::Norm, &mut rng);
                    let ta = glwe_tor(&a);
                    let mut layout = a.glwe_layout();
                    layout.base2k = (bt as u32).into();
                    let bytes = GLWE::bytes_of_from_infos(&layout) + m.glwe_normalize_tmp_bytes();
                    let st = (sa * ba).div_ceil(bt);
                    let p = st * bt;
                    let tol = if p >= sa * ba { 0.0 } else { 1.0 };
                    {
                        let mut s = dirty_scratch::<BE>(bytes, &mut rng);
                        let mut slot = None;
                        let (v, _) = m.glwe_maybe_cross_normalize_to_ref(&a, bt, &mut slot, s.borrow());
                        assert_eq!(v.base2k().as_usize(), bt);
                        assert_eq!(v.size(), st, "size of the cross-normalised view: base2k {ba}->{bt} size {sa}");
                        let tv = glwe_tor(&v);
                        for c in 0..=rank {
                            rep.cmp(&tv[c], &ta[c], p, tol, &|| format!("maybe_cross_normalize_to_ref {ba}->{bt} size={sa} rank={rank} col={c}"));
                        }
                    }
                    {
                        let mut s = dirty_scratch::<BE>(bytes, &mut rng);
                        let mut slot = None;
                        let (v, _) = m.glwe_maybe_cross_normalize_to_mut(&mut a, bt, &mut slot, s.borrow());
                        assert_eq!(v.base2k().as_usize(), bt);
                        let tv = glwe_tor(&v);
                        for c in 0..=rank {
                            rep.cmp(&tv[c], &ta[c], p, tol, &|| format!("maybe_cross_normalize_to_mut {ba}->{bt} size={sa} rank={rank} col={c}"));
                        }
                    }
                }
            }
        }
    }
    rep.finish("fft64/maybe_cross_normalize");
}

/// Smallest instance of the `glwe_rsh` defect: one limb of 3 bits, shift by 4 bits (> the 3 bits the object holds).
/// -4/8 / 2^4 = -1/32 must round to 0 (or -1/8 at worst); the library returns -2/8.
#[test]
fn rsh_beyond_precision_minimal_repro() {
    use poulpy_hal::layouts::{ZnxView, ZnxViewMut};
    type BE = FFT64Ref;
    let m: Module<BE> = new_module::<BE>(N);
    let mut rng = Rng(1);
    let (b, k) = (3usize, 4usize);
    let mut ct = new_glwe(N, b, 1, 0, 0, Fill::Zero, &mut rng);
    ct.data_mut().at_mut(0, 0).copy_from_slice(&[-4, 3, -3, 2, 1, -1, 0, -2]);
    let want = shr_real(&ct, k);
    let input: Vec<i64> = ct.data().at(0, 0).to_vec();
    let mut s = dirty_scratch::<BE>(m.glwe_shift_tmp_bytes(), &mut rng);
    m.glwe_rsh(k, &mut ct, s.borrow());
    println!("glwe_rsh(k=4) on one limb of base2k=3: {:?} -> {:?}", input, ct.data().at(0, 0));
    let e = max_err_units(&glwe_tor(&ct)[0], &want[0], b);
    assert!(e <= 1.0, "glwe_rsh(4) of {input:?} (base2k=3, size=1) = {:?}: {e} units of 2^-3 away from a/2^4", ct.data().at(0, 0));
}
