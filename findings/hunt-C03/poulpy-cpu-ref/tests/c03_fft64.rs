//! C03 audit (key-switching family) on the FFT64 reference backend.
#![allow(dead_code, unused_imports, clippy::too_many_arguments, clippy::needless_range_loop)]
type BE = poulpy_cpu_ref::FFT64Ref;
const BACKEND: &str = "fft64";
const RADIX_TRIPLES: &[(usize, usize, usize)] = &[(12, 12, 12), (11, 12, 10), (13, 12, 14), (7, 12, 17), (17, 9, 5), (16, 16, 16)];
const TINY_RADIX_TRIPLES: &[(usize, usize, usize)] = &[(3, 3, 3), (2, 5, 3), (5, 2, 4), (4, 3, 2), (1, 1, 1), (1, 4, 1), (6, 1, 3)];
include!("c03_common.inc");
include!("c03_ks.inc");
include!("c03_auto.inc");
include!("c03_trace.inc");
include!("c03_lwe.inc");
include!("c03_mat.inc");
include!("c03_noise.inc");
include!("c03_misc.inc");
include!("c03_large.inc");
