//! A read that fails (truncated stream) must leave the receiver's metadata unchanged.
use poulpy_core::layouts::{Base2K, GLWE, GLWECompressed, GLWEInfos, GLWELayout, LWEInfos};
use poulpy_hal::layouts::{ReaderFrom, WriterTo};

fn layout(base2k: u32) -> GLWELayout {
    GLWELayout { n: 16u32.into(), base2k: base2k.into(), k: (2 * base2k).into(), rank: 1u32.into() }
}

#[test]
fn glwe_read_from_truncated_stream_keeps_metadata() {
    let src: GLWE<Vec<u8>> = GLWE::alloc_from_infos(&layout(17));
    let mut bytes: Vec<u8> = Vec::new();
    src.write_to(&mut bytes).unwrap();
    bytes.truncate(4 + 8 * 3); // wrapper header + part of the inner header
    let mut dst: GLWE<Vec<u8>> = GLWE::alloc_from_infos(&layout(12));
    let before: Base2K = dst.base2k();
    assert!(dst.read_from(&mut bytes.as_slice()).is_err());
    assert_eq!(dst.base2k(), before, "failed read changed base2k");
}

#[test]
fn glwe_compressed_read_from_truncated_stream_keeps_metadata() {
    let src: GLWECompressed<Vec<u8>> = GLWECompressed::alloc_from_infos(&layout(17));
    let mut bytes: Vec<u8> = Vec::new();
    src.write_to(&mut bytes).unwrap();
    bytes.truncate(4 + 4 + 32 + 8); // header, seed, part of the inner header
    let mut dst: GLWECompressed<Vec<u8>> = GLWECompressed::alloc_from_infos(&layout(12));
    let before: Base2K = dst.base2k();
    assert!(dst.read_from(&mut bytes.as_slice()).is_err());
    assert_eq!(dst.base2k(), before, "failed read changed base2k");
}
