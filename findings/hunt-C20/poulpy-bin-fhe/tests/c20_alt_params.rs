//! C20 on other parameter sets than the crate's test context: small ring, rank 1, no intermediate GLWE
//! key-switch, FheUint and GGSW in different bases, several digits. Multi-threaded preparation and word
//! operations against their single-threaded forms, exactly sized dirty scratch.

mod c20_common;
use c20_common::*;

use poulpy_bin_fhe::{
    bdd_arithmetic::{
        Add, BDDEncryptionInfos, BDDKey, BDDKeyHelper, BDDKeyLayout, BDDKeyPrepared, FheUint, FheUintPrepare, FheUintPrepared,
        GetGGSWBit, Sltu, Xor,
    },
    blind_rotation::{BlindRotationKeyLayout, CGGI},
    circuit_bootstrapping::{CircuitBootstrappingKeyInfos, CircuitBootstrappingKeyLayout},
};
use poulpy_core::{
    EncryptionLayout,
    layouts::{
        Base2K, Degree, Dnum, Dsize, GGLWEToGGSWKeyLayout, GGSWLayout, GLWEAutomorphismKeyLayout, GLWELayout, GLWESecret,
        GLWESecretPrepared, GLWESecretPreparedFactory, GLWESwitchingKeyLayout, GLWEToLWEKeyLayout, GLWEToRef, LWESecret, Rank,
        TorusPrecision,
    },
};
use poulpy_hal::{
    api::{ModuleNew, ScratchOwnedAlloc, ScratchOwnedBorrow},
    layouts::{DataView, DeviceBuf, Module, ScratchOwned, ZnxView},
    source::Source,
};

#[derive(Clone, Copy, Debug)]
struct Params {
    name: &'static str,
    n: u32,
    n_lwe: u32,
    block: u32,
    rank: u32,
    glwe_base2k: u32,
    glwe_k: u32,
    ggsw_base2k: u32,
    ggsw_k: u32,
    ggsw_dnum: u32,
    ggsw_dsize: u32,
    ks_glwe: bool,
}

const PARAMS: [Params; 4] = [
    Params {
        name: "n64-rank1-direct",
        n: 64,
        n_lwe: 30,
        block: 5,
        rank: 1,
        glwe_base2k: 13,
        glwe_k: 26,
        ggsw_base2k: 13,
        ggsw_k: 52,
        ggsw_dnum: 3,
        ggsw_dsize: 1,
        ks_glwe: false,
    },
    Params {
        name: "n128-rank2",
        n: 128,
        n_lwe: 42,
        block: 7,
        rank: 2,
        glwe_base2k: 13,
        glwe_k: 26,
        ggsw_base2k: 13,
        ggsw_k: 39,
        ggsw_dnum: 2,
        ggsw_dsize: 1,
        ks_glwe: true,
    },
    Params {
        name: "n256-rank1-dsize2",
        n: 256,
        n_lwe: 35,
        block: 7,
        rank: 1,
        glwe_base2k: 10,
        glwe_k: 30,
        ggsw_base2k: 10,
        ggsw_k: 50,
        ggsw_dnum: 2,
        ggsw_dsize: 2,
        ks_glwe: true,
    },
    Params {
        name: "n32-rank3",
        n: 32,
        n_lwe: 21,
        block: 3,
        rank: 3,
        glwe_base2k: 14,
        glwe_k: 28,
        ggsw_base2k: 14,
        ggsw_k: 42,
        ggsw_dnum: 3,
        ggsw_dsize: 1,
        ks_glwe: true,
    },
];

fn layouts(p: &Params) -> (GLWELayout, GGSWLayout, BDDKeyLayout) {
    let glwe = GLWELayout {
        n: Degree(p.n),
        base2k: Base2K(p.glwe_base2k),
        k: TorusPrecision(p.glwe_k),
        rank: Rank(p.rank),
    };
    let ggsw = GGSWLayout {
        n: Degree(p.n),
        base2k: Base2K(p.ggsw_base2k),
        k: TorusPrecision(p.ggsw_k),
        rank: Rank(p.rank),
        dnum: Dnum(p.ggsw_dnum),
        dsize: Dsize(p.ggsw_dsize),
    };
    let key = BDDKeyLayout {
        cbt_layout: CircuitBootstrappingKeyLayout {
            brk_layout: BlindRotationKeyLayout {
                n_glwe: Degree(p.n),
                n_lwe: Degree(p.n_lwe),
                base2k: Base2K(12),
                k: TorusPrecision(52),
                dnum: Dnum(4),
                rank: Rank(p.rank),
            },
            atk_layout: GLWEAutomorphismKeyLayout {
                n: Degree(p.n),
                base2k: Base2K(11),
                k: TorusPrecision(52),
                rank: Rank(p.rank),
                dnum: Dnum(4),
                dsize: Dsize(1),
            },
            tsk_layout: GGLWEToGGSWKeyLayout {
                n: Degree(p.n),
                base2k: Base2K(10),
                k: TorusPrecision(52),
                rank: Rank(p.rank),
                dnum: Dnum(4),
                dsize: Dsize(1),
            },
        },
        ks_glwe_layout: if p.ks_glwe {
            Some(GLWESwitchingKeyLayout {
                n: Degree(p.n),
                base2k: Base2K(4),
                k: TorusPrecision(20),
                rank_in: Rank(p.rank),
                rank_out: Rank(1),
                dnum: Dnum(3),
                dsize: Dsize(1),
            })
        } else {
            None
        },
        ks_lwe_layout: GLWEToLWEKeyLayout {
            n: Degree(p.n),
            base2k: Base2K(4),
            k: TorusPrecision(16),
            rank_in: Rank(if p.ks_glwe { 1 } else { p.rank }),
            dnum: Dnum(3),
        },
    };
    (glwe, ggsw, key)
}

macro_rules! suite {
    ($modname:ident, $BE:ty) => {
        mod $modname {
            use super::*;
            type BE = $BE;
            type Prep = FheUintPrepared<DeviceBuf<BE>, u32, BE>;

            struct Ctx {
                module: Module<BE>,
                sk: GLWESecretPrepared<DeviceBuf<BE>, BE>,
                key: BDDKeyPrepared<DeviceBuf<BE>, CGGI, BE>,
                glwe: GLWELayout,
                ggsw: GGSWLayout,
            }

            fn ctx(p: &Params) -> Ctx {
                let (glwe, ggsw, key_layout) = layouts(p);
                let module: Module<BE> = Module::<BE>::new(p.n as u64);
                let mut source_xs = Source::new([1u8; 32]);
                let mut scratch: ScratchOwned<BE> = ScratchOwned::alloc(1 << 23);
                let mut sk_glwe: GLWESecret<Vec<u8>> = GLWESecret::alloc(p.n.into(), p.rank.into());
                sk_glwe.fill_ternary_prob(0.5, &mut source_xs);
                let mut sk: GLWESecretPrepared<DeviceBuf<BE>, BE> = module.glwe_secret_prepared_alloc(p.rank.into());
                module.glwe_secret_prepare(&mut sk, &sk_glwe);
                let mut sk_lwe: LWESecret<Vec<u8>> = LWESecret::alloc(p.n_lwe.into());
                sk_lwe.fill_binary_block(p.block as usize, &mut source_xs);
                let mut bdd_key: BDDKey<Vec<u8>, CGGI> = BDDKey::alloc_from_infos(&key_layout);
                let enc = BDDEncryptionInfos::from_default_sigma(&key_layout).unwrap();
                bdd_key.encrypt_sk(
                    &module,
                    &sk_lwe,
                    &sk_glwe,
                    &enc,
                    &mut Source::new([3u8; 32]),
                    &mut Source::new([2u8; 32]),
                    scratch.borrow(),
                );
                let mut key: BDDKeyPrepared<DeviceBuf<BE>, CGGI, BE> = BDDKeyPrepared::alloc_from_infos(&module, &key_layout);
                key.prepare(&module, &bdd_key, scratch.borrow());
                Ctx {
                    module,
                    sk,
                    key,
                    glwe,
                    ggsw,
                }
            }

            fn dirty_scratch(bytes: usize, seed: u64) -> ScratchOwned<BE> {
                let mut s: ScratchOwned<BE> = ScratchOwned::alloc(bytes);
                fill_garbage(&mut s.borrow().data, seed);
                s
            }

            fn bits_of(p: &Prep) -> Vec<Vec<u8>> {
                (0..32)
                    .map(|i| {
                        let g = GetGGSWBit::<BE>::get_bit(p, i);
                        let bytes: &[u8] = g.data().data();
                        bytes.to_vec()
                    })
                    .collect()
            }

            fn raw(c: &FheUint<Vec<u8>, u32>) -> Vec<i64> {
                c.to_ref().data().raw().to_vec()
            }

            fn run(p: &Params) -> Vec<String> {
                let mut failures: Vec<String> = Vec::new();
                let cx = ctx(p);
                let module = &cx.module;
                let glwe_enc = EncryptionLayout::new_from_default_sigma(cx.glwe).unwrap();
                let mut big: ScratchOwned<BE> = ScratchOwned::alloc(1 << 23);

                // ---- preparation
                let mut c: FheUint<Vec<u8>, u32> = FheUint::alloc_from_infos(&cx.glwe);
                c.encrypt_sk(
                    module,
                    0xC0DE_1234u32,
                    &cx.sk,
                    &glwe_enc,
                    &mut Source::new([5; 32]),
                    &mut Source::new([6; 32]),
                    big.borrow(),
                );
                let mut a: Prep = FheUintPrepared::alloc_from_infos(module, &cx.ggsw);
                let block = cx.key.get_cbt_key().0.block_size();
                let per_thread = module.fhe_uint_prepare_tmp_bytes(block, 1, &a, &c, &cx.key);
                {
                    let mut s = dirty_scratch(per_thread, 1);
                    match try_run(|| module.fhe_uint_prepare(&mut a, &c, &cx.key, s.borrow())) {
                        Err(m) => {
                            failures.push(format!("[{}] single-thread prepare with the exact query: PANIC {m}", p.name));
                            module.fhe_uint_prepare(&mut a, &c, &cx.key, big.borrow());
                        }
                        Ok(()) => {}
                    }
                }
                let want = bits_of(&a);
                for threads in [1usize, 2, 3, 5, 7, 12, 31, 32, 33, 40] {
                    let mut q: Prep = FheUintPrepared::alloc_from_infos(module, &cx.ggsw);
                    let mut s = dirty_scratch(threads * per_thread, threads as u64 + 10);
                    match try_run(|| module.fhe_uint_prepare_custom_multi_thread(threads, &mut q, &c, 0, 32, &cx.key, s.borrow())) {
                        Err(m) => failures.push(format!("[{}] prepare threads={threads}: PANIC {m}", p.name)),
                        Ok(()) => {
                            if bits_of(&q) != want {
                                failures.push(format!("[{}] prepare threads={threads}: bits differ", p.name));
                            }
                        }
                    }
                }
                for (start, count, threads) in [(3usize, 7usize, 2usize), (29, 3, 5), (0, 1, 4), (31, 1, 1), (5, 27, 26), (1, 30, 4)] {
                    let mut q: Prep = FheUintPrepared::alloc_from_infos(module, &cx.ggsw);
                    let mut s = dirty_scratch(threads * per_thread, 77);
                    match try_run(|| module.fhe_uint_prepare_custom_multi_thread(threads, &mut q, &c, start, count, &cx.key, s.borrow())) {
                        Err(m) => failures.push(format!("[{}] window ({start},{count}) threads={threads}: PANIC {m}", p.name)),
                        Ok(()) => {
                            let have = bits_of(&q);
                            for i in 0..32 {
                                let inside = i >= start && i < start + count;
                                if (inside && have[i] != want[i]) || (!inside && have[i].iter().any(|x| *x != 0)) {
                                    failures.push(format!("[{}] window ({start},{count}) threads={threads}: bit {i} wrong", p.name));
                                }
                            }
                        }
                    }
                }

                // ---- word operations on the prepared input (a) and a second prepared input (b)
                let mut d: FheUint<Vec<u8>, u32> = FheUint::alloc_from_infos(&cx.glwe);
                d.encrypt_sk(
                    module,
                    0x0F1E_2D3Cu32,
                    &cx.sk,
                    &glwe_enc,
                    &mut Source::new([7; 32]),
                    &mut Source::new([8; 32]),
                    big.borrow(),
                );
                let mut b: Prep = FheUintPrepared::alloc_from_infos(module, &cx.ggsw);
                module.fhe_uint_prepare_custom_multi_thread(3, &mut b, &d, 0, 32, &cx.key, big.borrow());

                macro_rules! op {
                    ($st:ident, $mt:ident, $stb:ident, $mtb:ident) => {{
                        let mut r0: FheUint<Vec<u8>, u32> = FheUint::alloc_from_infos(&cx.glwe);
                        let st_bytes = r0.$stb(module, &cx.glwe, &cx.ggsw, &cx.key);
                        let mut s0 = dirty_scratch(st_bytes, 5);
                        match try_run(|| r0.$st(module, &a, &b, &cx.key, s0.borrow())) {
                            Err(m) => failures.push(format!("[{}] {} single-thread exact query: PANIC {m}", p.name, stringify!($st))),
                            Ok(()) => {
                                let want = raw(&r0);
                                for threads in [1usize, 2, 3, 5, 7, 12, 31, 32, 33, 40] {
                                    let mut r: FheUint<Vec<u8>, u32> = FheUint::alloc_from_infos(&cx.glwe);
                                    let bytes = r.$mtb(module, threads, &cx.glwe, &cx.ggsw, &cx.key);
                                    let mut s = dirty_scratch(bytes, threads as u64 * 3);
                                    match try_run(|| r.$mt(threads, module, &a, &b, &cx.key, s.borrow())) {
                                        Err(m) => {
                                            failures.push(format!("[{}] {} threads={threads}: PANIC {m}", p.name, stringify!($st)))
                                        }
                                        Ok(()) => {
                                            if raw(&r) != want {
                                                failures.push(format!("[{}] {} threads={threads}: bits differ", p.name, stringify!($st)));
                                            }
                                        }
                                    }
                                }
                            }
                        }
                    }};
                }
                op!(add, add_multi_thread, add_tmp_bytes, add_multi_thread_tmp_bytes);
                op!(xor, xor_multi_thread, xor_tmp_bytes, xor_multi_thread_tmp_bytes);
                op!(sltu, sltu_multi_thread, sltu_tmp_bytes, sltu_multi_thread_tmp_bytes);
                failures
            }

            /// ASIDE (scratch declaration, not thread invariance): rank 1, GGSW of 3 limbs, no intermediate key-switch.
            /// `fhe_uint_prepare` windows the arena to `fhe_uint_prepare_tmp_bytes` per thread, so no arena size helps.
            #[test]
            fn aside_prepare_rank1_small_ggsw() {
                let p = Params {
                    name: "n64-rank1-ggsw3limbs",
                    n: 64,
                    n_lwe: 30,
                    block: 5,
                    rank: 1,
                    glwe_base2k: 13,
                    glwe_k: 26,
                    ggsw_base2k: 13,
                    ggsw_k: 39,
                    ggsw_dnum: 2,
                    ggsw_dsize: 1,
                    ks_glwe: false,
                };
                let cx = ctx(&p);
                let module = &cx.module;
                let glwe_enc = EncryptionLayout::new_from_default_sigma(cx.glwe).unwrap();
                let mut big: ScratchOwned<BE> = ScratchOwned::alloc(1 << 23);
                let mut c: FheUint<Vec<u8>, u32> = FheUint::alloc_from_infos(&cx.glwe);
                c.encrypt_sk(
                    module,
                    1u32,
                    &cx.sk,
                    &glwe_enc,
                    &mut Source::new([5; 32]),
                    &mut Source::new([6; 32]),
                    big.borrow(),
                );
                let mut a: Prep = FheUintPrepared::alloc_from_infos(module, &cx.ggsw);
                let r = try_run(|| module.fhe_uint_prepare(&mut a, &c, &cx.key, big.borrow()));
                assert!(r.is_ok(), "fhe_uint_prepare with an 8 MiB arena: {r:?}");
            }

            #[test]
            fn other_parameter_sets() {
                let mut failures: Vec<String> = Vec::new();
                for p in PARAMS.iter() {
                    match try_run(|| run(p)) {
                        Ok(f) => failures.extend(f),
                        Err(m) => failures.push(format!("[{}] setup or reference PANIC {m}", p.name)),
                    }
                }
                assert!(failures.is_empty(), "{} failures:\n{}", failures.len(), failures.join("\n"));
            }
        }
    };
}

suite!(fft64_ref, poulpy_cpu_ref::FFT64Ref);
suite!(ntt120_ref, poulpy_cpu_ref::NTT120Ref);
