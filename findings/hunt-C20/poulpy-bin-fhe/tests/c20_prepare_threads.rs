//! C20: `fhe_uint_prepare_custom_multi_thread` returns the same ciphertext BITS as the
//! single-threaded form, for every thread count and every (start, count) window.

mod c20_common;
use c20_common::*;

use poulpy_bin_fhe::{
    bdd_arithmetic::{
        BDDKeyHelper, BDDKeyPrepared, FheUint, FheUintPrepare, FheUintPrepared, GetGGSWBit, UnsignedInteger,
        tests::test_suite::TestContext,
    },
    blind_rotation::CGGI,
    circuit_bootstrapping::CircuitBootstrappingKeyInfos,
};
use poulpy_core::{
    EncryptionLayout,
    layouts::{GGSWLayout, GLWELayout},
};
use poulpy_hal::{
    api::{ScratchOwnedAlloc, ScratchOwnedBorrow},
    layouts::{DataView, DeviceBuf, Module, ScratchOwned},
    source::Source,
};

macro_rules! suite {
    ($modname:ident, $BE:ty) => {
        mod $modname {
            use super::*;
            use std::sync::LazyLock;

            type BE = $BE;

            static CTX: LazyLock<TestContext<CGGI, BE>> = LazyLock::new(TestContext::<CGGI, BE>::new);

            fn enc<T: UnsignedInteger + poulpy_bin_fhe::bdd_arithmetic::ToBits>(value: T, seed: u8) -> FheUint<Vec<u8>, T> {
                let ctx = &*CTX;
                let glwe_infos: GLWELayout = ctx.glwe_infos();
                let enc_infos = EncryptionLayout::new_from_default_sigma(glwe_infos).unwrap();
                let mut c: FheUint<Vec<u8>, T> = FheUint::alloc_from_infos(&glwe_infos);
                let mut scratch: ScratchOwned<BE> = ScratchOwned::alloc(1 << 20);
                c.encrypt_sk(
                    &ctx.module,
                    value,
                    &ctx.sk_glwe,
                    &enc_infos,
                    &mut Source::new([seed; 32]),
                    &mut Source::new([seed.wrapping_add(1); 32]),
                    scratch.borrow(),
                );
                c
            }

            fn bits_of<T: UnsignedInteger>(p: &FheUintPrepared<DeviceBuf<BE>, T, BE>) -> Vec<Vec<u8>> {
                (0..T::BITS as usize)
                    .map(|i| {
                        let g = GetGGSWBit::<BE>::get_bit(p, i);
                        let bytes: &[u8] = g.data().data();
                        bytes.to_vec()
                    })
                    .collect()
            }

            fn alloc_prep<T: UnsignedInteger>() -> FheUintPrepared<DeviceBuf<BE>, T, BE> {
                let ggsw_infos: GGSWLayout = CTX.ggsw_infos();
                FheUintPrepared::<DeviceBuf<BE>, T, BE>::alloc_from_infos(&CTX.module, &ggsw_infos)
            }

            /// Fills every bit of `p` with non-zero data (fresh encryptions of `!0`).
            fn dirty_prep<T: UnsignedInteger + poulpy_bin_fhe::bdd_arithmetic::ToBits>(
                p: &mut FheUintPrepared<DeviceBuf<BE>, T, BE>,
                ones: T,
            ) {
                let ctx = &*CTX;
                let enc_infos = EncryptionLayout::new_from_default_sigma(ctx.ggsw_infos()).unwrap();
                let mut scratch: ScratchOwned<BE> = ScratchOwned::alloc(1 << 22);
                p.encrypt_sk(
                    &ctx.module,
                    ones,
                    &ctx.sk_glwe,
                    &enc_infos,
                    &mut Source::new([77u8; 32]),
                    &mut Source::new([78u8; 32]),
                    scratch.borrow(),
                );
            }

            fn per_thread_bytes<T: UnsignedInteger>(p: &FheUintPrepared<DeviceBuf<BE>, T, BE>, c: &FheUint<Vec<u8>, T>) -> usize {
                let module: &Module<BE> = &CTX.module;
                let key: &BDDKeyPrepared<DeviceBuf<BE>, CGGI, BE> = &CTX.bdd_key;
                let block_size = key.get_cbt_key().0.block_size();
                module.fhe_uint_prepare_tmp_bytes(block_size, 1, p, c, key)
            }

            fn dirty_scratch(bytes: usize, seed: u64) -> ScratchOwned<BE> {
                let mut s: ScratchOwned<BE> = ScratchOwned::alloc(bytes);
                fill_garbage(&mut s.borrow().data, seed);
                s
            }

            /// Reference: single-threaded full preparation.
            fn reference<T: UnsignedInteger>(c: &FheUint<Vec<u8>, T>) -> Vec<Vec<u8>> {
                let mut p = alloc_prep::<T>();
                let bytes = per_thread_bytes(&p, c);
                let mut scratch = dirty_scratch(bytes, 1);
                p.prepare(&CTX.module, c, &CTX.bdd_key, scratch.borrow());
                bits_of(&p)
            }

            #[test]
            fn full_prepare_all_thread_counts_u32() {
                let c = enc::<u32>(0xA5C3_0F19, 11);
                let want = reference(&c);
                assert!(want.iter().all(|b| b.iter().any(|x| *x != 0)));
                let mut failures: Vec<String> = Vec::new();
                for threads in thread_counts(32) {
                    let mut p = alloc_prep::<u32>();
                    dirty_prep(&mut p, u32::MAX);
                    // exactly threads * per-thread query, pre-filled with garbage
                    let mut scratch = dirty_scratch(threads * per_thread_bytes(&p, &c), threads as u64 + 100);
                    let r = try_run(|| {
                        CTX.module.fhe_uint_prepare_custom_multi_thread(threads, &mut p, &c, 0, 32, &CTX.bdd_key, scratch.borrow());
                    });
                    match r {
                        Err(m) => failures.push(format!("threads={threads}: PANIC {m}")),
                        Ok(()) => {
                            let have = bits_of(&p);
                            for i in 0..32 {
                                if have[i] != want[i] {
                                    failures.push(format!(
                                        "threads={threads}: bit {i} differs at byte {:?}",
                                        first_diff(&have[i], &want[i])
                                    ));
                                }
                            }
                        }
                    }
                }
                assert!(failures.is_empty(), "{} failures:\n{}", failures.len(), failures.join("\n"));
            }

            /// Every (start, count) window of a u8 word (8 bits): 45 windows x thread counts 1..=2*cores, 9, 13, 17.
            #[test]
            fn every_window_u8() {
                every_window::<u8>(0xB6u8, u8::MAX, thread_counts(8));
            }

            /// Every (start, count) window of a u32 word (561 windows), rotating set of thread counts.
            #[test]
            fn every_window_u32() {
                let c = cores();
                every_window::<u32>(0x5AC3_F019u32, u32::MAX, vec![1, 2, 3, 5, 7, c, 2 * c, 31, 32, 33, 65]);
            }

            fn every_window<T: UnsignedInteger + poulpy_bin_fhe::bdd_arithmetic::ToBits>(value: T, ones: T, tcs: Vec<usize>) {
                let bits = T::BITS as usize;
                let c = enc::<T>(value, 21);
                let want = reference(&c);
                let mut failures: Vec<String> = Vec::new();
                let mut n_checked = 0usize;
                for start in 0..=bits {
                    // empty windows are exercised separately (`empty_window_*`)
                    for count in 1..=(bits - start) {
                        // for large words limit the cost: all thread counts for short windows, a rotating subset otherwise
                        let tcs_w: Vec<usize> = if bits <= 8 || count <= 4 {
                            tcs.clone()
                        } else {
                            let k = (start * 7 + count * 3) % tcs.len();
                            vec![tcs[k], tcs[(k + 5) % tcs.len()], count + 1]
                        };
                        for &threads in &tcs_w {
                            let mut p = alloc_prep::<T>();
                            dirty_prep(&mut p, ones);
                            let mut scratch =
                                dirty_scratch(threads * per_thread_bytes(&p, &c), (start * 1000 + count * 10 + threads) as u64);
                            let r = try_run(|| {
                                CTX.module.fhe_uint_prepare_custom_multi_thread(threads, &mut p, &c,
                                    start,
                                    count,
                                    &CTX.bdd_key,
                                    scratch.borrow(),
                                );
                            });
                            n_checked += 1;
                            match r {
                                Err(m) => failures.push(format!("start={start} count={count} threads={threads}: PANIC {m}")),
                                Ok(()) => {
                                    let have = bits_of(&p);
                                    for i in 0..bits {
                                        let inside = i >= start && i < start + count;
                                        if inside && have[i] != want[i] {
                                            failures.push(format!(
                                                "start={start} count={count} threads={threads}: bit {i} (inside) != full preparation"
                                            ));
                                        }
                                        if !inside && have[i].iter().any(|x| *x != 0) {
                                            failures.push(format!(
                                                "start={start} count={count} threads={threads}: bit {i} (outside) not zero"
                                            ));
                                        }
                                    }
                                }
                            }
                        }
                    }
                }
                eprintln!("windows checked: {n_checked}, failures: {}", failures.len());
                let shown: Vec<&String> = failures.iter().take(40).collect();
                assert!(failures.is_empty(), "{} failures (first 40):\n{:#?}", failures.len(), shown);
            }

            /// Empty windows (count = 0) at every start, including start = BITS: no work item, every bit zeroed.
            #[test]
            fn empty_window_u32() {
                let c = enc::<u32>(0x1234_5678, 51);
                let mut failures: Vec<String> = Vec::new();
                for start in [0usize, 1, 7, 31, 32] {
                    for threads in [1usize, 2, 3, 33] {
                        let mut p = alloc_prep::<u32>();
                        dirty_prep(&mut p, u32::MAX);
                        let mut scratch = dirty_scratch(threads * per_thread_bytes(&p, &c), 9);
                        let r = try_run(|| {
                            if threads == 1 {
                                // single-threaded sibling
                                CTX.module.fhe_uint_prepare_custom(&mut p, &c, start, 0, &CTX.bdd_key, scratch.borrow());
                            } else {
                                CTX.module.fhe_uint_prepare_custom_multi_thread(threads, &mut p, &c, start, 0, &CTX.bdd_key, scratch.borrow());
                            }
                        });
                        match r {
                            Err(m) => failures.push(format!("start={start} count=0 threads={threads}: PANIC {m}")),
                            Ok(()) => {
                                if bits_of(&p).iter().any(|b| b.iter().any(|x| *x != 0)) {
                                    failures.push(format!("start={start} count=0 threads={threads}: not all zero"));
                                }
                            }
                        }
                    }
                }
                assert!(failures.is_empty(), "{} failures:\n{}", failures.len(), failures.join("\n"));
            }

            /// Repeated runs under oversubscription: several outer threads each run a multi-threaded
            /// preparation on the shared module/key at the same time.
            #[test]
            fn oversubscribed_repeated_runs() {
                let c = enc::<u32>(0xDEAD_BEEF, 31);
                let want = reference(&c);
                let outer = 4usize;
                let inner = 2 * cores() + 3;
                let reps = 3usize;
                let failures: std::sync::Mutex<Vec<String>> = std::sync::Mutex::new(Vec::new());
                std::thread::scope(|s| {
                    for o in 0..outer {
                        let c = &c;
                        let want = &want;
                        let failures = &failures;
                        s.spawn(move || {
                            for rep in 0..reps {
                                let threads = inner + o + rep;
                                let mut p = alloc_prep::<u32>();
                                let mut scratch = dirty_scratch(threads * per_thread_bytes(&p, c), (o * 10 + rep) as u64);
                                CTX.module.fhe_uint_prepare_custom_multi_thread(threads, &mut p, c, 0, 32, &CTX.bdd_key, scratch.borrow());
                                let have = bits_of(&p);
                                if &have != want {
                                    failures.lock().unwrap().push(format!("outer={o} rep={rep} threads={threads}"));
                                }
                            }
                        });
                    }
                });
                let f = failures.into_inner().unwrap();
                assert!(f.is_empty(), "{f:?}");
            }

            /// Other word sizes: 16 and 64 work items.
            #[test]
            fn full_prepare_u16_u64() {
                fn run<T: UnsignedInteger + poulpy_bin_fhe::bdd_arithmetic::ToBits>(value: T, ones: T) -> Vec<String> {
                    let bits = T::BITS as usize;
                    let c = enc::<T>(value, 61);
                    let want = reference(&c);
                    let mut failures = Vec::new();
                    for threads in [1usize, 2, 3, 5, 7, 11, bits - 1, bits, bits + 1, 2 * bits + 3] {
                        let mut p = alloc_prep::<T>();
                        dirty_prep(&mut p, ones);
                        let mut scratch = dirty_scratch(threads * per_thread_bytes(&p, &c), threads as u64);
                        match try_run(|| CTX.module.fhe_uint_prepare_custom_multi_thread(threads, &mut p, &c, 0, bits, &CTX.bdd_key, scratch.borrow())) {
                            Err(m) => failures.push(format!("bits={bits} threads={threads}: PANIC {m}")),
                            Ok(()) => {
                                if bits_of(&p) != want {
                                    failures.push(format!("bits={bits} threads={threads}: differs"));
                                }
                            }
                        }
                    }
                    failures
                }
                let mut f = run::<u16>(0xBEEF, u16::MAX);
                f.extend(run::<u64>(0x0123_4567_89AB_CDEF, u64::MAX));
                assert!(f.is_empty(), "{f:#?}");
            }

            /// Each work item recomputed alone through the public building blocks (key-switch + sample extraction,
            /// circuit bootstrapping, `ggsw_prepare`) in a large private scratch gives the bits of the multi-threaded
            /// preparation.
            #[test]
            fn single_item_pipeline_matches() {
                use poulpy_core::layouts::{GGSW, GGSWPreparedFactory, LWE};
                let c = enc::<u32>(0x0BAD_F00D, 71);
                let module = &CTX.module;
                let ggsw_infos = CTX.ggsw_infos();
                let (cbt, ks_glwe, ks_lwe) = CTX.bdd_key.get_cbt_key();
                let mut p = alloc_prep::<u32>();
                let threads = 5;
                let mut s = dirty_scratch(threads * per_thread_bytes(&p, &c), 4);
                module.fhe_uint_prepare_custom_multi_thread(threads, &mut p, &c, 0, 32, &CTX.bdd_key, s.borrow());
                let have = bits_of(&p);
                let mut scratch = dirty_scratch(1 << 23, 3);
                for i in 0..32 {
                    let mut lwe: LWE<Vec<u8>> = LWE::alloc_from_infos(&c);
                    c.get_bit_lwe(module, i, &mut lwe, ks_glwe, ks_lwe, scratch.borrow());
                    let mut ggsw: GGSW<Vec<u8>> = GGSW::alloc_from_infos(&ggsw_infos);
                    cbt.execute_to_constant(module, &mut ggsw, &lwe, 1, 1, scratch.borrow());
                    let mut q = module.ggsw_prepared_alloc_from_infos(&ggsw_infos);
                    module.ggsw_prepare(&mut q, &ggsw, scratch.borrow());
                    let bytes: &[u8] = q.data().data().as_ref();
                    assert!(bytes == &have[i][..], "bit {i}: stand-alone pipeline differs");
                }
            }

            /// The inherent wrappers name their window parameters (bit_start, bit_end).
            #[test]
            fn wrapper_window_is_start_end() {
                let c = enc::<u32>(0x600D_CAFE, 81);
                let want = reference(&c);
                let mut failures: Vec<String> = Vec::new();
                for (start, end) in [(8usize, 16usize), (16, 32), (31, 32), (0, 32)] {
                    for threads in [1usize, 3] {
                        let mut p = alloc_prep::<u32>();
                        let mut scratch = dirty_scratch(threads * per_thread_bytes(&p, &c), 2);
                        let r = try_run(|| {
                            if threads == 1 {
                                p.prepare_custom(&CTX.module, &c, start, end, &CTX.bdd_key, scratch.borrow());
                            } else {
                                p.prepare_custom_multi_thread(threads, &CTX.module, &c, start, end, &CTX.bdd_key, scratch.borrow());
                            }
                        });
                        match r {
                            Err(m) => failures.push(format!("bit_start={start} bit_end={end} threads={threads}: PANIC {m}")),
                            Ok(()) => {
                                let have = bits_of(&p);
                                let prepared: Vec<usize> = (0..32).filter(|&i| have[i].iter().any(|x| *x != 0)).collect();
                                let expect: Vec<usize> = (start..end).collect();
                                if prepared != expect {
                                    failures.push(format!(
                                        "bit_start={start} bit_end={end} threads={threads}: prepared bits {:?}..={:?}, expected {start}..{end}",
                                        prepared.first(),
                                        prepared.last()
                                    ));
                                } else if (start..end).any(|i| have[i] != want[i]) {
                                    failures.push(format!("bit_start={start} bit_end={end} threads={threads}: wrong bits"));
                                }
                            }
                        }
                    }
                }
                assert!(failures.is_empty(), "{} failures:\n{}", failures.len(), failures.join("\n"));
            }

            /// threads = 0 is not a meaningful count; record how it is rejected.
            #[test]
            fn zero_threads_is_rejected_cleanly() {
                let c = enc::<u32>(1, 41);
                let mut p = alloc_prep::<u32>();
                let mut scratch = dirty_scratch(per_thread_bytes(&p, &c), 5);
                let r = try_run(|| {
                    CTX.module.fhe_uint_prepare_custom_multi_thread(0, &mut p, &c, 0, 32, &CTX.bdd_key, scratch.borrow());
                });
                eprintln!("threads=0 -> {r:?}");
                assert!(r.is_err(), "threads=0 silently accepted");
            }
        }
    };
}

suite!(fft64_ref, poulpy_cpu_ref::FFT64Ref);
suite!(ntt120_ref, poulpy_cpu_ref::NTT120Ref);

#[cfg(all(feature = "enable-avx", target_arch = "x86_64", target_feature = "avx2", target_feature = "fma"))]
suite!(fft64_avx, poulpy_cpu_avx::FFT64Avx);
#[cfg(all(feature = "enable-avx", target_arch = "x86_64", target_feature = "avx2", target_feature = "fma"))]
suite!(ntt120_avx, poulpy_cpu_avx::NTT120Avx);
