//! C20: one Module / prepared key set / read-only ciphertexts shared by several threads, each with its own
//! scratch, running mixed workloads: every thread obtains the bits it would obtain alone.

mod c20_common;
use c20_common::*;

use poulpy_bin_fhe::{
    bdd_arithmetic::{
        Add, BDDKeyHelper, Cmux, FheUint, FheUintPrepared, GetGGSWBit, Sub, Xor, tests::test_suite::TestContext,
    },
    blind_rotation::{
        BlindRotationKey, BlindRotationKeyEncryptSk, BlindRotationKeyLayout, BlindRotationKeyPrepared, CGGI, LookUpTableLayout,
        LookupTable,
    },
};
use poulpy_core::{
    EncryptionLayout, GLWEExternalProduct, LWEEncryptSk,
    layouts::{
        GGSW, GGSWInfos, GGSWLayout, GGSWPreparedFactory, GLWEInfos, GLWE, GLWELayout, GLWESecret, GLWESecretPrepared, GLWESecretPreparedFactory,
        GLWEToRef, LWE, LWELayout, LWEPlaintext, LWESecret,
    },
};
use poulpy_hal::{
    api::{ScratchOwnedAlloc, ScratchOwnedBorrow},
    layouts::{DataView, DeviceBuf, Module, Scratch, ScratchOwned, ZnxView},
    source::Source,
};

fn i64s(v: &[i64]) -> Vec<u8> {
    v.iter().flat_map(|x| x.to_le_bytes()).collect()
}

macro_rules! suite {
    ($modname:ident, $BE:ty) => {
        mod $modname {
            use super::*;
            use std::sync::LazyLock;

            type BE = $BE;
            type Prep = FheUintPrepared<DeviceBuf<BE>, u32, BE>;

            /// Everything below is shared read-only between the worker threads.
            struct Shared {
                ctx: TestContext<CGGI, BE>,
                a: Prep,
                b: Prep,
                c: FheUint<Vec<u8>, u32>,
                d: FheUint<Vec<u8>, u32>,
                // stand-alone blind rotation material
                br_sk_lwe: LWESecret<Vec<u8>>,
                brk: BlindRotationKeyPrepared<DeviceBuf<BE>, CGGI, BE>,
                lut: LookupTable,
                br_glwe: GLWELayout,
                br_lwe: LWELayout,
            }

            const AV: u32 = 0x8421_F00D;
            const BV: u32 = 0x7BDE_0FF1;
            const CV: u32 = 0xA1B2_C3D4;
            const DV: u32 = 0x0102_8384;
            const BR_BLOCK: usize = 7;

            static SH: LazyLock<Shared> = LazyLock::new(|| {
                let ctx = TestContext::<CGGI, BE>::new();
                let module = &ctx.module;
                let mut scratch: ScratchOwned<BE> = ScratchOwned::alloc(1 << 23);
                let ggsw_infos: GGSWLayout = ctx.ggsw_infos();
                let glwe_infos: GLWELayout = ctx.glwe_infos();
                let ggsw_enc = EncryptionLayout::new_from_default_sigma(ggsw_infos).unwrap();
                let glwe_enc = EncryptionLayout::new_from_default_sigma(glwe_infos).unwrap();
                let mut a: Prep = FheUintPrepared::alloc_from_infos(module, &ggsw_infos);
                let mut b: Prep = FheUintPrepared::alloc_from_infos(module, &ggsw_infos);
                a.encrypt_sk(
                    module,
                    AV,
                    &ctx.sk_glwe,
                    &ggsw_enc,
                    &mut Source::new([5; 32]),
                    &mut Source::new([6; 32]),
                    scratch.borrow(),
                );
                b.encrypt_sk(
                    module,
                    BV,
                    &ctx.sk_glwe,
                    &ggsw_enc,
                    &mut Source::new([7; 32]),
                    &mut Source::new([8; 32]),
                    scratch.borrow(),
                );
                let mut c: FheUint<Vec<u8>, u32> = FheUint::alloc_from_infos(&glwe_infos);
                let mut d: FheUint<Vec<u8>, u32> = FheUint::alloc_from_infos(&glwe_infos);
                c.encrypt_sk(
                    module,
                    CV,
                    &ctx.sk_glwe,
                    &glwe_enc,
                    &mut Source::new([9; 32]),
                    &mut Source::new([10; 32]),
                    scratch.borrow(),
                );
                d.encrypt_sk(
                    module,
                    DV,
                    &ctx.sk_glwe,
                    &glwe_enc,
                    &mut Source::new([11; 32]),
                    &mut Source::new([12; 32]),
                    scratch.borrow(),
                );

                // --- stand-alone blind rotation key (rank 1, as in the crate's own blind rotation test)
                let n_glwe = module.n();
                let base2k = 19usize;
                let brk_infos = EncryptionLayout::new_from_default_sigma(BlindRotationKeyLayout {
                    n_glwe: (n_glwe as u32).into(),
                    n_lwe: 77u32.into(),
                    base2k: (base2k as u32).into(),
                    k: (3 * base2k as u32).into(),
                    dnum: 2u32.into(),
                    rank: 1u32.into(),
                })
                .unwrap();
                let br_glwe = GLWELayout {
                    n: (n_glwe as u32).into(),
                    base2k: (base2k as u32).into(),
                    k: (2 * base2k as u32).into(),
                    rank: 1u32.into(),
                };
                let br_lwe = LWELayout {
                    n: 77u32.into(),
                    k: 24u32.into(),
                    base2k: (base2k as u32).into(),
                };
                let mut source_xs = Source::new([21; 32]);
                let mut sk_glwe: GLWESecret<Vec<u8>> = GLWESecret::alloc_from_infos(&br_glwe);
                sk_glwe.fill_ternary_prob(0.5, &mut source_xs);
                let mut sk_glwe_prep: GLWESecretPrepared<DeviceBuf<BE>, BE> = module.glwe_secret_prepared_alloc_from_infos(&br_glwe);
                module.glwe_secret_prepare(&mut sk_glwe_prep, &sk_glwe);
                let mut br_sk_lwe: LWESecret<Vec<u8>> = LWESecret::alloc(77u32.into());
                br_sk_lwe.fill_binary_block(BR_BLOCK, &mut source_xs);
                let mut brk_std: BlindRotationKey<Vec<u8>, CGGI> = BlindRotationKey::<Vec<u8>, CGGI>::alloc(&brk_infos);
                module.blind_rotation_key_encrypt_sk(
                    &mut brk_std,
                    &sk_glwe_prep,
                    &br_sk_lwe,
                    &brk_infos,
                    &mut Source::new([22; 32]),
                    &mut Source::new([23; 32]),
                    scratch.borrow(),
                );
                let mut brk: BlindRotationKeyPrepared<DeviceBuf<BE>, CGGI, BE> = BlindRotationKeyPrepared::alloc(module, &brk_std);
                brk.prepare(module, &brk_std, scratch.borrow());
                let mut lut = LookupTable::alloc(&LookUpTableLayout {
                    n: (n_glwe as u32).into(),
                    extension_factor: 1,
                    k: (base2k as u32).into(),
                    base2k: (base2k as u32).into(),
                });
                let f: Vec<i64> = (0..16).map(|x| 2 * x + 1).collect();
                lut.set(module, &f, 5);

                Shared {
                    ctx,
                    a,
                    b,
                    c,
                    d,
                    br_sk_lwe,
                    brk,
                    lut,
                    br_glwe,
                    br_lwe,
                }
            });

            fn glwe_bytes<G: GLWEToRef>(g: &G) -> Vec<u8> {
                i64s(g.to_ref().data().raw())
            }

            // ---------------------------------------------------------------- operations
            fn op_encrypt(j: usize, s: &mut Scratch<BE>) -> Vec<u8> {
                let sh = &*SH;
                let glwe_infos = sh.ctx.glwe_infos();
                let enc = EncryptionLayout::new_from_default_sigma(glwe_infos).unwrap();
                let mut c: FheUint<Vec<u8>, u32> = FheUint::alloc_from_infos(&glwe_infos);
                c.encrypt_sk(
                    &sh.ctx.module,
                    0x1000_0001u32.wrapping_mul(j as u32 + 3),
                    &sh.ctx.sk_glwe,
                    &enc,
                    &mut Source::new([j as u8; 32]),
                    &mut Source::new([j as u8 ^ 0x55; 32]),
                    s,
                );
                glwe_bytes(&c)
            }

            fn op_encrypt_prepared(j: usize, s: &mut Scratch<BE>) -> Vec<u8> {
                let sh = &*SH;
                let ggsw_infos = sh.ctx.ggsw_infos();
                let enc = EncryptionLayout::new_from_default_sigma(ggsw_infos).unwrap();
                let mut p: FheUintPrepared<DeviceBuf<BE>, u8, BE> = FheUintPrepared::alloc_from_infos(&sh.ctx.module, &ggsw_infos);
                p.encrypt_sk(
                    &sh.ctx.module,
                    (j as u8).wrapping_mul(37).wrapping_add(1),
                    &sh.ctx.sk_glwe,
                    &enc,
                    &mut Source::new([j as u8 ^ 0x11; 32]),
                    &mut Source::new([j as u8 ^ 0x22; 32]),
                    s,
                );
                let mut out = Vec::new();
                for i in 0..8 {
                    let g = GetGGSWBit::<BE>::get_bit(&p, i);
                    let bytes: &[u8] = g.data().data();
                    out.extend_from_slice(bytes);
                }
                out
            }

            /// key-switch + sample extraction, circuit bootstrapping (blind rotation, trace, GGSW expansion), preparation.
            fn op_keyswitch_cbt_prepare(j: usize, s: &mut Scratch<BE>) -> Vec<u8> {
                let sh = &*SH;
                let module = &sh.ctx.module;
                let (cbt, ks_glwe, ks_lwe) = sh.ctx.bdd_key.get_cbt_key();
                let src = if j % 2 == 0 { &sh.c } else { &sh.d };
                let mut lwe: LWE<Vec<u8>> = LWE::alloc_from_infos(src);
                src.get_bit_lwe(module, j % 32, &mut lwe, ks_glwe, ks_lwe, s);
                let mut out = i64s(lwe.data().raw());
                let ggsw_infos = sh.ctx.ggsw_infos();
                let mut ggsw: GGSW<Vec<u8>> = GGSW::alloc_from_infos(&ggsw_infos);
                cbt.execute_to_constant(module, &mut ggsw, &lwe, 1, 1, s);
                for row in 0..ggsw.dnum().as_usize() {
                    for col in 0..ggsw.rank().as_usize() + 1 {
                        out.extend(i64s(ggsw.at(row, col).data().raw()));
                    }
                }
                let mut prep = module.ggsw_prepared_alloc_from_infos(&ggsw_infos);
                module.ggsw_prepare(&mut prep, &ggsw, s);
                let bytes: &[u8] = prep.data().data().as_ref();
                out.extend_from_slice(bytes);
                out
            }

            fn op_external_product_cmux(j: usize, s: &mut Scratch<BE>) -> Vec<u8> {
                let sh = &*SH;
                let module = &sh.ctx.module;
                let glwe_infos = sh.ctx.glwe_infos();
                let mut res: GLWE<Vec<u8>> = GLWE::alloc_from_infos(&glwe_infos);
                let g = GetGGSWBit::<BE>::get_bit(&sh.a, j % 32);
                module.glwe_external_product(&mut res, &sh.c, &g, s);
                let mut out = glwe_bytes(&res);
                let g2 = GetGGSWBit::<BE>::get_bit(&sh.b, (j * 7) % 32);
                module.cmux(&mut res, &sh.c, &sh.d, &g2, s);
                out.extend(glwe_bytes(&res));
                out
            }

            fn op_word_ops(j: usize, s: &mut Scratch<BE>) -> Vec<u8> {
                let sh = &*SH;
                let module = &sh.ctx.module;
                let glwe_infos = sh.ctx.glwe_infos();
                let mut res: FheUint<Vec<u8>, u32> = FheUint::alloc_from_infos(&glwe_infos);
                let mut out = Vec::new();
                match j % 3 {
                    0 => {
                        res.add(module, &sh.a, &sh.b, &sh.ctx.bdd_key, s);
                        assert_eq!(res.decrypt(module, &sh.ctx.sk_glwe, s), AV.wrapping_add(BV));
                    }
                    1 => {
                        res.sub_multi_thread(3, module, &sh.a, &sh.b, &sh.ctx.bdd_key, s);
                        assert_eq!(res.decrypt(module, &sh.ctx.sk_glwe, s), AV.wrapping_sub(BV));
                    }
                    _ => {
                        res.xor_multi_thread(5, module, &sh.b, &sh.a, &sh.ctx.bdd_key, s);
                        assert_eq!(res.decrypt(module, &sh.ctx.sk_glwe, s), AV ^ BV);
                    }
                }
                out.extend(glwe_bytes(&res));
                out
            }

            fn op_helpers(j: usize, s: &mut Scratch<BE>) -> Vec<u8> {
                let sh = &*SH;
                let module = &sh.ctx.module;
                let glwe_infos = sh.ctx.glwe_infos();
                let key = &sh.ctx.bdd_key;
                let mut out = Vec::new();
                let mut res: FheUint<Vec<u8>, u32> = FheUint::alloc_from_infos(&glwe_infos);
                res.splice_u8(module, j % 4, (j / 4) % 4, &sh.c, &sh.d, key, s);
                out.extend(glwe_bytes(&res));
                res.splice_u16(module, j % 2, (j / 2) % 2, &sh.c, &sh.d, key, s);
                out.extend(glwe_bytes(&res));
                res.sext(module, j % 4, key, s);
                out.extend(glwe_bytes(&res));
                res.zero_byte(module, (j + 1) % 4, key, s);
                out.extend(glwe_bytes(&res));
                let mut g: GLWE<Vec<u8>> = GLWE::alloc_from_infos(&glwe_infos);
                sh.c.get_bit_glwe(module, j % 32, &mut g, key, s);
                out.extend(glwe_bytes(&g));
                sh.d.get_byte(module, j % 4, &mut g, key, s);
                out.extend(glwe_bytes(&g));
                res.from_fhe_uint_prepared(module, &sh.a, key, s);
                out.extend(glwe_bytes(&res));
                out.extend(sh.c.decrypt(module, &sh.ctx.sk_glwe, s).to_le_bytes());
                out
            }

            fn op_blind_rotation(j: usize, s: &mut Scratch<BE>) -> Vec<u8> {
                let sh = &*SH;
                let module = &sh.ctx.module;
                let lwe_enc = EncryptionLayout::new_from_default_sigma(sh.br_lwe).unwrap();
                let mut lwe: LWE<Vec<u8>> = LWE::alloc_from_infos(&sh.br_lwe);
                let mut pt: LWEPlaintext<Vec<u8>> = LWEPlaintext::alloc_from_infos(&sh.br_lwe);
                pt.encode_i64((j % 16) as i64, 5usize.into());
                module.lwe_encrypt_sk(
                    &mut lwe,
                    &pt,
                    &sh.br_sk_lwe,
                    &lwe_enc,
                    &mut Source::new([j as u8 ^ 0x33; 32]),
                    &mut Source::new([j as u8 ^ 0x44; 32]),
                    s,
                );
                let mut out = i64s(lwe.data().raw());
                let mut res: GLWE<Vec<u8>> = GLWE::alloc_from_infos(&sh.br_glwe);
                sh.brk.execute(module, &mut res, &lwe, &sh.lut, s);
                out.extend(glwe_bytes(&res));
                out
            }

            type Op = fn(usize, &mut Scratch<BE>) -> Vec<u8>;
            const OPS: [(&str, Op); 7] = [
                ("encrypt", op_encrypt),
                ("encrypt_prepared", op_encrypt_prepared),
                ("keyswitch_cbt_prepare", op_keyswitch_cbt_prepare),
                ("external_product_cmux", op_external_product_cmux),
                ("word_ops", op_word_ops),
                ("helpers", op_helpers),
                ("blind_rotation", op_blind_rotation),
            ];

            /// Job j runs all operations, starting at a job-dependent one so that at any time different
            /// threads are inside different routines.
            fn run_job(j: usize, scratch_seed: u64) -> Vec<(usize, Vec<u8>)> {
                let mut scratch: ScratchOwned<BE> = ScratchOwned::alloc(1 << 23);
                fill_garbage(&mut scratch.borrow().data, scratch_seed);
                let mut res = Vec::new();
                for k in 0..OPS.len() {
                    let idx = (k + j) % OPS.len();
                    res.push((idx, OPS[idx].1(j, scratch.borrow())));
                }
                res.sort_by_key(|x| x.0);
                res
            }

            #[test]
            fn mixed_workloads_on_one_shared_module() {
                LazyLock::force(&SH);
                let jobs = 2 * cores();
                // alone
                let want: Vec<Vec<(usize, Vec<u8>)>> = (0..jobs).map(|j| run_job(j, 1)).collect();
                // alone again with differently dirtied scratch: the operations are deterministic
                for j in [0usize, 1, 2] {
                    let again = run_job(j, 99);
                    for (w, h) in want[j].iter().zip(again.iter()) {
                        assert!(w.1 == h.1, "job {j} op {} not deterministic when run alone", OPS[w.0].0);
                    }
                }
                let mut failures: Vec<String> = Vec::new();
                for round in 0..3usize {
                    let have: Vec<Result<Vec<(usize, Vec<u8>)>, String>> = std::thread::scope(|sc| {
                        let handles: Vec<_> = (0..jobs)
                            .map(|j| sc.spawn(move || try_run(|| run_job(j, (round * 1000 + j) as u64))))
                            .collect();
                        handles.into_iter().map(|h| h.join().unwrap()).collect()
                    });
                    for (j, h) in have.iter().enumerate() {
                        match h {
                            Err(m) => failures.push(format!("round {round} job {j}: PANIC {m}")),
                            Ok(h) => {
                                for (w, h) in want[j].iter().zip(h.iter()) {
                                    if w.1 != h.1 {
                                        failures.push(format!(
                                            "round {round} job {j} op {}: differs at byte {:?}",
                                            OPS[w.0].0,
                                            first_diff(&w.1, &h.1)
                                        ));
                                    }
                                }
                            }
                        }
                    }
                }
                assert!(failures.is_empty(), "{} failures:\n{}", failures.len(), failures.join("\n"));
            }

            /// A Module created on one thread, used on others, and a second Module of the same backend and
            /// degree used at the same time give the same bits.
            #[test]
            fn module_moved_and_duplicated() {
                use poulpy_hal::api::ModuleNew;
                LazyLock::force(&SH);
                let want = op_external_product_cmux(3, {
                    let s: &'static mut ScratchOwned<BE> = Box::leak(Box::new(ScratchOwned::alloc(1 << 22)));
                    s.borrow()
                });
                let other: Module<BE> = std::thread::spawn(|| Module::<BE>::new(SH.ctx.module.n() as u64)).join().unwrap();
                let glwe_infos = SH.ctx.glwe_infos();
                let results: Vec<Vec<u8>> = std::thread::scope(|sc| {
                    let hs: Vec<_> = (0..cores())
                        .map(|t| {
                            let other = &other;
                            sc.spawn(move || {
                                let mut scratch: ScratchOwned<BE> = ScratchOwned::alloc(1 << 22);
                                let module = if t % 2 == 0 { other } else { &SH.ctx.module };
                                let mut res: GLWE<Vec<u8>> = GLWE::alloc_from_infos(&glwe_infos);
                                let g = GetGGSWBit::<BE>::get_bit(&SH.a, 3);
                                module.glwe_external_product(&mut res, &SH.c, &g, scratch.borrow());
                                let mut out = glwe_bytes(&res);
                                let g2 = GetGGSWBit::<BE>::get_bit(&SH.b, 21);
                                module.cmux(&mut res, &SH.c, &SH.d, &g2, scratch.borrow());
                                out.extend(glwe_bytes(&res));
                                out
                            })
                        })
                        .collect();
                    hs.into_iter().map(|h| h.join().unwrap()).collect()
                });
                drop(other);
                for (t, r) in results.iter().enumerate() {
                    assert!(r == &want, "thread {t} differs");
                }
            }
        }
    };
}

suite!(fft64_ref, poulpy_cpu_ref::FFT64Ref);
suite!(ntt120_ref, poulpy_cpu_ref::NTT120Ref);

#[cfg(all(feature = "enable-avx", target_arch = "x86_64", target_feature = "avx2", target_feature = "fma"))]
suite!(fft64_avx, poulpy_cpu_avx::FFT64Avx);
#[cfg(all(feature = "enable-avx", target_arch = "x86_64", target_feature = "avx2", target_feature = "fma"))]
suite!(ntt120_avx, poulpy_cpu_avx::NTT120Avx);
