//! C20: multi-threaded BDD circuit evaluation and the word-level operations built on it return the same
//! ciphertext BITS as the single-threaded forms for every thread count; no work item skipped / run twice.

mod c20_common;
use c20_common::*;

use std::sync::atomic::{AtomicUsize, Ordering};

use poulpy_bin_fhe::{
    bdd_arithmetic::{
        Add, And, BitSize, ExecuteBDDCircuit, FheUint, FheUintPrepared, GetBitCircuitInfo, GetGGSWBit, Identity, Node, Or, Sll,
        Slt, Sltu, Sra, Srl, Sub, Xor, tests::test_suite::TestContext,
    },
    blind_rotation::CGGI,
};
use poulpy_core::{
    EncryptionLayout,
    layouts::{GGSWLayout, GGSWPrepared, GLWE, GLWELayout, GLWEToRef},
};
use poulpy_hal::{
    api::{ScratchOwnedAlloc, ScratchOwnedBorrow},
    layouts::{DeviceBuf, Scratch, ScratchOwned, ZnxView},
    source::Source,
};

/// User-defined circuit: counts how often each work item is fetched by a worker and perturbs the
/// schedule (yield / short sleep) at every work-item boundary.
struct CountingCircuit {
    inputs: usize,
    bits: Vec<(Vec<Node>, usize)>,
    fetched: Vec<AtomicUsize>,
    perturb: bool,
}

impl CountingCircuit {
    fn new(inputs: usize, bits: Vec<(Vec<Node>, usize)>, perturb: bool) -> Self {
        let fetched = (0..bits.len()).map(|_| AtomicUsize::new(0)).collect();
        Self {
            inputs,
            bits,
            fetched,
            perturb,
        }
    }
    fn reset(&self) {
        self.fetched.iter().for_each(|c| c.store(0, Ordering::SeqCst));
    }
}

fn perturb(k: usize) {
    match k % 5 {
        0 => std::thread::yield_now(),
        1 => std::thread::sleep(std::time::Duration::from_micros(200)),
        2 => {
            for _ in 0..3 {
                std::thread::yield_now()
            }
        }
        _ => {}
    }
}

impl GetBitCircuitInfo for CountingCircuit {
    fn input_size(&self) -> usize {
        self.inputs
    }
    fn output_size(&self) -> usize {
        self.bits.len()
    }
    fn get_circuit(&self, bit: usize) -> (&[Node], usize) {
        let k = self.fetched[bit].fetch_add(1, Ordering::SeqCst);
        if self.perturb {
            perturb(bit * 3 + k);
        }
        (&self.bits[bit].0, self.bits[bit].1)
    }
    // does not go through `get_circuit`, so `fetched` only counts the evaluator's own fetches
    fn max_state_size(&self) -> usize {
        self.bits.iter().map(|b| b.1).max().unwrap_or(0)
    }
}

/// bit i of the test circuit: a 3-input / 2-level BDD, or a 1-level selector, or the constant-zero item.
fn test_circuit(outputs: usize, perturb: bool) -> CountingCircuit {
    let mut bits = Vec::new();
    for i in 0..outputs {
        let a = (5 * i + 1) % 32;
        let b = (7 * i + 3) % 32;
        let c = (11 * i + 2) % 32;
        match i % 4 {
            // state_size == 0  ->  evaluator must zero the output
            3 => bits.push((Vec::new(), 0)),
            // out = in[a]
            2 => bits.push((vec![Node::Cmux(a, 1, 0), Node::None], 2)),
            // out = in[c] ? in[a] : in[b]
            1 => bits.push((
                vec![
                    Node::Cmux(a, 1, 0),
                    Node::Cmux(b, 1, 0),
                    Node::None,
                    Node::Cmux(c, 0, 1),
                    Node::None,
                    Node::None,
                ],
                3,
            )),
            // out = in[c] ? (in[a] ? 1 : 0) : copy-of-one
            _ => bits.push((
                vec![
                    Node::Cmux(a, 1, 0),
                    Node::Copy,
                    Node::Cmux(b, 0, 1),
                    Node::Copy,
                    Node::Cmux(c, 0, 1),
                    Node::None,
                ],
                2,
            )),
        }
    }
    CountingCircuit::new(32, bits, perturb)
}

macro_rules! suite {
    ($modname:ident, $BE:ty) => {
        mod $modname {
            use super::*;
            use std::sync::LazyLock;

            type BE = $BE;
            type Prep = FheUintPrepared<DeviceBuf<BE>, u32, BE>;

            static CTX: LazyLock<TestContext<CGGI, BE>> = LazyLock::new(TestContext::<CGGI, BE>::new);

            /// Inputs wrapper perturbing the schedule at every cmux.
            struct YieldingInputs<'a> {
                inner: &'a Prep,
                calls: AtomicUsize,
            }
            impl<'a> GetGGSWBit<BE> for YieldingInputs<'a> {
                fn get_bit(&self, bit: usize) -> GGSWPrepared<&[u8], BE> {
                    let k = self.calls.fetch_add(1, Ordering::Relaxed);
                    perturb(k);
                    GetGGSWBit::<BE>::get_bit(self.inner, bit)
                }
            }
            impl<'a> BitSize for YieldingInputs<'a> {
                fn bit_size(&self) -> usize {
                    32
                }
            }

            fn enc_prep(value: u32, seed: u8) -> Prep {
                let ctx = &*CTX;
                let ggsw_infos: GGSWLayout = ctx.ggsw_infos();
                let enc_infos = EncryptionLayout::new_from_default_sigma(ggsw_infos).unwrap();
                let mut p: Prep = FheUintPrepared::alloc_from_infos(&ctx.module, &ggsw_infos);
                let mut scratch: ScratchOwned<BE> = ScratchOwned::alloc(1 << 22);
                p.encrypt_sk(
                    &ctx.module,
                    value,
                    &ctx.sk_glwe,
                    &enc_infos,
                    &mut Source::new([seed; 32]),
                    &mut Source::new([seed.wrapping_add(1); 32]),
                    scratch.borrow(),
                );
                p
            }

            fn dirty_scratch(bytes: usize, seed: u64) -> ScratchOwned<BE> {
                let mut s: ScratchOwned<BE> = ScratchOwned::alloc(bytes);
                fill_garbage(&mut s.borrow().data, seed);
                s
            }

            fn dirty_uint(seed: u8) -> FheUint<Vec<u8>, u32> {
                let ctx = &*CTX;
                let glwe_infos: GLWELayout = ctx.glwe_infos();
                let enc_infos = EncryptionLayout::new_from_default_sigma(glwe_infos).unwrap();
                let mut c: FheUint<Vec<u8>, u32> = FheUint::alloc_from_infos(&glwe_infos);
                let mut scratch: ScratchOwned<BE> = ScratchOwned::alloc(1 << 20);
                c.encrypt_sk(
                    &ctx.module,
                    0xFFFF_FFFFu32,
                    &ctx.sk_glwe,
                    &enc_infos,
                    &mut Source::new([seed; 32]),
                    &mut Source::new([seed.wrapping_add(1); 32]),
                    scratch.borrow(),
                );
                c
            }

            fn raw(c: &FheUint<Vec<u8>, u32>) -> Vec<i64> {
                c.to_ref().data().raw().to_vec()
            }

            fn decrypt(c: &FheUint<Vec<u8>, u32>) -> u32 {
                let mut scratch: ScratchOwned<BE> = ScratchOwned::alloc(1 << 20);
                c.decrypt(&CTX.module, &CTX.sk_glwe, scratch.borrow())
            }

            #[allow(clippy::too_many_arguments)]
            fn check_op(
                failures: &mut Vec<String>,
                name: &str,
                want_plain: u32,
                st_bytes: usize,
                mt_bytes: &dyn Fn(usize) -> usize,
                st: &dyn Fn(&mut FheUint<Vec<u8>, u32>, &mut Scratch<BE>),
                mt: &dyn Fn(usize, &mut FheUint<Vec<u8>, u32>, &mut Scratch<BE>),
            ) {
                let mut r0 = dirty_uint(90);
                let mut s0 = dirty_scratch(st_bytes, 3);
                st(&mut r0, s0.borrow());
                assert_eq!(decrypt(&r0), want_plain, "{name}: single-thread result decrypts wrongly");
                let want = raw(&r0);
                // single-threaded form again on differently-dirtied buffers: must be deterministic
                let mut r1 = dirty_uint(91);
                let mut s1 = dirty_scratch(st_bytes + 4096, 4);
                st(&mut r1, s1.borrow());
                if raw(&r1) != want {
                    failures.push(format!("{name}: single-thread form depends on dirty scratch/result contents"));
                }
                for threads in thread_counts(32) {
                    let mut r = dirty_uint(92 + (threads % 7) as u8);
                    // exactly the multi-thread query, garbage-filled
                    let mut s = dirty_scratch(mt_bytes(threads), threads as u64 * 17);
                    match try_run(|| mt(threads, &mut r, s.borrow())) {
                        Err(m) => failures.push(format!("{name} threads={threads}: PANIC {m}")),
                        Ok(()) => {
                            if raw(&r) != want {
                                failures.push(format!(
                                    "{name} threads={threads}: ciphertext bits differ from single-thread (decrypts to {:#x}, want {:#x})",
                                    decrypt(&r),
                                    want_plain
                                ));
                            }
                        }
                    }
                }
            }

            macro_rules! op2w {
                ($failures:ident, $a:ident, $b:ident, $av:expr, $bv:expr, $want:expr, $st:ident, $mt:ident, $stb:ident, $mtb:ident) => {{
                    let ctx = &*CTX;
                    let glwe_infos = ctx.glwe_infos();
                    let ggsw_infos = ctx.ggsw_infos();
                    let probe: FheUint<Vec<u8>, u32> = FheUint::alloc_from_infos(&glwe_infos);
                    let st_bytes = probe.$stb(&ctx.module, &glwe_infos, &ggsw_infos, &ctx.bdd_key);
                    let _ = ($av, $bv);
                    check_op(
                        &mut $failures,
                        stringify!($st),
                        $want,
                        st_bytes,
                        &|t| probe.$mtb(&ctx.module, t, &glwe_infos, &ggsw_infos, &ctx.bdd_key),
                        &|r, s| r.$st(&ctx.module, &$a, &$b, &ctx.bdd_key, s),
                        &|t, r, s| r.$mt(t, &ctx.module, &$a, &$b, &ctx.bdd_key, s),
                    );
                }};
            }

            #[test]
            fn word_ops_all_thread_counts() {
                let av: u32 = 0xC3A5_0F71;
                let bv: u32 = 0x5B7E_91D4;
                let sh: u32 = 13;
                let a = enc_prep(av, 10);
                let b = enc_prep(bv, 20);
                let s = enc_prep(sh, 30);
                let mut failures: Vec<String> = Vec::new();
                op2w!(failures, a, b, av, bv, av.wrapping_add(bv), add, add_multi_thread, add_tmp_bytes, add_multi_thread_tmp_bytes);
                op2w!(failures, a, b, av, bv, av.wrapping_sub(bv), sub, sub_multi_thread, sub_tmp_bytes, sub_multi_thread_tmp_bytes);
                op2w!(failures, a, b, av, bv, av & bv, and, and_multi_thread, and_tmp_bytes, and_multi_thread_tmp_bytes);
                op2w!(failures, a, b, av, bv, av | bv, or, or_multi_thread, or_tmp_bytes, or_multi_thread_tmp_bytes);
                op2w!(failures, a, b, av, bv, av ^ bv, xor, xor_multi_thread, xor_tmp_bytes, xor_multi_thread_tmp_bytes);
                op2w!(failures, a, s, av, sh, av << sh, sll, sll_multi_thread, sll_tmp_bytes, sll_multi_thread_tmp_bytes);
                op2w!(failures, a, s, av, sh, av >> sh, srl, srl_multi_thread, srl_tmp_bytes, srl_multi_thread_tmp_bytes);
                op2w!(
                    failures,
                    a,
                    s,
                    av,
                    sh,
                    ((av as i32) >> sh) as u32,
                    sra,
                    sra_multi_thread,
                    sra_tmp_bytes,
                    sra_multi_thread_tmp_bytes
                );
                op2w!(
                    failures,
                    a,
                    b,
                    av,
                    bv,
                    ((av as i32) < (bv as i32)) as u32,
                    slt,
                    slt_multi_thread,
                    slt_tmp_bytes,
                    slt_multi_thread_tmp_bytes
                );
                op2w!(
                    failures,
                    a,
                    b,
                    av,
                    bv,
                    (av < bv) as u32,
                    sltu,
                    sltu_multi_thread,
                    sltu_tmp_bytes,
                    sltu_multi_thread_tmp_bytes
                );
                // one-word operation (no scratch query is exposed for it: generous arena)
                {
                    let ctx = &*CTX;
                    check_op(
                        &mut failures,
                        "identity",
                        av,
                        1 << 22,
                        &|t| (1 << 22) + t * (1 << 19),
                        &|r, s| r.identity(&ctx.module, &a, &ctx.bdd_key, s),
                        &|t, r, s| r.identity_multi_thread(t, &ctx.module, &a, &ctx.bdd_key, s),
                    );
                }
                assert!(failures.is_empty(), "{} failures:\n{}", failures.len(), failures.join("\n"));
            }

            /// Direct use of `execute_bdd_circuit_multi_thread` with user circuits of every output size 1..=33 (most
            /// of them not divisible by the thread count), `out` longer than the circuit (tail must be zeroed),
            /// work items with state_size == 0, exactly sized dirty scratch, schedule perturbation inside the
            /// worker callbacks, and a per-item execution counter.
            #[test]
            fn raw_circuit_every_output_size() {
                let ctx = &*CTX;
                let module = &ctx.module;
                let glwe_infos: GLWELayout = ctx.glwe_infos();
                let ggsw_infos: GGSWLayout = ctx.ggsw_infos();
                let a = enc_prep(0x9E37_79B9, 40);
                let mut failures: Vec<String> = Vec::new();
                let tail = 3usize;
                for outputs in 1..=33usize {
                    let circuit = test_circuit(outputs, true);
                    let per_thread = module.execute_bdd_circuit_tmp_bytes(&glwe_infos, circuit.max_state_size(), &ggsw_infos);

                    let mk_out = |seed: u64| -> Vec<GLWE<Vec<u8>>> {
                        (0..outputs + tail)
                            .map(|i| {
                                let mut g: GLWE<Vec<u8>> = GLWE::alloc_from_infos(&glwe_infos);
                                let n = g.data().raw().len();
                                let mut bytes = vec![0u8; n * 8];
                                fill_garbage(&mut bytes, seed + i as u64);
                                use poulpy_hal::layouts::ZnxViewMut;
                                for (d, s) in g.data_mut().raw_mut().iter_mut().zip(bytes.chunks(8)) {
                                    *d = i64::from_le_bytes(s.try_into().unwrap());
                                }
                                g
                            })
                            .collect()
                    };
                    let dump = |o: &Vec<GLWE<Vec<u8>>>| -> Vec<Vec<i64>> { o.iter().map(|g| g.data().raw().to_vec()).collect() };

                    // single-threaded sibling
                    let mut out0 = mk_out(1);
                    let mut s0 = dirty_scratch(per_thread, 7);
                    circuit.reset();
                    module.execute_bdd_circuit(&mut out0, &a, &circuit, s0.borrow());
                    let want = dump(&out0);
                    for (i, w) in want.iter().enumerate() {
                        let zero_expected = i >= outputs || i % 4 == 3;
                        if zero_expected != w.iter().all(|x| *x == 0) {
                            failures.push(format!("outputs={outputs} single-thread: out[{i}] zero-ness wrong"));
                        }
                    }
                    for (i, c) in circuit.fetched.iter().enumerate() {
                        let k = c.load(Ordering::SeqCst);
                        if k != 1 {
                            failures.push(format!("outputs={outputs} single-thread: item {i} fetched {k} times"));
                        }
                    }

                    let mut tcs: Vec<usize> = (1..=2 * cores()).collect();
                    tcs.extend([outputs, outputs + 1, 2 * outputs + 1, 67]);
                    tcs.sort();
                    tcs.dedup();
                    for threads in tcs {
                        let mut out = mk_out(1000 + threads as u64);
                        let mut s = dirty_scratch(threads * per_thread, threads as u64);
                        let inputs = YieldingInputs {
                            inner: &a,
                            calls: AtomicUsize::new(threads),
                        };
                        circuit.reset();
                        match try_run(|| module.execute_bdd_circuit_multi_thread(threads, &mut out, &inputs, &circuit, s.borrow())) {
                            Err(m) => failures.push(format!("outputs={outputs} threads={threads}: PANIC {m}")),
                            Ok(()) => {
                                let have = dump(&out);
                                for i in 0..outputs + tail {
                                    if have[i] != want[i] {
                                        failures.push(format!("outputs={outputs} threads={threads}: out[{i}] differs"));
                                    }
                                }
                                for (i, c) in circuit.fetched.iter().enumerate() {
                                    let k = c.load(Ordering::SeqCst);
                                    if k != 1 {
                                        failures.push(format!("outputs={outputs} threads={threads}: item {i} executed {k} times"));
                                    }
                                }
                            }
                        }
                    }
                }
                let shown: Vec<&String> = failures.iter().take(40).collect();
                assert!(failures.is_empty(), "{} failures (first 40):\n{:#?}", failures.len(), shown);
            }

            /// A circuit with no output: nothing to do, `out` entirely zeroed.
            #[test]
            fn raw_circuit_zero_outputs() {
                let ctx = &*CTX;
                let module = &ctx.module;
                let glwe_infos: GLWELayout = ctx.glwe_infos();
                let a = enc_prep(7, 50);
                let circuit = test_circuit(0, false);
                let mut failures: Vec<String> = Vec::new();
                for threads in [1usize, 2, 5] {
                    let mut out: Vec<GLWE<Vec<u8>>> = (0..2)
                        .map(|_| {
                            let mut g: GLWE<Vec<u8>> = GLWE::alloc_from_infos(&glwe_infos);
                            use poulpy_hal::layouts::ZnxViewMut;
                            g.data_mut().raw_mut().iter_mut().for_each(|x| *x = 5);
                            g
                        })
                        .collect();
                    let mut s = dirty_scratch(1 << 20, 1);
                    match try_run(|| module.execute_bdd_circuit_multi_thread(threads, &mut out, &a, &circuit, s.borrow())) {
                        Err(m) => failures.push(format!("outputs=0 threads={threads}: PANIC {m}")),
                        Ok(()) => {
                            if out.iter().any(|g| g.data().raw().iter().any(|x| *x != 0)) {
                                failures.push(format!("outputs=0 threads={threads}: out not zeroed"));
                            }
                        }
                    }
                }
                assert!(failures.is_empty(), "{} failures:\n{}", failures.len(), failures.join("\n"));
            }

            /// threads = 0 is not a meaningful count; record how it is rejected.
            #[test]
            fn zero_threads_is_rejected() {
                let ctx = &*CTX;
                let a = enc_prep(1, 80);
                let b = enc_prep(2, 82);
                let mut r = dirty_uint(3);
                let mut s = dirty_scratch(1 << 22, 1);
                let res = try_run(|| r.add_multi_thread(0, &ctx.module, &a, &b, &ctx.bdd_key, s.borrow()));
                eprintln!("add_multi_thread(threads=0) -> {res:?}");
                assert!(res.is_err(), "threads=0 silently accepted");
            }

            /// Several outer threads each run multi-threaded additions on the shared module / key / inputs.
            #[test]
            fn oversubscribed_repeated_add() {
                let ctx = &*CTX;
                let glwe_infos = ctx.glwe_infos();
                let ggsw_infos = ctx.ggsw_infos();
                let av: u32 = 0x0F0F_1234;
                let bv: u32 = 0xF1E2_D3C4;
                let a = enc_prep(av, 60);
                let b = enc_prep(bv, 70);
                let mut r0 = dirty_uint(1);
                let mut s0 = dirty_scratch(r0.add_tmp_bytes(&ctx.module, &glwe_infos, &ggsw_infos, &ctx.bdd_key), 1);
                r0.add(&ctx.module, &a, &b, &ctx.bdd_key, s0.borrow());
                let want = raw(&r0);
                assert_eq!(decrypt(&r0), av.wrapping_add(bv));
                let failures: std::sync::Mutex<Vec<String>> = std::sync::Mutex::new(Vec::new());
                std::thread::scope(|sc| {
                    for o in 0..6usize {
                        let (a, b, want, failures) = (&a, &b, &want, &failures);
                        sc.spawn(move || {
                            for rep in 0..6usize {
                                let threads = [3usize, 2 * cores() + 1, 32, 40, 7, 64][(o + rep) % 6];
                                let mut r = dirty_uint((o * 6 + rep) as u8);
                                let mut s = dirty_scratch(
                                    r.add_multi_thread_tmp_bytes(&ctx.module, threads, &glwe_infos, &ggsw_infos, &ctx.bdd_key),
                                    (o * 6 + rep) as u64,
                                );
                                r.add_multi_thread(threads, &ctx.module, a, b, &ctx.bdd_key, s.borrow());
                                if &raw(&r) != want {
                                    failures.lock().unwrap().push(format!("outer={o} rep={rep} threads={threads}"));
                                }
                            }
                        });
                    }
                });
                let f = failures.into_inner().unwrap();
                assert!(f.is_empty(), "{f:?}");
            }
        }
    };
}

suite!(fft64_ref, poulpy_cpu_ref::FFT64Ref);
suite!(ntt120_ref, poulpy_cpu_ref::NTT120Ref);

#[cfg(all(feature = "enable-avx", target_arch = "x86_64", target_feature = "avx2", target_feature = "fma"))]
suite!(fft64_avx, poulpy_cpu_avx::FFT64Avx);
#[cfg(all(feature = "enable-avx", target_arch = "x86_64", target_feature = "avx2", target_feature = "fma"))]
suite!(ntt120_avx, poulpy_cpu_avx::NTT120Avx);
