//! Shared helpers for the C20 (thread-count / scheduling invariance) integration tests.
#![allow(dead_code)]

use std::panic::{AssertUnwindSafe, catch_unwind};

/// Number of hardware threads.
pub fn cores() -> usize {
    std::thread::available_parallelism().map(|n| n.get()).unwrap_or(4)
}

/// 1..=2*cores plus counts around / above the number of work items.
pub fn thread_counts(items: usize) -> Vec<usize> {
    let mut v: Vec<usize> = (1..=2 * cores()).collect();
    v.extend([
        items.saturating_sub(1),
        items,
        items + 1,
        items + 5,
        2 * items,
        2 * items + 1,
        3 * items + 1,
    ]);
    v.retain(|&t| t > 0);
    v.sort();
    v.dedup();
    v
}

/// Deterministic byte filler (xorshift64*), never produces all-zero output.
pub fn fill_garbage(buf: &mut [u8], seed: u64) {
    let mut s: u64 = seed.wrapping_mul(0x9E37_79B9_7F4A_7C15) | 1;
    for chunk in buf.chunks_mut(8) {
        s ^= s >> 12;
        s ^= s << 25;
        s ^= s >> 27;
        let r = s.wrapping_mul(0x2545_F491_4F6C_DD1D).to_le_bytes();
        for (d, b) in chunk.iter_mut().zip(r.iter()) {
            *d = *b;
        }
    }
}

/// Runs `f`, returning Err(panic message) if it panics.
pub fn try_run<R>(f: impl FnOnce() -> R) -> Result<R, String> {
    match catch_unwind(AssertUnwindSafe(f)) {
        Ok(r) => Ok(r),
        Err(e) => {
            let msg = if let Some(s) = e.downcast_ref::<&str>() {
                s.to_string()
            } else if let Some(s) = e.downcast_ref::<String>() {
                s.clone()
            } else {
                "<non-string panic>".to_string()
            };
            Err(msg)
        }
    }
}

pub fn first_diff(a: &[u8], b: &[u8]) -> Option<usize> {
    if a.len() != b.len() {
        return Some(a.len().min(b.len()));
    }
    a.iter().zip(b.iter()).position(|(x, y)| x != y)
}
