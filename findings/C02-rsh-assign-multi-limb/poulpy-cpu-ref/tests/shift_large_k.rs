//! Shifts by k in 0..(size+2)*base2k must not panic and must agree between in-place and out-of-place forms.
use poulpy_cpu_ref::FFT64Ref as BE;
use poulpy_hal::{
    api::{ModuleNew, ScratchOwnedAlloc, ScratchOwnedBorrow, VecZnxLsh, VecZnxLshAssign, VecZnxLshTmpBytes, VecZnxRsh, VecZnxRshAssign, VecZnxRshTmpBytes},
    layouts::{Module, ScratchOwned, VecZnx, ZnxInfos, ZnxView, ZnxViewMut},
};

fn input(n: usize, size: usize) -> VecZnx<Vec<u8>> {
    let mut a: VecZnx<Vec<u8>> = VecZnx::alloc(n, 1, size);
    for j in 0..size {
        for (i, x) in a.at_mut(0, j).iter_mut().enumerate() {
            *x = ((i as i64 * 37 + j as i64 * 11) % 2000) - 1000;
        }
    }
    a
}

#[test]
fn rsh_assign_matches_rsh_for_all_k() {
    let (n, size, base2k) = (16usize, 3usize, 12usize);
    let module: Module<BE> = Module::<BE>::new(n as u64);
    let mut scratch: ScratchOwned<BE> = ScratchOwned::alloc(module.vec_znx_rsh_tmp_bytes());
    for k in 0..(size + 2) * base2k {
        let a = input(n, size);
        let mut want: VecZnx<Vec<u8>> = VecZnx::alloc(n, 1, size);
        module.vec_znx_rsh(base2k, k, &mut want, 0, &a, 0, scratch.borrow());
        let mut got = input(n, size);
        let r = std::panic::catch_unwind(std::panic::AssertUnwindSafe(|| {
            module.vec_znx_rsh_assign(base2k, k, &mut got, 0, scratch.borrow());
        }));
        assert!(r.is_ok(), "vec_znx_rsh_assign panicked for k = {k}");
        assert_eq!(got.raw(), want.raw(), "k = {k}");
    }
}

#[test]
fn lsh_assign_matches_lsh_for_all_k() {
    let (n, size, base2k) = (16usize, 3usize, 12usize);
    let module: Module<BE> = Module::<BE>::new(n as u64);
    let mut scratch: ScratchOwned<BE> = ScratchOwned::alloc(module.vec_znx_lsh_tmp_bytes());
    for k in 0..(size + 2) * base2k {
        let a = input(n, size);
        let mut want: VecZnx<Vec<u8>> = VecZnx::alloc(n, 1, size);
        module.vec_znx_lsh(base2k, k, &mut want, 0, &a, 0, scratch.borrow());
        let mut got = input(n, size);
        let r = std::panic::catch_unwind(std::panic::AssertUnwindSafe(|| {
            module.vec_znx_lsh_assign(base2k, k, &mut got, 0, scratch.borrow());
        }));
        assert!(r.is_ok(), "vec_znx_lsh_assign panicked for k = {k}");
        assert_eq!(got.raw(), want.raw(), "k = {k}");
    }
}

fn value(v: &VecZnx<Vec<u8>>, coeff: usize, base2k: usize) -> i128 {
    let size = v.size();
    let mut acc: i128 = 0;
    for j in 0..size {
        acc += (v.at(0, j)[coeff] as i128) << ((size - 1 - j) * base2k);
    }
    acc
}

#[test]
fn rsh_forms_against_integer_oracle() {
    let (n, size, base2k) = (16usize, 3usize, 12usize);
    let module: Module<BE> = Module::<BE>::new(n as u64);
    let mut scratch: ScratchOwned<BE> = ScratchOwned::alloc(module.vec_znx_rsh_tmp_bytes());
    let mut bad_out = vec![];
    let mut bad_in = vec![];
    for k in 0..size * base2k {
        let a = input(n, size);
        let mut out: VecZnx<Vec<u8>> = VecZnx::alloc(n, 1, size);
        module.vec_znx_rsh(base2k, k, &mut out, 0, &a, 0, scratch.borrow());
        let mut inp = input(n, size);
        module.vec_znx_rsh_assign(base2k, k, &mut inp, 0, scratch.borrow());
        for c in 0..n {
            let x = value(&a, c, base2k);
            let yo = value(&out, c, base2k);
            let yi = value(&inp, c, base2k);
            if ((yo << k) - x).abs() >= (1i128 << k) && !bad_out.contains(&k) {
                bad_out.push(k);
            }
            if ((yi << k) - x).abs() >= (1i128 << k) && !bad_in.contains(&k) {
                bad_in.push(k);
            }
        }
    }
    assert!(bad_out.is_empty(), "out-of-place rsh is off by more than one unit for k in {bad_out:?}");
    assert!(bad_in.is_empty(), "in-place rsh is off by more than one unit for k in {bad_in:?}");
}
