//! C12 (poulpy-ckks): every CKKS operation that takes scratch space is run on a scratch window of
//! EXACTLY the number of bytes returned by its companion `*_tmp_bytes` query, pre-filled with
//! 0x00 / 0xFF / pseudo-random bytes (+ once with an oversized zero scratch); the four results must
//! be bit identical and nothing may panic.
//!
//! Ciphertexts / keys hold uniformly random limbs (scratch behaviour does not depend on the data
//! being valid encryptions); the CKKS metadata is chosen inside the domain the operations accept.
//! Configurations the library rejects with an `Err` (probed first with a big scratch) are skipped.

#![allow(clippy::too_many_arguments, clippy::type_complexity)]

#[path = "../../poulpy-cpu-ref/tests/c12_common/mod.rs"]
mod c12_common;
use c12_common::*;

use std::collections::HashMap;

use poulpy_ckks::{
    CKKSInfos, CKKSMeta,
    layouts::{
        CKKSCiphertext, CKKSConstPlaintextConversion, CKKSPlaintextCstRnx, CKKSPlaintextCstZnx, CKKSPlaintextVecRnx,
        CKKSPlaintextVecZnx,
    },
    leveled::api::*,
};
use poulpy_core::{
    EncryptionLayout, GLWEMulPlain,
    layouts::{
        GGLWEInfos, GLWE, GLWEAutomorphismKey, GLWEAutomorphismKeyPrepared, GLWEAutomorphismKeyPreparedFactory, GLWELayout,
        GLWEPlaintext, GLWESecret, GLWESecretPrepared, GLWESecretPreparedFactory, GLWETensorKey, GLWETensorKeyPrepared,
        GLWETensorKeyPreparedFactory, LWEInfos, Rank, SetGaloisElement,
    },
};
use poulpy_cpu_ref::{FFT64Ref, NTT120Ref};
use poulpy_hal::{
    api::*,
    layouts::{DeviceBuf, FillUniform, GaloisElement, Module, Scratch, ScratchOwned, WriterTo, ZnxView},
    source::Source,
};

fn ser<T: WriterTo>(x: &T) -> Vec<u8> {
    let mut v = Vec::new();
    x.write_to(&mut v).unwrap();
    v
}

thread_local! {
    static SKIPS: std::cell::RefCell<Vec<String>> = const { std::cell::RefCell::new(Vec::new()) };
    static RUNS: std::cell::Cell<usize> = const { std::cell::Cell::new(0) };
}

fn report_skips(test: &str) {
    let skips = SKIPS.with(|s| s.borrow().clone());
    let runs = RUNS.with(|r| r.get());
    eprintln!("[{test}] configurations run: {runs}, rejected by the library with Err (skipped): {}", skips.len());
    if std::env::var("C12_SHOW_SKIPS").is_ok() {
        for s in skips.iter() {
            eprintln!("  SKIP {s}");
        }
    }
    SKIPS.with(|s| s.borrow_mut().clear());
    RUNS.with(|r| r.set(0));
}

fn meta(log_delta: usize, log_budget: usize) -> CKKSMeta {
    CKKSMeta { log_delta, log_budget }
}

macro_rules! ckks_tests {
    ($modname:ident, $BE:ty, $B:expr, $LD:expr, $NS:expr) => {
        mod $modname {
            use super::*;
            type BE = $BE;
            /// limb width
            const B: usize = $B;
            /// log_delta of the ciphertexts
            const LD: usize = $LD;
            const BIG: usize = 1 << 22;
            const NS: &[usize] = &$NS;

            fn module(n: usize) -> Module<BE> {
                Module::<BE>::new(n as u64)
            }

            /// Probes `f` with a big scratch (Err => configuration outside the admissible domain,
            /// skipped), then runs it on exact-size scratch windows.
            fn check<O: PartialEq>(what: &str, tmp: usize, mut f: impl FnMut(&mut Scratch<BE>) -> anyhow::Result<O>) {
                let mut big: ScratchOwned<BE> = ScratchOwned::alloc(BIG);
                let probe = std::panic::catch_unwind(std::panic::AssertUnwindSafe(|| f(big.borrow()).map(|_| ())));
                match probe {
                    Ok(Ok(())) => {}
                    Ok(Err(e)) => {
                        SKIPS.with(|s| s.borrow_mut().push(format!("{what}: {e}")));
                        return;
                    }
                    Err(p) => {
                        fail(format!("{what}: PANIC even with a {BIG} bytes scratch: {}", panic_msg(p)));
                        return;
                    }
                }
                RUNS.with(|r| r.set(r.get() + 1));
                run_all_fills::<BE, _>(&format!("{what} [{} tmp_bytes={tmp}]", stringify!($modname)), tmp, |s| f(s).unwrap());
            }

            /// Ciphertext with `size` limbs, random limbs, effective_k = size*B - slack.
            fn rand_ct(n: usize, size: usize, slack: usize, ld: usize, seed: u8) -> CKKSCiphertext<Vec<u8>> {
                let mut ct = CKKSCiphertext::alloc(n.into(), (size * B).into(), B.into());
                {
                    let g: &mut GLWE<Vec<u8>> = &mut ct;
                    g.fill_uniform(B, &mut Source::new([seed; 32]));
                }
                let eff_k = size * B - slack;
                assert!(eff_k >= ld);
                ct.set_meta_checked(meta(ld, eff_k - ld)).unwrap();
                ct
            }

            fn copy_ct(ct: &CKKSCiphertext<Vec<u8>>) -> CKKSCiphertext<Vec<u8>> {
                let mut c = CKKSCiphertext::alloc(ct.n(), ct.max_k(), ct.base2k());
                {
                    let g: &mut GLWE<Vec<u8>> = &mut c;
                    let src: &GLWE<Vec<u8>> = ct;
                    *g = src.clone();
                }
                c.set_meta_checked(ct.meta()).unwrap();
                c
            }

            fn out(ct: &CKKSCiphertext<Vec<u8>>) -> Vec<u8> {
                let g: &GLWE<Vec<u8>> = ct;
                let mut v = ser(g);
                v.extend((ct.log_delta() as u64).to_le_bytes());
                v.extend((ct.log_budget() as u64).to_le_bytes());
                v
            }

            fn rand_pt_znx(n: usize, m: CKKSMeta, seed: u8) -> CKKSPlaintextVecZnx<Vec<u8>> {
                let mut pt = CKKSPlaintextVecZnx::alloc(n.into(), B.into(), m);
                pt.data_mut().fill_uniform(B, &mut Source::new([seed; 32]));
                pt
            }

            /// Plaintext whose storage holds `extra` more limbs than its metadata needs
            /// (built the way `set_meta_checked` documents: "callers that build plaintext buffers manually").
            fn rand_pt_znx_padded(n: usize, m: CKKSMeta, extra: usize, seed: u8) -> CKKSPlaintextVecZnx<Vec<u8>> {
                if extra == 2 {
                    // storage taken from a (non compact) ciphertext layout, metadata from its CKKS meta
                    let mut like = CKKSCiphertext::alloc(n.into(), (m.min_k(B.into()).as_usize() + extra * B).into(), B.into());
                    like.set_meta_checked(m).unwrap();
                    let mut pt = CKKSPlaintextVecZnx::alloc_from_infos(&like);
                    pt.data_mut().fill_uniform(B, &mut Source::new([seed; 32]));
                    return pt;
                }
                let mut pt = CKKSPlaintextVecZnx::alloc(n.into(), B.into(), meta(m.log_delta, m.log_budget + extra * B));
                pt.data_mut().fill_uniform(B, &mut Source::new([seed; 32]));
                pt.set_meta_checked(m).unwrap();
                pt
            }

            /// Rank-`rank` ciphertext, `size` limbs, effective_k = size*B - slack.
            fn rand_ct_rank(n: usize, rank: usize, size: usize, slack: usize, ld: usize, seed: u8) -> CKKSCiphertext<Vec<u8>> {
                let mut ct = CKKSCiphertext::alloc_from_infos(&GLWELayout {
                    n: n.into(),
                    base2k: B.into(),
                    k: (size * B).into(),
                    rank: Rank(rank as u32),
                })
                .unwrap();
                {
                    let g: &mut GLWE<Vec<u8>> = &mut ct;
                    g.fill_uniform(B, &mut Source::new([seed; 32]));
                }
                ct.set_meta_checked(meta(ld, size * B - slack - ld)).unwrap();
                ct
            }

            fn rand_pt_rnx(n: usize, seed: u64) -> CKKSPlaintextVecRnx<f64> {
                let mut pt = CKKSPlaintextVecRnx::<f64>::alloc(n).unwrap();
                let mut x: u64 = 0x1234_5678_9ABC_DEF1 ^ seed;
                for c in pt.data_mut().iter_mut() {
                    x ^= x << 13;
                    x ^= x >> 7;
                    x ^= x << 17;
                    *c = ((x >> 11) as f64 / (1u64 << 53) as f64) * 2.0 - 1.0;
                }
                pt
            }

            fn consts() -> Vec<(&'static str, CKKSPlaintextCstRnx<f64>)> {
                vec![
                    ("re", CKKSPlaintextCstRnx::new(Some(0.372), None)),
                    ("im", CKKSPlaintextCstRnx::new(None, Some(-0.613))),
                    ("re+im", CKKSPlaintextCstRnx::new(Some(-0.81), Some(0.27))),
                    ("none", CKKSPlaintextCstRnx::new(None, None)),
                ]
            }

            fn rand_tsk(m: &Module<BE>, size: usize, dnum: usize, dsize: usize) -> GLWETensorKeyPrepared<DeviceBuf<BE>, BE> {
                let mut tsk = GLWETensorKey::alloc(m.n().into(), B.into(), (size * B).into(), Rank(1), dnum.into(), dsize.into());
                tsk.fill_uniform(B, &mut Source::new([61u8; 32]));
                let mut p = m.alloc_tensor_key_prepared_from_infos(&tsk);
                let mut s: ScratchOwned<BE> = ScratchOwned::alloc(BIG);
                m.prepare_tensor_key(&mut p, &tsk, s.borrow());
                p
            }

            fn rand_atks(
                m: &Module<BE>,
                size: usize,
                dnum: usize,
                dsize: usize,
                rots: &[i64],
            ) -> HashMap<i64, GLWEAutomorphismKeyPrepared<DeviceBuf<BE>, BE>> {
                rand_atks_b(m, B, size, dnum, dsize, rots)
            }

            fn rand_atks_b(
                m: &Module<BE>,
                key_b: usize,
                size: usize,
                dnum: usize,
                dsize: usize,
                rots: &[i64],
            ) -> HashMap<i64, GLWEAutomorphismKeyPrepared<DeviceBuf<BE>, BE>> {
                let mut map = HashMap::new();
                for (i, &r) in rots.iter().enumerate() {
                    let mut atk =
                        GLWEAutomorphismKey::alloc(m.n().into(), key_b.into(), (size * key_b).into(), Rank(1), dnum.into(), dsize.into());
                    atk.fill_uniform(key_b, &mut Source::new([i as u8 + 70; 32]));
                    atk.set_p(if r == -1 { -1 } else { m.galois_element(r) });
                    let mut prep = m.glwe_automorphism_key_prepared_alloc_from_infos(&atk);
                    let mut s: ScratchOwned<BE> = ScratchOwned::alloc(BIG);
                    m.glwe_automorphism_key_prepare(&mut prep, &atk, s.borrow());
                    map.insert(r, prep);
                }
                map
            }

            fn secret(m: &Module<BE>) -> GLWESecretPrepared<DeviceBuf<BE>, BE> {
                let mut sk = GLWESecret::alloc(m.n().into(), Rank(1));
                sk.fill_ternary_prob(0.5, &mut Source::new([1u8; 32]));
                let mut skp = m.glwe_secret_prepared_alloc(Rank(1));
                m.glwe_secret_prepare(&mut skp, &sk);
                skp
            }

            // ------------------------------------------------------------------------------------
            // ct (+) ct, neg, pow2, rescale, align, add_many
            // ------------------------------------------------------------------------------------
            #[test]
            fn linear_ct_ops() {
                collect(|| {
                    for &n in NS {
                        let m = module(n);
                        for ds in [2usize, 3, 5] {
                            for (asz, sa) in [(3usize, 0usize), (4, 5), (5, 1), (5, B + 3)] {
                                for (bsz, sb) in [(3usize, 0usize), (3, 7), (5, 0), (4, 2 * B)] {
                                    let w = format!("n={n} B={B} dst.size={ds} a(size={asz} slack={sa}) b(size={bsz} slack={sb}) ld={LD}");
                                    let a = rand_ct(n, asz, sa, LD, 2);
                                    let b = rand_ct(n, bsz, sb, LD + 3, 3);

                                    check(&format!("ckks_add_into {w}"), m.ckks_add_tmp_bytes(), |s| {
                                        let mut dst = rand_ct(n, ds, 0, LD, 4);
                                        m.ckks_add_into(&mut dst, &a, &b, s)?;
                                        Ok(out(&dst))
                                    });
                                    check(&format!("ckks_sub_into {w}"), m.ckks_sub_tmp_bytes(), |s| {
                                        let mut dst = rand_ct(n, ds, 0, LD, 4);
                                        m.ckks_sub_into(&mut dst, &a, &b, s)?;
                                        Ok(out(&dst))
                                    });
                                    check(&format!("ckks_add_assign {w}"), m.ckks_add_tmp_bytes(), |s| {
                                        let mut dst = copy_ct(&a);
                                        m.ckks_add_assign(&mut dst, &b, s)?;
                                        Ok(out(&dst))
                                    });
                                    check(&format!("ckks_sub_assign {w}"), m.ckks_sub_tmp_bytes(), |s| {
                                        let mut dst = copy_ct(&a);
                                        m.ckks_sub_assign(&mut dst, &b, s)?;
                                        Ok(out(&dst))
                                    });
                                    check(&format!("ckks_add_into_unsafe {w}"), m.ckks_add_tmp_bytes(), |s| {
                                        let mut dst = rand_ct(n, ds, 0, LD, 4);
                                        unsafe { m.ckks_add_into_unsafe(&mut dst, &a, &b, s)? };
                                        Ok(out(&dst))
                                    });
                                    check(&format!("ckks_sub_into_unsafe {w}"), m.ckks_sub_tmp_bytes(), |s| {
                                        let mut dst = rand_ct(n, ds, 0, LD, 4);
                                        unsafe { m.ckks_sub_into_unsafe(&mut dst, &a, &b, s)? };
                                        Ok(out(&dst))
                                    });
                                    check(&format!("ckks_add_assign_unsafe {w}"), m.ckks_add_tmp_bytes(), |s| {
                                        let mut dst = copy_ct(&a);
                                        unsafe { m.ckks_add_assign_unsafe(&mut dst, &b, s)? };
                                        Ok(out(&dst))
                                    });
                                    check(&format!("ckks_sub_assign_unsafe {w}"), m.ckks_sub_tmp_bytes(), |s| {
                                        let mut dst = copy_ct(&a);
                                        unsafe { m.ckks_sub_assign_unsafe(&mut dst, &b, s)? };
                                        Ok(out(&dst))
                                    });
                                    check(&format!("ckks_align_assign {w}"), m.ckks_align_tmp_bytes(), |s| {
                                        let (mut x, mut y) = (copy_ct(&a), copy_ct(&b));
                                        m.ckks_align_assign(&mut x, &mut y, s)?;
                                        let mut v = out(&x);
                                        v.extend(out(&y));
                                        Ok(v)
                                    });
                                    for count in [1usize, 2, 3, 4] {
                                        let c = rand_ct(n, asz, 0, LD, 5);
                                        let d = rand_ct(n, bsz, sb, LD, 6);
                                        let all = [&a, &b, &c, &d];
                                        check(&format!("ckks_add_many count={count} {w}"), m.ckks_add_many_tmp_bytes(), |s| {
                                            let mut dst = rand_ct(n, ds, 0, LD, 4);
                                            m.ckks_add_many(&mut dst, &all[..count], s)?;
                                            Ok(out(&dst))
                                        });
                                    }
                                }

                                let w = format!("n={n} B={B} dst.size={ds} a(size={asz} slack={sa}) ld={LD}");
                                let a = rand_ct(n, asz, sa, LD, 2);
                                check(&format!("ckks_neg_into {w}"), m.ckks_neg_tmp_bytes(), |s| {
                                    let mut dst = rand_ct(n, ds, 0, LD, 4);
                                    m.ckks_neg_into(&mut dst, &a, s)?;
                                    Ok(out(&dst))
                                });
                                for bits in [0usize, 3, B, B + 3] {
                                    check(&format!("ckks_mul_pow2_into bits={bits} {w}"), m.ckks_mul_pow2_tmp_bytes(), |s| {
                                        let mut dst = rand_ct(n, ds, 0, LD, 4);
                                        m.ckks_mul_pow2_into(&mut dst, &a, bits, s)?;
                                        Ok(out(&dst))
                                    });
                                    check(&format!("ckks_mul_pow2_assign bits={bits} {w}"), m.ckks_mul_pow2_tmp_bytes(), |s| {
                                        let mut dst = copy_ct(&a);
                                        m.ckks_mul_pow2_assign(&mut dst, bits, s)?;
                                        Ok(out(&dst))
                                    });
                                    check(&format!("ckks_div_pow2_into bits={bits} {w}"), m.ckks_div_pow2_tmp_bytes(), |s| {
                                        let mut dst = rand_ct(n, ds, 0, LD, 4);
                                        m.ckks_div_pow2_into(&mut dst, &a, bits, s)?;
                                        Ok(out(&dst))
                                    });
                                    check(&format!("ckks_rescale_into k={bits} {w}"), m.ckks_rescale_tmp_bytes(), |s| {
                                        let mut dst = rand_ct(n, ds, 0, LD, 4);
                                        m.ckks_rescale_into(&mut dst, bits, &a, s)?;
                                        Ok(out(&dst))
                                    });
                                    check(&format!("ckks_rescale_assign k={bits} {w}"), m.ckks_rescale_tmp_bytes(), |s| {
                                        let mut dst = copy_ct(&a);
                                        m.ckks_rescale_assign(&mut dst, bits, s)?;
                                        Ok(out(&dst))
                                    });
                                }
                            }
                        }
                    }
                    report_skips("linear_ct_ops");
                });
            }

            // ------------------------------------------------------------------------------------
            // ct (+/-) plaintext (vec znx, vec rnx, const znx, const rnx), extract_pt_znx
            // ------------------------------------------------------------------------------------
            #[test]
            fn linear_pt_ops() {
                collect(|| {
                    for &n in NS {
                        let m = module(n);
                        for ds in [2usize, 3, 5] {
                            for (asz, sa) in [(3usize, 0usize), (4, 5), (5, 1)] {
                                let a = rand_ct(n, asz, sa, LD, 2);
                                // plaintext metas: (log_delta, log_budget)
                                for (pld, plb) in [(LD, 0usize), (LD - 5, 3), (LD, B), (7, 1), (LD, 2 * B + 1)] {
                                    let prec = meta(pld, plb);
                                    let w = format!("n={n} B={B} dst.size={ds} a(size={asz} slack={sa}) ld={LD} pt(ld={pld} lb={plb})");
                                    let pt = rand_pt_znx(n, prec, 9);
                                    let rnx = rand_pt_rnx(n, 3);

                                    check(&format!("ckks_add_pt_vec_znx_into {w}"), m.ckks_add_pt_vec_znx_tmp_bytes(), |s| {
                                        let mut dst = rand_ct(n, ds, 0, LD, 4);
                                        m.ckks_add_pt_vec_znx_into(&mut dst, &a, &pt, s)?;
                                        Ok(out(&dst))
                                    });
                                    check(&format!("ckks_add_pt_vec_znx_assign {w}"), m.ckks_add_pt_vec_znx_tmp_bytes(), |s| {
                                        let mut dst = copy_ct(&a);
                                        m.ckks_add_pt_vec_znx_assign(&mut dst, &pt, s)?;
                                        Ok(out(&dst))
                                    });
                                    check(&format!("ckks_sub_pt_vec_znx_into {w}"), m.ckks_sub_pt_vec_znx_tmp_bytes(), |s| {
                                        let mut dst = rand_ct(n, ds, 0, LD, 4);
                                        m.ckks_sub_pt_vec_znx_into(&mut dst, &a, &pt, s)?;
                                        Ok(out(&dst))
                                    });
                                    check(&format!("ckks_sub_pt_vec_znx_assign {w}"), m.ckks_sub_pt_vec_znx_tmp_bytes(), |s| {
                                        let mut dst = copy_ct(&a);
                                        m.ckks_sub_pt_vec_znx_assign(&mut dst, &pt, s)?;
                                        Ok(out(&dst))
                                    });

                                    let dst0 = rand_ct(n, ds, 0, LD, 4);
                                    check(
                                        &format!("ckks_add_pt_vec_rnx_into {w}"),
                                        m.ckks_add_pt_vec_rnx_tmp_bytes(&dst0, &a, &prec),
                                        |s| {
                                            let mut dst = rand_ct(n, ds, 0, LD, 4);
                                            m.ckks_add_pt_vec_rnx_into(&mut dst, &a, &rnx, prec, s)?;
                                            Ok(out(&dst))
                                        },
                                    );
                                    check(
                                        &format!("ckks_add_pt_vec_rnx_assign {w}"),
                                        m.ckks_add_pt_vec_rnx_tmp_bytes(&a, &a, &prec),
                                        |s| {
                                            let mut dst = copy_ct(&a);
                                            m.ckks_add_pt_vec_rnx_assign(&mut dst, &rnx, prec, s)?;
                                            Ok(out(&dst))
                                        },
                                    );
                                    check(
                                        &format!("ckks_sub_pt_vec_rnx_into {w}"),
                                        m.ckks_sub_pt_vec_rnx_tmp_bytes(&dst0, &a, &prec),
                                        |s| {
                                            let mut dst = rand_ct(n, ds, 0, LD, 4);
                                            m.ckks_sub_pt_vec_rnx_into(&mut dst, &a, &rnx, prec, s)?;
                                            Ok(out(&dst))
                                        },
                                    );
                                    check(
                                        &format!("ckks_sub_pt_vec_rnx_assign {w}"),
                                        m.ckks_sub_pt_vec_rnx_tmp_bytes(&a, &a, &prec),
                                        |s| {
                                            let mut dst = copy_ct(&a);
                                            m.ckks_sub_pt_vec_rnx_assign(&mut dst, &rnx, prec, s)?;
                                            Ok(out(&dst))
                                        },
                                    );

                                    for (cname, cst) in consts() {
                                        let w = format!("{w} cst={cname}");
                                        check(&format!("ckks_add_pt_const_rnx_into {w}"), m.ckks_add_pt_const_tmp_bytes(), |s| {
                                            let mut dst = rand_ct(n, ds, 0, LD, 4);
                                            m.ckks_add_pt_const_rnx_into(&mut dst, &a, &cst, prec, s)?;
                                            Ok(out(&dst))
                                        });
                                        check(&format!("ckks_add_pt_const_rnx_assign {w}"), m.ckks_add_pt_const_tmp_bytes(), |s| {
                                            let mut dst = copy_ct(&a);
                                            m.ckks_add_pt_const_rnx_assign(&mut dst, &cst, prec, s)?;
                                            Ok(out(&dst))
                                        });
                                        check(&format!("ckks_sub_pt_const_rnx_into {w}"), m.ckks_sub_pt_const_tmp_bytes(), |s| {
                                            let mut dst = rand_ct(n, ds, 0, LD, 4);
                                            m.ckks_sub_pt_const_rnx_into(&mut dst, &a, &cst, prec, s)?;
                                            Ok(out(&dst))
                                        });
                                        check(&format!("ckks_sub_pt_const_rnx_assign {w}"), m.ckks_sub_pt_const_tmp_bytes(), |s| {
                                            let mut dst = copy_ct(&a);
                                            m.ckks_sub_pt_const_rnx_assign(&mut dst, &cst, prec, s)?;
                                            Ok(out(&dst))
                                        });
                                        // znx constants aligned on the destination (what the rnx path builds internally)
                                        let a_lb = a.log_budget();
                                        let into_lb = a_lb.saturating_sub(a.effective_k().saturating_sub(ds * B));
                                        if pld <= 53 {
                                            let cz_into: CKKSPlaintextCstZnx = cst.to_znx_at_k(B.into(), into_lb + pld, pld).unwrap();
                                            let cz_assign: CKKSPlaintextCstZnx = cst.to_znx_at_k(B.into(), a_lb + pld, pld).unwrap();
                                            check(&format!("ckks_add_pt_const_znx_into {w}"), m.ckks_add_pt_const_tmp_bytes(), |s| {
                                                let mut dst = rand_ct(n, ds, 0, LD, 4);
                                                m.ckks_add_pt_const_znx_into(&mut dst, &a, &cz_into, s)?;
                                                Ok(out(&dst))
                                            });
                                            check(&format!("ckks_add_pt_const_znx_assign {w}"), m.ckks_add_pt_const_tmp_bytes(), |s| {
                                                let mut dst = copy_ct(&a);
                                                m.ckks_add_pt_const_znx_assign(&mut dst, &cz_assign, s)?;
                                                Ok(out(&dst))
                                            });
                                            check(&format!("ckks_sub_pt_const_znx_into {w}"), m.ckks_sub_pt_const_tmp_bytes(), |s| {
                                                let mut dst = rand_ct(n, ds, 0, LD, 4);
                                                m.ckks_sub_pt_const_znx_into(&mut dst, &a, &cz_into, s)?;
                                                Ok(out(&dst))
                                            });
                                            check(&format!("ckks_sub_pt_const_znx_assign {w}"), m.ckks_sub_pt_const_tmp_bytes(), |s| {
                                                let mut dst = copy_ct(&a);
                                                m.ckks_sub_pt_const_znx_assign(&mut dst, &cz_assign, s)?;
                                                Ok(out(&dst))
                                            });
                                        }
                                    }
                                }
                            }
                        }

                        // extract_pt_znx: src GLWE plaintext of `ss` limbs, destination plaintext of meta (dld, dlb)
                        for ss in [1usize, 2, 4] {
                            for (sld, slb) in [(LD, 3usize), (LD, B), (LD + 4, 2 * B)] {
                                for (dld, dlb) in [(LD, 0usize), (LD, 3), (LD - 3, 2), (LD + 4, B), (LD, 2 * B)] {
                                    let w = format!("n={n} B={B} src(size={ss} ld={sld} lb={slb}) dst(ld={dld} lb={dlb})");
                                    let mut src = GLWEPlaintext::alloc(n.into(), B.into(), (ss * B).into());
                                    src.data_mut().fill_uniform(B, &mut Source::new([8u8; 32]));
                                    let src_meta = meta(sld, slb);
                                    check(&format!("ckks_extract_pt_znx {w}"), m.ckks_extract_pt_znx_tmp_bytes(), |s| {
                                        let mut dst = rand_pt_znx(n, meta(dld, dlb), 10);
                                        m.ckks_extract_pt_znx(&mut dst, &src, &src_meta, s)?;
                                        Ok(dst.data().raw().to_vec())
                                    });
                                }
                            }
                        }
                    }
                    report_skips("linear_pt_ops");
                });
            }

            // ------------------------------------------------------------------------------------
            // ct * plaintext (vec znx / vec rnx / const znx / const rnx)
            // ------------------------------------------------------------------------------------
            #[test]
            fn mul_pt_ops() {
                collect(|| {
                    for &n in NS {
                        let m = module(n);
                        for ds in [2usize, 3, 4, 6] {
                            for (asz, sa) in [(3usize, 0usize), (4, 5), (5, 1)] {
                                let a = rand_ct(n, asz, sa, LD, 2);
                                for (pld, plb) in [(LD, 0usize), (LD - 5, 3), (7, 1), (LD, B), (LD, 2 * B + 1)] {
                                    let prec = meta(pld, plb);
                                    let w = format!("n={n} B={B} dst.size={ds} a(size={asz} slack={sa}) ld={LD} pt(ld={pld} lb={plb})");
                                    let pt = rand_pt_znx(n, prec, 9);
                                    let rnx = rand_pt_rnx(n, 3);
                                    let dst0 = rand_ct(n, ds, 0, LD, 4);

                                    check(
                                        &format!("ckks_mul_pt_vec_znx_into {w}"),
                                        m.ckks_mul_pt_vec_znx_tmp_bytes(&dst0, &a, &prec),
                                        |s| {
                                            let mut dst = rand_ct(n, ds, 0, LD, 4);
                                            m.ckks_mul_pt_vec_znx_into(&mut dst, &a, &pt, s)?;
                                            Ok(out(&dst))
                                        },
                                    );
                                    check(
                                        &format!("ckks_mul_pt_vec_znx_assign {w}"),
                                        m.ckks_mul_pt_vec_znx_tmp_bytes(&a, &a, &prec),
                                        |s| {
                                            let mut dst = copy_ct(&a);
                                            m.ckks_mul_pt_vec_znx_assign(&mut dst, &pt, s)?;
                                            Ok(out(&dst))
                                        },
                                    );
                                    check(
                                        &format!("ckks_mul_pt_vec_rnx_into {w}"),
                                        m.ckks_mul_pt_vec_rnx_tmp_bytes(&dst0, &a, &prec),
                                        |s| {
                                            let mut dst = rand_ct(n, ds, 0, LD, 4);
                                            m.ckks_mul_pt_vec_rnx_into(&mut dst, &a, &rnx, prec, s)?;
                                            Ok(out(&dst))
                                        },
                                    );
                                    check(
                                        &format!("ckks_mul_pt_vec_rnx_assign {w}"),
                                        m.ckks_mul_pt_vec_rnx_tmp_bytes(&a, &a, &prec),
                                        |s| {
                                            let mut dst = copy_ct(&a);
                                            m.ckks_mul_pt_vec_rnx_assign(&mut dst, &rnx, prec, s)?;
                                            Ok(out(&dst))
                                        },
                                    );
                                    for (cname, cst) in consts() {
                                        let w = format!("{w} cst={cname}");
                                        check(
                                            &format!("ckks_mul_pt_const_rnx_into {w}"),
                                            m.ckks_mul_pt_const_tmp_bytes(&dst0, &a, &prec),
                                            |s| {
                                                let mut dst = rand_ct(n, ds, 0, LD, 4);
                                                m.ckks_mul_pt_const_rnx_into(&mut dst, &a, &cst, prec, s)?;
                                                Ok(out(&dst))
                                            },
                                        );
                                        check(
                                            &format!("ckks_mul_pt_const_rnx_assign {w}"),
                                            m.ckks_mul_pt_const_tmp_bytes(&a, &a, &prec),
                                            |s| {
                                                let mut dst = copy_ct(&a);
                                                m.ckks_mul_pt_const_rnx_assign(&mut dst, &cst, prec, s)?;
                                                Ok(out(&dst))
                                            },
                                        );
                                        if pld <= 53 {
                                            let cz: CKKSPlaintextCstZnx = cst.to_znx(B.into(), prec).unwrap();
                                            check(
                                                &format!("ckks_mul_pt_const_znx_into {w}"),
                                                m.ckks_mul_pt_const_tmp_bytes(&dst0, &a, &prec),
                                                |s| {
                                                    let mut dst = rand_ct(n, ds, 0, LD, 4);
                                                    m.ckks_mul_pt_const_znx_into(&mut dst, &a, &cz, s)?;
                                                    Ok(out(&dst))
                                                },
                                            );
                                            check(
                                                &format!("ckks_mul_pt_const_znx_assign {w}"),
                                                m.ckks_mul_pt_const_tmp_bytes(&a, &a, &prec),
                                                |s| {
                                                    let mut dst = copy_ct(&a);
                                                    m.ckks_mul_pt_const_znx_assign(&mut dst, &cz, s)?;
                                                    Ok(out(&dst))
                                                },
                                            );
                                        }
                                    }
                                }
                            }
                        }
                    }
                    report_skips("mul_pt_ops");
                });
            }

            // ------------------------------------------------------------------------------------
            // plaintext-vector products, (a) rank-2 ciphertexts, (b) a ZNX plaintext whose storage is
            // larger than `meta.min_k(base2k)` (the only plaintext description the query accepts is a CKKSMeta)
            // ------------------------------------------------------------------------------------
            #[test]
            fn mul_pt_ops_rank2_and_padded_pt() {
                collect(|| {
                    for &n in NS {
                        let m = module(n);
                        for ds in [2usize, 3, 5] {
                            for (asz, sa) in [(3usize, 0usize), (4, 5)] {
                                for (pld, plb) in [(LD, 0usize), (LD - 5, 3), (7, 1)] {
                                    let prec = meta(pld, plb);
                                    let rnx = rand_pt_rnx(n, 3);
                                    let cst = CKKSPlaintextCstRnx::new(Some(-0.81), Some(0.27));
                                    {
                                        let a = rand_ct_rank(n, 2, asz, sa, LD, 2);
                                        let dst0 = rand_ct_rank(n, 2, ds, 0, LD, 4);
                                        let pt = rand_pt_znx(n, prec, 9);
                                        let w = format!("n={n} B={B} rank=2 dst.size={ds} a(size={asz} slack={sa}) ld={LD} pt(ld={pld} lb={plb})");
                                        check(&format!("ckks_mul_pt_vec_znx_into {w}"), m.ckks_mul_pt_vec_znx_tmp_bytes(&dst0, &a, &prec), |s| {
                                            let mut dst = rand_ct_rank(n, 2, ds, 0, LD, 4);
                                            m.ckks_mul_pt_vec_znx_into(&mut dst, &a, &pt, s)?;
                                            Ok(out(&dst))
                                        });
                                        check(&format!("ckks_mul_pt_vec_rnx_into {w}"), m.ckks_mul_pt_vec_rnx_tmp_bytes(&dst0, &a, &prec), |s| {
                                            let mut dst = rand_ct_rank(n, 2, ds, 0, LD, 4);
                                            m.ckks_mul_pt_vec_rnx_into(&mut dst, &a, &rnx, prec, s)?;
                                            Ok(out(&dst))
                                        });
                                        check(&format!("ckks_mul_pt_const_rnx_into {w}"), m.ckks_mul_pt_const_tmp_bytes(&dst0, &a, &prec), |s| {
                                            let mut dst = rand_ct_rank(n, 2, ds, 0, LD, 4);
                                            m.ckks_mul_pt_const_rnx_into(&mut dst, &a, &cst, prec, s)?;
                                            Ok(out(&dst))
                                        });
                                        check(&format!("ckks_mul_add_pt_vec_znx_into {w}"), m.ckks_mul_add_pt_vec_znx_tmp_bytes(&dst0, &a, &prec), |s| {
                                            let mut dst = rand_ct_rank(n, 2, ds, 0, LD, 4);
                                            m.ckks_mul_add_pt_vec_znx_into(&mut dst, &a, &pt, s)?;
                                            Ok(out(&dst))
                                        });
                                        check(&format!("ckks_mul_sub_pt_const_rnx_into {w}"), m.ckks_mul_sub_pt_const_tmp_bytes(&dst0, &a, &prec), |s| {
                                            let mut dst = rand_ct_rank(n, 2, ds, 0, LD, 4);
                                            m.ckks_mul_sub_pt_const_rnx_into(&mut dst, &a, &cst, prec, s)?;
                                            Ok(out(&dst))
                                        });
                                        check(&format!("ckks_add_pt_vec_rnx_into {w}"), m.ckks_add_pt_vec_rnx_tmp_bytes(&dst0, &a, &prec), |s| {
                                            let mut dst = rand_ct_rank(n, 2, ds, 0, LD, 4);
                                            m.ckks_add_pt_vec_rnx_into(&mut dst, &a, &rnx, prec, s)?;
                                            Ok(out(&dst))
                                        });
                                    }
                                    for extra in [1usize, 2] {
                                        let a = rand_ct(n, asz, sa, LD, 2);
                                        let a2 = rand_ct(n, asz, sa, LD, 12);
                                        let dst0 = rand_ct(n, ds, 0, LD, 4);
                                        let pt = rand_pt_znx_padded(n, prec, extra, 9);
                                        let pt2 = rand_pt_znx_padded(n, prec, extra, 19);
                                        let pm = pt.meta();
                                        let w = format!(
                                            "n={n} B={B} dst.size={ds} a(size={asz} slack={sa}) ld={LD} pt(ld={pld} lb={plb} size={} = min_size+{extra})",
                                            pt.size()
                                        );
                                        check(&format!("ckks_mul_pt_vec_znx_into {w}"), m.ckks_mul_pt_vec_znx_tmp_bytes(&dst0, &a, &pm), |s| {
                                            let mut dst = rand_ct(n, ds, 0, LD, 4);
                                            m.ckks_mul_pt_vec_znx_into(&mut dst, &a, &pt, s)?;
                                            Ok(out(&dst))
                                        });
                                        // control: sized from the plaintext's real layout (what a repaired query would return)
                                        check(
                                            &format!("ckks_mul_pt_vec_znx_into [control: glwe_mul_plain_tmp_bytes(dst, a, pt)] {w}"),
                                            m.glwe_mul_plain_tmp_bytes(&dst0, &a, &pt),
                                            |s| {
                                                let mut dst = rand_ct(n, ds, 0, LD, 4);
                                                m.ckks_mul_pt_vec_znx_into(&mut dst, &a, &pt, s)?;
                                                Ok(out(&dst))
                                            },
                                        );
                                        check(&format!("ckks_mul_pt_vec_znx_assign {w}"), m.ckks_mul_pt_vec_znx_tmp_bytes(&a, &a, &pm), |s| {
                                            let mut dst = copy_ct(&a);
                                            m.ckks_mul_pt_vec_znx_assign(&mut dst, &pt, s)?;
                                            Ok(out(&dst))
                                        });
                                        check(&format!("ckks_mul_add_pt_vec_znx_into {w}"), m.ckks_mul_add_pt_vec_znx_tmp_bytes(&dst0, &a, &pm), |s| {
                                            let mut dst = rand_ct(n, ds, 0, LD, 4);
                                            m.ckks_mul_add_pt_vec_znx_into(&mut dst, &a, &pt, s)?;
                                            Ok(out(&dst))
                                        });
                                        check(&format!("ckks_mul_sub_pt_vec_znx_into {w}"), m.ckks_mul_sub_pt_vec_znx_tmp_bytes(&dst0, &a, &pm), |s| {
                                            let mut dst = rand_ct(n, ds, 0, LD, 4);
                                            m.ckks_mul_sub_pt_vec_znx_into(&mut dst, &a, &pt, s)?;
                                            Ok(out(&dst))
                                        });
                                        check(
                                            &format!("ckks_dot_product_pt_vec_znx count=2 {w}"),
                                            m.ckks_dot_product_pt_vec_znx_tmp_bytes(&dst0, &a, &pm),
                                            |s| {
                                                let mut dst = rand_ct(n, ds, 0, LD, 4);
                                                m.ckks_dot_product_pt_vec_znx(&mut dst, &[&a, &a2], &[&pt, &pt2], s)?;
                                                Ok(out(&dst))
                                            },
                                        );
                                        check(&format!("ckks_add_pt_vec_znx_into {w}"), m.ckks_add_pt_vec_znx_tmp_bytes(), |s| {
                                            let mut dst = rand_ct(n, ds, 0, LD, 4);
                                            m.ckks_add_pt_vec_znx_into(&mut dst, &a, &pt, s)?;
                                            Ok(out(&dst))
                                        });
                                        check(&format!("ckks_sub_pt_vec_znx_assign {w}"), m.ckks_sub_pt_vec_znx_tmp_bytes(), |s| {
                                            let mut dst = copy_ct(&a);
                                            m.ckks_sub_pt_vec_znx_assign(&mut dst, &pt, s)?;
                                            Ok(out(&dst))
                                        });
                                    }
                                }
                            }
                        }
                    }
                    // constant products: non compact ciphertext operand (accepted: no compactness assertion on this path),
                    // and a hand-built ZNX constant holding one more digit than `meta.min_k` implies
                    for &n in NS {
                        let m = module(n);
                        for ds in [2usize, 3, 5] {
                            for (asz, sa) in [(3usize, 0usize), (4, B + 5), (5, 2 * B + 1)] {
                                for (pld, plb) in [(LD, 0usize), (7, 1)] {
                                    let prec = meta(pld, plb);
                                    let a = rand_ct(n, asz, sa, LD, 2);
                                    let dst0 = rand_ct(n, ds, 0, LD, 4);
                                    for (cname, cst) in consts() {
                                        let w = format!("n={n} B={B} dst.size={ds} a(size={asz} slack={sa}) ld={LD} pt(ld={pld} lb={plb}) cst={cname}");
                                        check(&format!("ckks_mul_pt_const_rnx_into {w}"), m.ckks_mul_pt_const_tmp_bytes(&dst0, &a, &prec), |s| {
                                            let mut dst = rand_ct(n, ds, 0, LD, 4);
                                            m.ckks_mul_pt_const_rnx_into(&mut dst, &a, &cst, prec, s)?;
                                            Ok(out(&dst))
                                        });
                                        check(&format!("ckks_mul_pt_const_rnx_assign {w}"), m.ckks_mul_pt_const_tmp_bytes(&a, &a, &prec), |s| {
                                            let mut dst = copy_ct(&a);
                                            m.ckks_mul_pt_const_rnx_assign(&mut dst, &cst, prec, s)?;
                                            Ok(out(&dst))
                                        });
                                        check(&format!("ckks_mul_add_pt_const_rnx_into {w}"), m.ckks_mul_add_pt_const_tmp_bytes(&dst0, &a, &prec), |s| {
                                            let mut dst = rand_ct(n, ds, 0, LD, 4);
                                            m.ckks_mul_add_pt_const_rnx_into(&mut dst, &a, &cst, prec, s)?;
                                            Ok(out(&dst))
                                        });
                                        let cz: CKKSPlaintextCstZnx = cst.to_znx(B.into(), prec).unwrap();
                                        let pad = |v: Option<&[i64]>| {
                                            v.map(|d| {
                                                let mut d = d.to_vec();
                                                d.push(3);
                                                d
                                            })
                                        };
                                        let cz_long = CKKSPlaintextCstZnx::new(pad(cz.re()), pad(cz.im()), cz.meta());
                                        if sa < B {
                                            check(
                                                &format!("ckks_mul_pt_const_znx_into [hand-built constant, 1 extra digit] {w}"),
                                                m.ckks_mul_pt_const_tmp_bytes(&dst0, &a, &cz_long.meta()),
                                                |s| {
                                                    let mut dst = rand_ct(n, ds, 0, LD, 4);
                                                    m.ckks_mul_pt_const_znx_into(&mut dst, &a, &cz_long, s)?;
                                                    Ok(out(&dst))
                                                },
                                            );
                                        }
                                    }
                                }
                            }
                        }
                    }
                    report_skips("mul_pt_ops_rank2_and_padded_pt");
                });
            }

            // ------------------------------------------------------------------------------------
            // mul_add_pt_* / mul_sub_pt_* / dot_product_pt_*
            // ------------------------------------------------------------------------------------
            #[test]
            fn composite_pt_ops() {
                collect(|| {
                    for &n in NS {
                        let m = module(n);
                        for (ds, dslack) in [(2usize, 0usize), (3, 2), (4, 0), (6, 0)] {
                            for (asz, sa) in [(3usize, 0usize), (4, 5), (5, 1)] {
                                let a = rand_ct(n, asz, sa, LD, 2);
                                let a2 = rand_ct(n, asz, sa, LD, 12);
                                let a3 = rand_ct(n, asz, 0, LD, 13);
                                for (pld, plb) in [(LD, 0usize), (LD - 5, 3), (7, 1), (LD, B)] {
                                    let prec = meta(pld, plb);
                                    let w = format!(
                                        "n={n} B={B} dst(size={ds} slack={dslack}) a(size={asz} slack={sa}) ld={LD} pt(ld={pld} lb={plb})"
                                    );
                                    let pt = rand_pt_znx(n, prec, 9);
                                    let pt2 = rand_pt_znx(n, prec, 19);
                                    let pt3 = rand_pt_znx(n, prec, 29);
                                    let rnx = rand_pt_rnx(n, 3);
                                    let rnx2 = rand_pt_rnx(n, 4);
                                    let rnx3 = rand_pt_rnx(n, 5);
                                    let dst0 = rand_ct(n, ds, dslack, LD, 4);

                                    check(
                                        &format!("ckks_mul_add_pt_vec_znx_into {w}"),
                                        m.ckks_mul_add_pt_vec_znx_tmp_bytes(&dst0, &a, &prec),
                                        |s| {
                                            let mut dst = rand_ct(n, ds, dslack, LD, 4);
                                            m.ckks_mul_add_pt_vec_znx_into(&mut dst, &a, &pt, s)?;
                                            Ok(out(&dst))
                                        },
                                    );
                                    check(
                                        &format!("ckks_mul_sub_pt_vec_znx_into {w}"),
                                        m.ckks_mul_sub_pt_vec_znx_tmp_bytes(&dst0, &a, &prec),
                                        |s| {
                                            let mut dst = rand_ct(n, ds, dslack, LD, 4);
                                            m.ckks_mul_sub_pt_vec_znx_into(&mut dst, &a, &pt, s)?;
                                            Ok(out(&dst))
                                        },
                                    );
                                    check(
                                        &format!("ckks_mul_add_pt_vec_rnx_into {w}"),
                                        m.ckks_mul_add_pt_vec_rnx_tmp_bytes(&dst0, &a, &prec),
                                        |s| {
                                            let mut dst = rand_ct(n, ds, dslack, LD, 4);
                                            m.ckks_mul_add_pt_vec_rnx_into(&mut dst, &a, &rnx, prec, s)?;
                                            Ok(out(&dst))
                                        },
                                    );
                                    check(
                                        &format!("ckks_mul_sub_pt_vec_rnx_into {w}"),
                                        m.ckks_mul_sub_pt_vec_rnx_tmp_bytes(&dst0, &a, &prec),
                                        |s| {
                                            let mut dst = rand_ct(n, ds, dslack, LD, 4);
                                            m.ckks_mul_sub_pt_vec_rnx_into(&mut dst, &a, &rnx, prec, s)?;
                                            Ok(out(&dst))
                                        },
                                    );
                                    for count in [1usize, 2, 3] {
                                        let cts = [&a, &a2, &a3];
                                        let pts = [&pt, &pt2, &pt3];
                                        let rnxs = [&rnx, &rnx2, &rnx3];
                                        check(
                                            &format!("ckks_dot_product_pt_vec_znx count={count} {w}"),
                                            m.ckks_dot_product_pt_vec_znx_tmp_bytes(&dst0, &a, &prec),
                                            |s| {
                                                let mut dst = rand_ct(n, ds, dslack, LD, 4);
                                                m.ckks_dot_product_pt_vec_znx(&mut dst, &cts[..count], &pts[..count], s)?;
                                                Ok(out(&dst))
                                            },
                                        );
                                        check(
                                            &format!("ckks_dot_product_pt_vec_rnx count={count} {w}"),
                                            m.ckks_dot_product_pt_vec_rnx_tmp_bytes(&dst0, &a, &prec),
                                            |s| {
                                                let mut dst = rand_ct(n, ds, dslack, LD, 4);
                                                m.ckks_dot_product_pt_vec_rnx(&mut dst, &cts[..count], &rnxs[..count], prec, s)?;
                                                Ok(out(&dst))
                                            },
                                        );
                                    }

                                    // heterogeneous ciphertext vector: the query is fed with the LARGEST operand layout
                                    {
                                        let small = rand_ct(n, 3, 1, LD, 14);
                                        let large = rand_ct(n, asz + 1, 0, LD, 15);
                                        let cts = [&small, &large, &a];
                                        let pts = [&pt, &pt2, &pt3];
                                        check(
                                            &format!("ckks_dot_product_pt_vec_znx heterogeneous a=[3 limbs, {} limbs, {asz} limbs] {w}", asz + 1),
                                            m.ckks_dot_product_pt_vec_znx_tmp_bytes(&dst0, &large, &prec),
                                            |s| {
                                                let mut dst = rand_ct(n, ds, dslack, LD, 4);
                                                m.ckks_dot_product_pt_vec_znx(&mut dst, &cts, &pts, s)?;
                                                Ok(out(&dst))
                                            },
                                        );
                                    }

                                    let cs = consts();
                                    for (cname, cst) in cs.iter() {
                                        let w = format!("{w} cst={cname}");
                                        check(
                                            &format!("ckks_mul_add_pt_const_rnx_into {w}"),
                                            m.ckks_mul_add_pt_const_tmp_bytes(&dst0, &a, &prec),
                                            |s| {
                                                let mut dst = rand_ct(n, ds, dslack, LD, 4);
                                                m.ckks_mul_add_pt_const_rnx_into(&mut dst, &a, cst, prec, s)?;
                                                Ok(out(&dst))
                                            },
                                        );
                                        check(
                                            &format!("ckks_mul_sub_pt_const_rnx_into {w}"),
                                            m.ckks_mul_sub_pt_const_tmp_bytes(&dst0, &a, &prec),
                                            |s| {
                                                let mut dst = rand_ct(n, ds, dslack, LD, 4);
                                                m.ckks_mul_sub_pt_const_rnx_into(&mut dst, &a, cst, prec, s)?;
                                                Ok(out(&dst))
                                            },
                                        );
                                        let cz: CKKSPlaintextCstZnx = cst.to_znx(B.into(), prec).unwrap();
                                        check(
                                            &format!("ckks_mul_add_pt_const_znx_into {w}"),
                                            m.ckks_mul_add_pt_const_tmp_bytes(&dst0, &a, &prec),
                                            |s| {
                                                let mut dst = rand_ct(n, ds, dslack, LD, 4);
                                                m.ckks_mul_add_pt_const_znx_into(&mut dst, &a, &cz, s)?;
                                                Ok(out(&dst))
                                            },
                                        );
                                        check(
                                            &format!("ckks_mul_sub_pt_const_znx_into {w}"),
                                            m.ckks_mul_sub_pt_const_tmp_bytes(&dst0, &a, &prec),
                                            |s| {
                                                let mut dst = rand_ct(n, ds, dslack, LD, 4);
                                                m.ckks_mul_sub_pt_const_znx_into(&mut dst, &a, &cz, s)?;
                                                Ok(out(&dst))
                                            },
                                        );
                                    }
                                    for count in [1usize, 2, 3] {
                                        let cts = [&a, &a2, &a3];
                                        let crs = [&cs[2].1, &cs[0].1, &cs[1].1];
                                        let czs_own: Vec<CKKSPlaintextCstZnx> = crs.iter().map(|c| c.to_znx(B.into(), prec).unwrap()).collect();
                                        let czs: Vec<&CKKSPlaintextCstZnx> = czs_own.iter().collect();
                                        check(
                                            &format!("ckks_dot_product_pt_const_rnx count={count} {w}"),
                                            m.ckks_dot_product_pt_const_tmp_bytes(&dst0, &a, &prec),
                                            |s| {
                                                let mut dst = rand_ct(n, ds, dslack, LD, 4);
                                                m.ckks_dot_product_pt_const_rnx(&mut dst, &cts[..count], &crs[..count], prec, s)?;
                                                Ok(out(&dst))
                                            },
                                        );
                                        check(
                                            &format!("ckks_dot_product_pt_const_znx count={count} {w}"),
                                            m.ckks_dot_product_pt_const_tmp_bytes(&dst0, &a, &prec),
                                            |s| {
                                                let mut dst = rand_ct(n, ds, dslack, LD, 4);
                                                m.ckks_dot_product_pt_const_znx(&mut dst, &cts[..count], &czs[..count], s)?;
                                                Ok(out(&dst))
                                            },
                                        );
                                    }
                                }
                            }
                        }
                    }
                    report_skips("composite_pt_ops");
                });
            }

            // ------------------------------------------------------------------------------------
            // encrypt_sk / decrypt
            // ------------------------------------------------------------------------------------
            #[test]
            fn encrypt_decrypt() {
                collect(|| {
                    for &n in NS {
                        let m = module(n);
                        let skp = secret(&m);
                        for k in [2 * B, 3 * B - 5, 4 * B, 5 * B - 1] {
                            let layout = GLWELayout {
                                n: n.into(),
                                base2k: B.into(),
                                k: k.into(),
                                rank: Rank(1),
                            };
                            let enc = EncryptionLayout::new_from_default_sigma(layout).unwrap();
                            for (pld, plb) in [(LD, 0usize), (LD, 3), (LD - 5, B), (7, 1)] {
                                let prec = meta(pld, plb);
                                let w = format!("n={n} B={B} ct.k={k} pt(ld={pld} lb={plb})");
                                let pt = rand_pt_znx(n, prec, 9);
                                check(&format!("ckks_encrypt_sk {w}"), m.ckks_encrypt_sk_tmp_bytes(&layout), |s| {
                                    let mut ct = CKKSCiphertext::alloc(n.into(), k.into(), B.into());
                                    m.ckks_encrypt_sk(&mut ct, &pt, &skp, &enc, &mut Source::new([3u8; 32]), &mut Source::new([4u8; 32]), s)?;
                                    Ok(out(&ct))
                                });
                            }
                        }
                        for (csz, cs) in [(2usize, 0usize), (3, 5), (5, 1), (5, 2 * B + 3)] {
                            let ct = rand_ct(n, csz, cs, LD, 2);
                            for (dld, dlb) in [(LD, 0usize), (LD, 3), (LD - 3, 2), (LD + 4, B), (LD, 2 * B)] {
                                let w = format!("n={n} B={B} ct(size={csz} slack={cs} ld={LD}) pt(ld={dld} lb={dlb})");
                                check(&format!("ckks_decrypt {w}"), m.ckks_decrypt_tmp_bytes(&ct), |s| {
                                    let mut pt = rand_pt_znx(n, meta(dld, dlb), 10);
                                    m.ckks_decrypt(&mut pt, &ct, &skp, s)?;
                                    Ok(pt.data().raw().to_vec())
                                });
                            }
                        }
                    }
                    report_skips("encrypt_decrypt");
                });
            }

            // ------------------------------------------------------------------------------------
            // rotate / conjugate
            // ------------------------------------------------------------------------------------
            #[test]
            fn rotate_conjugate() {
                collect(|| {
                    for &n in NS {
                        let m = module(n);
                        for (key_b, key_size, dnum, dsize) in [
                            (B, 3usize, 2usize, 1usize),
                            (B, 4, 4, 1),
                            (B, 6, 6, 1),
                            (B, 6, 3, 2),
                            (B, 6, 2, 3),
                            (B - 1, 6, 6, 1),
                            (B - 3, 7, 3, 2),
                        ] {
                            let keys = rand_atks_b(&m, key_b, key_size, dnum, dsize, &[-1, 1, 3]);
                            let key_infos = keys.get(&1).unwrap().gglwe_layout();
                            for ds in [2usize, 3, 5] {
                                for (asz, sa) in [(2usize, 0usize), (3, 0), (4, 5), (5, 1), (5, 2 * B + 1)] {
                                    let a = rand_ct(n, asz, sa, LD, 2);
                                    let dst0 = rand_ct(n, ds, 0, LD, 4);
                                    let w = format!(
                                        "n={n} B={B} key(b={key_b} size={key_size} dnum={dnum} dsize={dsize}) dst.size={ds} a(size={asz} slack={sa})"
                                    );
                                    for r in [1i64, 3] {
                                        // the query takes a single ciphertext layout: feed it the larger of (dst, a)
                                        let tmp_into = m
                                            .ckks_rotate_tmp_bytes(&dst0, &key_infos)
                                            .max(m.ckks_rotate_tmp_bytes(&a, &key_infos));
                                        check(&format!("ckks_rotate_into r={r} (query=max over dst,a) {w}"), tmp_into, |s| {
                                            let mut dst = rand_ct(n, ds, 0, LD, 4);
                                            m.ckks_rotate_into(&mut dst, &a, r, &keys, s)?;
                                            Ok(out(&dst))
                                        });
                                        check(
                                            &format!("ckks_rotate_into r={r} (query fed with dst layout) {w}"),
                                            m.ckks_rotate_tmp_bytes(&dst0, &key_infos),
                                            |s| {
                                                let mut dst = rand_ct(n, ds, 0, LD, 4);
                                                m.ckks_rotate_into(&mut dst, &a, r, &keys, s)?;
                                                Ok(out(&dst))
                                            },
                                        );
                                        check(
                                            &format!("ckks_rotate_into r={r} (query fed with src layout) {w}"),
                                            m.ckks_rotate_tmp_bytes(&a, &key_infos),
                                            |s| {
                                                let mut dst = rand_ct(n, ds, 0, LD, 4);
                                                m.ckks_rotate_into(&mut dst, &a, r, &keys, s)?;
                                                Ok(out(&dst))
                                            },
                                        );
                                        check(&format!("ckks_rotate_assign r={r} {w}"), m.ckks_rotate_tmp_bytes(&a, &key_infos), |s| {
                                            let mut dst = copy_ct(&a);
                                            m.ckks_rotate_assign(&mut dst, r, &keys, s)?;
                                            Ok(out(&dst))
                                        });
                                    }
                                    let tmp_into = m
                                        .ckks_conjugate_tmp_bytes(&dst0, &key_infos)
                                        .max(m.ckks_conjugate_tmp_bytes(&a, &key_infos));
                                    check(&format!("ckks_conjugate_into (query=max over dst,a) {w}"), tmp_into, |s| {
                                        let mut dst = rand_ct(n, ds, 0, LD, 4);
                                        m.ckks_conjugate_into(&mut dst, &a, keys.get(&-1).unwrap(), s)?;
                                        Ok(out(&dst))
                                    });
                                    check(
                                        &format!("ckks_conjugate_into (query fed with dst layout) {w}"),
                                        m.ckks_conjugate_tmp_bytes(&dst0, &key_infos),
                                        |s| {
                                            let mut dst = rand_ct(n, ds, 0, LD, 4);
                                            m.ckks_conjugate_into(&mut dst, &a, keys.get(&-1).unwrap(), s)?;
                                            Ok(out(&dst))
                                        },
                                    );
                                    check(
                                        &format!("ckks_conjugate_into (query fed with src layout) {w}"),
                                        m.ckks_conjugate_tmp_bytes(&a, &key_infos),
                                        |s| {
                                            let mut dst = rand_ct(n, ds, 0, LD, 4);
                                            m.ckks_conjugate_into(&mut dst, &a, keys.get(&-1).unwrap(), s)?;
                                            Ok(out(&dst))
                                        },
                                    );
                                    check(&format!("ckks_conjugate_assign {w}"), m.ckks_conjugate_tmp_bytes(&a, &key_infos), |s| {
                                        let mut dst = copy_ct(&a);
                                        m.ckks_conjugate_assign(&mut dst, keys.get(&-1).unwrap(), s)?;
                                        Ok(out(&dst))
                                    });
                                }
                            }
                        }
                    }
                    report_skips("rotate_conjugate");
                });
            }

            // ------------------------------------------------------------------------------------
            // ct*ct composites with ALL operands on the single layout the query takes
            // (ckks_mul / ckks_square / ckks_dot_product_ct themselves are known and not tested here)
            // ------------------------------------------------------------------------------------
            #[test]
            fn composite_ct_ops_single_layout() {
                collect(|| {
                    for &n in NS {
                        let m = module(n);
                        for (sz, tsz, dnum, dsize) in [(4usize, 5usize, 5usize, 1usize), (5, 6, 6, 1), (7, 8, 8, 1), (5, 6, 3, 2), (5, 4, 2, 1), (5, 8, 2, 3)] {
                            let tsk = rand_tsk(&m, tsz, dnum, dsize);
                            // log_budget large enough for 3 levels
                            let a = rand_ct(n, sz, 0, LD, 2);
                            let b = rand_ct(n, sz, 0, LD, 3);
                            let c = rand_ct(n, sz, 0, LD, 5);
                            let d = rand_ct(n, sz, 0, LD, 6);
                            let e = rand_ct(n, sz, 0, LD, 7);
                            let w = format!("n={n} B={B} all sizes={sz} ld={LD} tsk(size={tsz} dnum={dnum} dsize={dsize})");
                            check(&format!("ckks_mul_add_ct_into {w}"), m.ckks_mul_add_ct_tmp_bytes(&a, &tsk), |s| {
                                let mut dst = rand_ct(n, sz, 0, LD, 4);
                                m.ckks_mul_add_ct_into(&mut dst, &a, &b, &tsk, s)?;
                                Ok(out(&dst))
                            });
                            check(&format!("ckks_mul_sub_ct_into {w}"), m.ckks_mul_sub_ct_tmp_bytes(&a, &tsk), |s| {
                                let mut dst = rand_ct(n, sz, 0, LD, 4);
                                m.ckks_mul_sub_ct_into(&mut dst, &a, &b, &tsk, s)?;
                                Ok(out(&dst))
                            });
                            for count in [1usize, 2, 3, 4, 5] {
                                let all = [&a, &b, &c, &d, &e];
                                check(
                                    &format!("ckks_mul_many count={count} {w}"),
                                    m.ckks_mul_many_tmp_bytes(count, &a, &tsk),
                                    |s| {
                                        let mut dst = rand_ct(n, sz, 0, LD, 4);
                                        m.ckks_mul_many(&mut dst, &all[..count], &tsk, s)?;
                                        Ok(out(&dst))
                                    },
                                );
                            }
                        }
                    }
                    report_skips("composite_ct_ops_single_layout");
                });
            }

            // ------------------------------------------------------------------------------------
            // aggregate maxima: a scratch of exactly ckks_all_ops(_with_atk)_tmp_bytes must be enough
            // for every operation whose query enters the maximum (all operands on `ct_infos`).
            // ------------------------------------------------------------------------------------
            #[test]
            fn aggregate_all_ops() {
                collect(|| {
                    for &n in NS {
                        let m = module(n);
                        let skp = secret(&m);
                        for sz in [3usize, 4, 6] {
                            for (pld, plb) in [(LD, 0usize), (LD - 5, 3), (7, 1)] {
                                let prec = meta(pld, plb);
                                let tsk = rand_tsk(&m, sz + 1, sz + 1, 1);
                                let keys = rand_atks(&m, sz + 1, sz + 1, 1, &[-1, 1]);
                                let atk_infos = keys.get(&1).unwrap().gglwe_layout();
                                let layout = GLWELayout {
                                    n: n.into(),
                                    base2k: B.into(),
                                    k: (sz * B).into(),
                                    rank: Rank(1),
                                };
                                let enc = EncryptionLayout::new_from_default_sigma(layout).unwrap();
                                let all = m.ckks_all_ops_tmp_bytes(&layout, &tsk, &prec);
                                let all_atk = m.ckks_all_ops_with_atk_tmp_bytes(&layout, &tsk, &atk_infos, &prec);
                                assert!(all_atk >= all);
                                let w = format!("n={n} B={B} ct.size={sz} pt(ld={pld} lb={plb}) [aggregate]");
                                let a = rand_ct(n, sz, 0, LD, 2);
                                let b = rand_ct(n, sz, 3, LD, 3);
                                let pt = rand_pt_znx(n, prec, 9);
                                let rnx = rand_pt_rnx(n, 3);
                                let cst = CKKSPlaintextCstRnx::new(Some(-0.81), Some(0.27));
                                let cz: CKKSPlaintextCstZnx = cst.to_znx(B.into(), prec).unwrap();

                                check(&format!("all_ops: ckks_encrypt_sk {w}"), all, |s| {
                                    let mut ct = CKKSCiphertext::alloc(n.into(), (sz * B).into(), B.into());
                                    m.ckks_encrypt_sk(&mut ct, &pt, &skp, &enc, &mut Source::new([3u8; 32]), &mut Source::new([4u8; 32]), s)?;
                                    Ok(out(&ct))
                                });
                                check(&format!("all_ops: ckks_decrypt {w}"), all, |s| {
                                    let mut p = rand_pt_znx(n, meta(LD, 3), 10);
                                    m.ckks_decrypt(&mut p, &a, &skp, s)?;
                                    Ok(p.data().raw().to_vec())
                                });
                                check(&format!("all_ops: ckks_add_into {w}"), all, |s| {
                                    let mut dst = rand_ct(n, sz, 0, LD, 4);
                                    m.ckks_add_into(&mut dst, &a, &b, s)?;
                                    Ok(out(&dst))
                                });
                                check(&format!("all_ops: ckks_sub_into {w}"), all, |s| {
                                    let mut dst = rand_ct(n, sz, 0, LD, 4);
                                    m.ckks_sub_into(&mut dst, &a, &b, s)?;
                                    Ok(out(&dst))
                                });
                                check(&format!("all_ops: ckks_add_pt_vec_znx_into {w}"), all, |s| {
                                    let mut dst = rand_ct(n, sz, 0, LD, 4);
                                    m.ckks_add_pt_vec_znx_into(&mut dst, &a, &pt, s)?;
                                    Ok(out(&dst))
                                });
                                check(&format!("all_ops: ckks_sub_pt_vec_znx_into {w}"), all, |s| {
                                    let mut dst = rand_ct(n, sz, 0, LD, 4);
                                    m.ckks_sub_pt_vec_znx_into(&mut dst, &a, &pt, s)?;
                                    Ok(out(&dst))
                                });
                                check(&format!("all_ops: ckks_add_pt_vec_rnx_into {w}"), all, |s| {
                                    let mut dst = rand_ct(n, sz, 0, LD, 4);
                                    m.ckks_add_pt_vec_rnx_into(&mut dst, &a, &rnx, prec, s)?;
                                    Ok(out(&dst))
                                });
                                check(&format!("all_ops: ckks_sub_pt_vec_rnx_into {w}"), all, |s| {
                                    let mut dst = rand_ct(n, sz, 0, LD, 4);
                                    m.ckks_sub_pt_vec_rnx_into(&mut dst, &a, &rnx, prec, s)?;
                                    Ok(out(&dst))
                                });
                                check(&format!("all_ops: ckks_add_pt_const_rnx_into {w}"), all, |s| {
                                    let mut dst = rand_ct(n, sz, 0, LD, 4);
                                    m.ckks_add_pt_const_rnx_into(&mut dst, &a, &cst, prec, s)?;
                                    Ok(out(&dst))
                                });
                                check(&format!("all_ops: ckks_sub_pt_const_rnx_into {w}"), all, |s| {
                                    let mut dst = rand_ct(n, sz, 0, LD, 4);
                                    m.ckks_sub_pt_const_rnx_into(&mut dst, &a, &cst, prec, s)?;
                                    Ok(out(&dst))
                                });
                                check(&format!("all_ops: ckks_neg_into {w}"), all, |s| {
                                    let mut dst = rand_ct(n, sz, 0, LD, 4);
                                    m.ckks_neg_into(&mut dst, &a, s)?;
                                    Ok(out(&dst))
                                });
                                check(&format!("all_ops: ckks_mul_pow2_into {w}"), all, |s| {
                                    let mut dst = rand_ct(n, sz, 0, LD, 4);
                                    m.ckks_mul_pow2_into(&mut dst, &a, 3, s)?;
                                    Ok(out(&dst))
                                });
                                check(&format!("all_ops: ckks_div_pow2_into {w}"), all, |s| {
                                    let mut dst = rand_ct(n, sz, 0, LD, 4);
                                    m.ckks_div_pow2_into(&mut dst, &a, 3, s)?;
                                    Ok(out(&dst))
                                });
                                check(&format!("all_ops: ckks_rescale_into {w}"), all, |s| {
                                    let mut dst = rand_ct(n, sz, 0, LD, 4);
                                    m.ckks_rescale_into(&mut dst, B + 3, &a, s)?;
                                    Ok(out(&dst))
                                });
                                check(&format!("all_ops: ckks_align_assign {w}"), all, |s| {
                                    let (mut x, mut y) = (copy_ct(&a), copy_ct(&b));
                                    m.ckks_align_assign(&mut x, &mut y, s)?;
                                    let mut v = out(&x);
                                    v.extend(out(&y));
                                    Ok(v)
                                });
                                check(&format!("all_ops: ckks_mul_pt_vec_znx_into {w}"), all, |s| {
                                    let mut dst = rand_ct(n, sz, 0, LD, 4);
                                    m.ckks_mul_pt_vec_znx_into(&mut dst, &a, &pt, s)?;
                                    Ok(out(&dst))
                                });
                                check(&format!("all_ops: ckks_mul_pt_vec_rnx_into {w}"), all, |s| {
                                    let mut dst = rand_ct(n, sz, 0, LD, 4);
                                    m.ckks_mul_pt_vec_rnx_into(&mut dst, &a, &rnx, prec, s)?;
                                    Ok(out(&dst))
                                });
                                check(&format!("all_ops: ckks_mul_pt_const_rnx_into {w}"), all, |s| {
                                    let mut dst = rand_ct(n, sz, 0, LD, 4);
                                    m.ckks_mul_pt_const_rnx_into(&mut dst, &a, &cst, prec, s)?;
                                    Ok(out(&dst))
                                });
                                check(&format!("all_ops: ckks_mul_pt_const_znx_assign {w}"), all, |s| {
                                    let mut dst = copy_ct(&a);
                                    m.ckks_mul_pt_const_znx_assign(&mut dst, &cz, s)?;
                                    Ok(out(&dst))
                                });
                                check(&format!("all_ops_with_atk: ckks_rotate_into {w}"), all_atk, |s| {
                                    let mut dst = rand_ct(n, sz, 0, LD, 4);
                                    m.ckks_rotate_into(&mut dst, &a, 1, &keys, s)?;
                                    Ok(out(&dst))
                                });
                                check(&format!("all_ops_with_atk: ckks_conjugate_into {w}"), all_atk, |s| {
                                    let mut dst = rand_ct(n, sz, 0, LD, 4);
                                    m.ckks_conjugate_into(&mut dst, &a, keys.get(&-1).unwrap(), s)?;
                                    Ok(out(&dst))
                                });
                            }
                        }
                    }
                    report_skips("aggregate_all_ops");
                });
            }
        }
    };
}

ckks_tests!(ckks_fft64_b16, FFT64Ref, 16, 20, [8, 16, 32]);
ckks_tests!(ckks_ntt120_b16, NTT120Ref, 16, 20, [8, 16, 32]);
ckks_tests!(ckks_ntt120_b52, NTT120Ref, 52, 40, [8, 16]);
ckks_tests!(ckks_ntt120_b16_small_n, NTT120Ref, 16, 20, [2, 4]);
