//! C12: declared scratch size always suffices and scratch contents never matter (HAL level).
//!
//! Every HAL operation taking scratch is run on a window of EXACTLY `*_tmp_bytes` bytes carved
//! out of a canary filled arena, with three different pre-fills of the window (0x00, 0xFF, pseudo
//! random). The operation must not panic, the canaries around the window must be intact and the
//! results must be bit identical for the three pre-fills (and identical to a run with a huge,
//! zeroed scratch).

#![allow(clippy::too_many_arguments)]

use poulpy_hal::{
    api::*,
    layouts::{
        Backend, CnvPVecL, CnvPVecR, DataView, DataViewMut, FillUniform, MatZnx, Module, ScratchOwned, VecZnx, VecZnxDft,
        VmpPMat, ZnxInfos, ZnxView, ZnxViewMut,
    },
    source::Source,
};

use poulpy_cpu_ref::{FFT64Ref, NTT120Ref};

mod c12_common;
use c12_common::*;

fn bytes_of<T: DataView>(x: &T) -> Vec<u8>
where
    T::D: AsRef<[u8]>,
{
    x.data().as_ref().to_vec()
}

fn rand_vec_znx(n: usize, cols: usize, size: usize, base2k: usize, source: &mut Source) -> VecZnx<Vec<u8>> {
    let mut a = VecZnx::alloc(n, cols, size);
    a.fill_uniform(base2k, source);
    a
}


macro_rules! hal_vec_znx_tests {
    ($modname:ident, $BE:ty, $base2k:expr, $ns:expr) => {
        mod $modname {
            use super::*;
            type BE = $BE;
            const BASE2K: usize = $base2k;
            const NS: &[usize] = &$ns;

            fn module(n: usize) -> Module<BE> {
                Module::<BE>::new(n as u64)
            }

            #[test]
            fn vec_znx_normalize_exact_scratch() {
                collect(|| {
                for &n in NS {
                    let m = module(n);
                    let tmp = m.vec_znx_normalize_tmp_bytes();
                    let mut source = Source::new([1u8; 32]);
                    for a_size in 1..=4 {
                        for res_size in 1..=4 {
                            for (res_b, a_b) in [(BASE2K, BASE2K), (BASE2K, BASE2K - 3), (BASE2K - 5, BASE2K), (7, 19), (19, 7)] {
                                let a = rand_vec_znx(n, 2, a_size, 40, &mut source);
                                let dirty = rand_vec_znx(n, 2, res_size, 60, &mut source);
                                for res_offset in [-(2 * a_b as i64) - 1, -(a_b as i64), -3, 0, 1, a_b as i64, 2 * a_b as i64 + 3] {
                                    let what = format!(
                                        "vec_znx_normalize n={n} a_size={a_size} res_size={res_size} res_b={res_b} a_b={a_b} off={res_offset}"
                                    );
                                    run_all_fills::<BE, _>(&what, tmp, |s| {
                                        let mut res = dirty.clone();
                                        m.vec_znx_normalize(&mut res, res_b, res_offset, 1, &a, a_b, 0, s);
                                        bytes_of(&res)
                                    });
                                }
                            }
                        }
                    }
                }
                });
            }

            #[test]
            fn vec_znx_normalize_assign_exact_scratch() {
                collect(|| {
                for &n in NS {
                    let m = module(n);
                    let tmp = m.vec_znx_normalize_tmp_bytes();
                    let mut source = Source::new([2u8; 32]);
                    for size in 1..=4 {
                        let a = rand_vec_znx(n, 2, size, 50, &mut source);
                        let what = format!("vec_znx_normalize_assign n={n} size={size}");
                        run_all_fills::<BE, _>(&what, tmp, |s| {
                            let mut res = a.clone();
                            m.vec_znx_normalize_assign(BASE2K, &mut res, 1, s);
                            bytes_of(&res)
                        });
                    }
                }
                });
            }

            #[test]
            fn vec_znx_shift_exact_scratch() {
                collect(|| {
                for &n in NS {
                    let m = module(n);
                    let lsh_tmp = m.vec_znx_lsh_tmp_bytes();
                    let rsh_tmp = m.vec_znx_rsh_tmp_bytes();
                    let mut source = Source::new([3u8; 32]);
                    for a_size in 1..=4 {
                        for res_size in 1..=4 {
                            let a = rand_vec_znx(n, 2, a_size, BASE2K, &mut source);
                            let dirty = rand_vec_znx(n, 2, res_size, BASE2K, &mut source);
                            for k in [0, 1, BASE2K - 1, BASE2K, BASE2K + 1, 2 * BASE2K, 3 * BASE2K + 2, 5 * BASE2K + 1] {
                                let what = format!("n={n} a_size={a_size} res_size={res_size} k={k}");
                                run_all_fills::<BE, _>(&format!("vec_znx_lsh {what}"), lsh_tmp, |s| {
                                    let mut res = dirty.clone();
                                    m.vec_znx_lsh(BASE2K, k, &mut res, 1, &a, 0, s);
                                    bytes_of(&res)
                                });
                                run_all_fills::<BE, _>(&format!("vec_znx_lsh_add_into {what}"), lsh_tmp, |s| {
                                    let mut res = dirty.clone();
                                    m.vec_znx_lsh_add_into(BASE2K, k, &mut res, 1, &a, 0, s);
                                    bytes_of(&res)
                                });
                                run_all_fills::<BE, _>(&format!("vec_znx_lsh_sub {what}"), lsh_tmp, |s| {
                                    let mut res = dirty.clone();
                                    m.vec_znx_lsh_sub(BASE2K, k, &mut res, 1, &a, 0, s);
                                    bytes_of(&res)
                                });
                                run_all_fills::<BE, _>(&format!("vec_znx_rsh {what}"), rsh_tmp, |s| {
                                    let mut res = dirty.clone();
                                    m.vec_znx_rsh(BASE2K, k, &mut res, 1, &a, 0, s);
                                    bytes_of(&res)
                                });
                                run_all_fills::<BE, _>(&format!("vec_znx_rsh_add_into {what}"), rsh_tmp, |s| {
                                    let mut res = dirty.clone();
                                    m.vec_znx_rsh_add_into(BASE2K, k, &mut res, 1, &a, 0, s);
                                    bytes_of(&res)
                                });
                                run_all_fills::<BE, _>(&format!("vec_znx_rsh_sub {what}"), rsh_tmp, |s| {
                                    let mut res = dirty.clone();
                                    m.vec_znx_rsh_sub(BASE2K, k, &mut res, 1, &a, 0, s);
                                    bytes_of(&res)
                                });
                                if a_size == res_size {
                                    run_all_fills::<BE, _>(&format!("vec_znx_lsh_assign {what}"), lsh_tmp, |s| {
                                        let mut res = a.clone();
                                        m.vec_znx_lsh_assign(BASE2K, k, &mut res, 1, s);
                                        bytes_of(&res)
                                    });
                                    run_all_fills::<BE, _>(&format!("vec_znx_rsh_assign {what}"), rsh_tmp, |s| {
                                        let mut res = a.clone();
                                        m.vec_znx_rsh_assign(BASE2K, k, &mut res, 1, s);
                                        bytes_of(&res)
                                    });
                                    // sibling agreement: in place == out of place (same column)
                                    let mut big: ScratchOwned<BE> = ScratchOwned::alloc(1 << 12);
                                    let mut oop = VecZnx::alloc(n, 2, a_size);
                                    m.vec_znx_lsh(BASE2K, k, &mut oop, 1, &a, 1, big.borrow());
                                    let mut arena = Arena::new(lsh_tmp, Fill::Rand);
                                    let mut inp = a.clone();
                                    m.vec_znx_lsh_assign(BASE2K, k, &mut inp, 1, arena.scratch::<BE>());
                                    assert_eq!(oop.at(1, 0), inp.at(1, 0), "lsh vs lsh_assign {what}");
                                    for j in 0..a_size {
                                        assert_eq!(oop.at(1, j), inp.at(1, j), "lsh vs lsh_assign {what} limb {j}");
                                    }
                                    let mut oop = VecZnx::alloc(n, 2, a_size);
                                    m.vec_znx_rsh(BASE2K, k, &mut oop, 1, &a, 1, big.borrow());
                                    let mut arena = Arena::new(rsh_tmp, Fill::Rand);
                                    let mut inp = a.clone();
                                    m.vec_znx_rsh_assign(BASE2K, k, &mut inp, 1, arena.scratch::<BE>());
                                    for j in 0..a_size {
                                        assert_eq!(oop.at(1, j), inp.at(1, j), "rsh vs rsh_assign {what} limb {j}");
                                    }
                                }
                            }
                        }
                    }
                }
                });
            }

            #[test]
            fn vec_znx_inplace_perm_exact_scratch() {
                collect(|| {
                for &n in NS {
                    let m = module(n);
                    let mut source = Source::new([4u8; 32]);
                    for size in 1..=3 {
                        let a = rand_vec_znx(n, 2, size, BASE2K, &mut source);
                        for p in [-(2 * n as i64) - 1, -(n as i64), -1, 0, 1, 3, n as i64, 2 * n as i64 - 1, 2 * n as i64, 5 * n as i64 + 1] {
                            let what = format!("n={n} size={size} p={p}");
                            run_all_fills::<BE, _>(
                                &format!("vec_znx_rotate_assign {what}"),
                                m.vec_znx_rotate_assign_tmp_bytes(),
                                |s| {
                                    let mut res = a.clone();
                                    m.vec_znx_rotate_assign(p, &mut res, 1, s);
                                    let mut oop = a.clone();
                                    m.vec_znx_rotate(p, &mut oop, 1, &a, 1);
                                    assert_eq!(oop, res, "rotate vs rotate_assign {what}");
                                    bytes_of(&res)
                                },
                            );
                            run_all_fills::<BE, _>(
                                &format!("vec_znx_mul_xp_minus_one_assign {what}"),
                                m.vec_znx_mul_xp_minus_one_assign_tmp_bytes(),
                                |s| {
                                    let mut res = a.clone();
                                    m.vec_znx_mul_xp_minus_one_assign(p, &mut res, 1, s);
                                    let mut oop = a.clone();
                                    m.vec_znx_mul_xp_minus_one(p, &mut oop, 1, &a, 1);
                                    assert_eq!(oop, res, "mul_xp_minus_one vs assign {what}");
                                    bytes_of(&res)
                                },
                            );
                            if p & 1 == 1 {
                                run_all_fills::<BE, _>(
                                    &format!("vec_znx_automorphism_assign {what}"),
                                    m.vec_znx_automorphism_assign_tmp_bytes(),
                                    |s| {
                                        let mut res = a.clone();
                                        m.vec_znx_automorphism_assign(p, &mut res, 1, s);
                                        let mut oop = a.clone();
                                        m.vec_znx_automorphism(p, &mut oop, 1, &a, 1);
                                        assert_eq!(oop, res, "automorphism vs assign {what}");
                                        bytes_of(&res)
                                    },
                                );
                            }
                        }
                    }
                }
                });
            }

            #[test]
            fn vec_znx_split_merge_exact_scratch() {
                collect(|| {
                for &n in NS.iter().filter(|n| **n >= 2) {
                    let m = module(n);
                    let mut source = Source::new([5u8; 32]);
                    for a_size in 1..=3 {
                        for res_size in 1..=3 {
                            for parts in [2usize, 4, 8] {
                                if parts > n {
                                    continue;
                                }
                                let n_small = n / parts;
                                let a = rand_vec_znx(n, 2, a_size, BASE2K, &mut source);
                                let what = format!("n={n} parts={parts} a_size={a_size} res_size={res_size}");
                                run_all_fills::<BE, _>(
                                    &format!("vec_znx_split_ring {what}"),
                                    m.vec_znx_split_ring_tmp_bytes(),
                                    |s| {
                                        let mut res: Vec<VecZnx<Vec<u8>>> =
                                            (0..parts).map(|_| rand_vec_znx(n_small, 2, res_size, BASE2K, &mut Source::new([9u8; 32]))).collect();
                                        m.vec_znx_split_ring(&mut res, 1, &a, 0, s);
                                        res.iter().flat_map(bytes_of).collect::<Vec<u8>>()
                                    },
                                );
                                let smalls: Vec<VecZnx<Vec<u8>>> =
                                    (0..parts).map(|_| rand_vec_znx(n_small, 2, a_size, BASE2K, &mut source)).collect();
                                run_all_fills::<BE, _>(
                                    &format!("vec_znx_merge_rings {what}"),
                                    m.vec_znx_merge_rings_tmp_bytes(),
                                    |s| {
                                        let mut res = rand_vec_znx(n, 2, res_size, BASE2K, &mut Source::new([9u8; 32]));
                                        m.vec_znx_merge_rings(&mut res, 1, &smalls, 0, s);
                                        bytes_of(&res)
                                    },
                                );
                            }
                        }
                    }
                }
                });
            }
        }
    };
}

hal_vec_znx_tests!(vec_znx_fft64, FFT64Ref, 17, [2, 4, 8, 16, 32]);
hal_vec_znx_tests!(vec_znx_ntt120, NTT120Ref, 17, [1, 2, 4, 8, 16, 32]);


fn make_big<BE: Backend>(m: &Module<BE>, cols: usize, size: usize, log_bound: usize, source: &mut Source) -> poulpy_hal::layouts::VecZnxBigOwned<BE>
where
    Module<BE>: VecZnxBigAlloc<BE> + VecZnxBigFromSmall<BE> + VecZnxBigAddSmallAssign<BE>,
{
    let mut big = m.vec_znx_big_alloc(cols, size);
    let a = rand_vec_znx(m.n(), cols, size, log_bound, source);
    for c in 0..cols {
        m.vec_znx_big_from_small(&mut big, c, &a, c);
        for _ in 0..3 {
            let b = rand_vec_znx(m.n(), cols, size, log_bound, source);
            m.vec_znx_big_add_small_assign(&mut big, c, &b, c);
        }
    }
    big
}

macro_rules! hal_prep_tests {
    ($modname:ident, $BE:ty, $base2k:expr, $ns:expr, $ns_mat:expr, $ns_cnv:expr) => {
        mod $modname {
            use super::*;
            type BE = $BE;
            const BASE2K: usize = $base2k;
            const NS: &[usize] = &$ns;
            const NS_MAT: &[usize] = &$ns_mat;
            const NS_CNV: &[usize] = &$ns_cnv;

            fn module(n: usize) -> Module<BE> {
                Module::<BE>::new(n as u64)
            }

            #[test]
            fn vec_znx_big_normalize_exact_scratch() {
                collect(|| {
                for &n in NS {
                    let m = module(n);
                    let tmp = m.vec_znx_big_normalize_tmp_bytes();
                    let mut source = Source::new([11u8; 32]);
                    for a_size in 1..=4 {
                        for res_size in 1..=4 {
                            for (res_b, a_b) in [(BASE2K, BASE2K), (BASE2K, BASE2K - 3), (BASE2K - 5, BASE2K), (7, 19), (19, 7)] {
                                let a = make_big::<BE>(&m, 2, a_size, 45, &mut source);
                                let dirty = rand_vec_znx(n, 2, res_size, res_b, &mut source);
                                for res_offset in [-(2 * a_b as i64) - 1, -(a_b as i64), -3, 0, 1, a_b as i64, 2 * a_b as i64 + 3] {
                                    let what =
                                        format!("n={n} a_size={a_size} res_size={res_size} res_b={res_b} a_b={a_b} off={res_offset}");
                                    run_all_fills::<BE, _>(&format!("vec_znx_big_normalize {what}"), tmp, |s| {
                                        let mut res = dirty.clone();
                                        m.vec_znx_big_normalize(&mut res, res_b, res_offset, 1, &a, a_b, 0, s);
                                        let mut res2 = dirty.clone();
                                        m.vec_znx_big_normalize_into(&mut res2, res_b, res_offset, 1, &a, a_b, 0, s);
                                        assert_eq!(res, res2);
                                        bytes_of(&res)
                                    });
                                    run_all_fills::<BE, _>(&format!("vec_znx_big_normalize_add_assign {what}"), tmp, |s| {
                                        let mut res = dirty.clone();
                                        m.vec_znx_big_normalize_add_assign(&mut res, res_b, res_offset, 1, &a, a_b, 0, s);
                                        bytes_of(&res)
                                    });
                                    run_all_fills::<BE, _>(&format!("vec_znx_big_normalize_sub_assign {what}"), tmp, |s| {
                                        let mut res = dirty.clone();
                                        m.vec_znx_big_normalize_sub_assign(&mut res, res_b, res_offset, 1, &a, a_b, 0, s);
                                        bytes_of(&res)
                                    });
                                    run_all_fills::<BE, _>(&format!("vec_znx_big_normalize_negate {what}"), tmp, |s| {
                                        let mut res = dirty.clone();
                                        m.vec_znx_big_normalize_negate(&mut res, res_b, res_offset, 1, &a, a_b, 0, s);
                                        bytes_of(&res)
                                    });
                                }
                            }
                        }
                    }
                }
                });
            }

            #[test]
            fn vec_znx_big_automorphism_assign_exact_scratch() {
                collect(|| {
                for &n in NS {
                    let m = module(n);
                    let tmp = m.vec_znx_big_automorphism_assign_tmp_bytes();
                    let mut source = Source::new([12u8; 32]);
                    for size in 1..=3 {
                        let a = make_big::<BE>(&m, 2, size, 45, &mut source);
                        for p in [-(2 * n as i64) - 1, -1, 1, 3, 5, 2 * n as i64 - 1, 2 * n as i64 + 1] {
                            let what = format!("vec_znx_big_automorphism_assign n={n} size={size} p={p}");
                            run_all_fills::<BE, _>(&what, tmp, |s| {
                                let mut res = m.vec_znx_big_alloc(2, size);
                                res.raw_mut().copy_from_slice(a.raw());
                                m.vec_znx_big_automorphism_assign(p, &mut res, 1, s);
                                let mut oop = m.vec_znx_big_alloc(2, size);
                                oop.raw_mut().copy_from_slice(a.raw());
                                m.vec_znx_big_automorphism(p, &mut oop, 1, &a, 1);
                                assert_eq!(bytes_of(&oop), bytes_of(&res), "{what}: in-place != out-of-place");
                                bytes_of(&res)
                            });
                        }
                    }
                }
                });
            }

            #[test]
            fn vec_znx_idft_apply_exact_scratch() {
                collect(|| {
                for &n in NS {
                    let m = module(n);
                    let tmp = m.vec_znx_idft_apply_tmp_bytes();
                    let mut source = Source::new([13u8; 32]);
                    for a_size in 1..=3 {
                        for res_size in 1..=3 {
                            let a = rand_vec_znx(n, 2, a_size, BASE2K, &mut source);
                            let mut a_dft = m.vec_znx_dft_alloc(2, a_size);
                            for c in 0..2 {
                                m.vec_znx_dft_apply(1, 0, &mut a_dft, c, &a, c);
                            }
                            let what = format!("vec_znx_idft_apply n={n} a_size={a_size} res_size={res_size}");
                            run_all_fills::<BE, _>(&what, tmp, |s| {
                                let mut res = make_big::<BE>(&m, 2, res_size, 30, &mut Source::new([7u8; 32]));
                                m.vec_znx_idft_apply(&mut res, 1, &a_dft, 0, s);
                                // sibling: tmpa form
                                let mut res2 = make_big::<BE>(&m, 2, res_size, 30, &mut Source::new([7u8; 32]));
                                let mut a_dft2 = m.vec_znx_dft_alloc(2, a_size);
                                a_dft2.raw_mut().copy_from_slice(a_dft.raw());
                                m.vec_znx_idft_apply_tmpa(&mut res2, 1, &mut a_dft2, 0);
                                assert_eq!(bytes_of(&res), bytes_of(&res2), "{what}: idft_apply != idft_apply_tmpa");
                                bytes_of(&res)
                            });
                        }
                    }
                }
                });
            }

            #[test]
            fn vmp_exact_scratch() {
                collect(|| {
                for &n in NS_MAT {
                    let m = module(n);
                    let mut source = Source::new([14u8; 32]);
                    for rows in 1..=3usize {
                        for cols_in in 1..=2usize {
                            for cols_out in 1..=2usize {
                                for size in 1..=3usize {
                                    let mut mat = MatZnx::alloc(n, rows, cols_in, cols_out, size);
                                    mat.fill_uniform(BASE2K, &mut source);
                                    let what = format!("n={n} rows={rows} cols_in={cols_in} cols_out={cols_out} size={size}");
                                    let prep_tmp = m.vmp_prepare_tmp_bytes(rows, cols_in, cols_out, size);
                                    let mut pmat = m.vmp_pmat_alloc(rows, cols_in, cols_out, size);
                                    run_all_fills::<BE, _>(&format!("vmp_prepare {what}"), prep_tmp, |s| {
                                        pmat.raw_mut().iter_mut().for_each(|x| *x = bytemuck::Zeroable::zeroed());
                                        m.vmp_prepare(&mut pmat, &mat, s);
                                        bytes_of(&pmat)
                                    });
                                    for a_size in 1..=4usize {
                                        for res_size in 1..=4usize {
                                            let a = rand_vec_znx(n, cols_in, a_size, BASE2K, &mut source);
                                            let mut a_dft = m.vec_znx_dft_alloc(cols_in, a_size);
                                            for c in 0..cols_in {
                                                m.vec_znx_dft_apply(1, 0, &mut a_dft, c, &a, c);
                                            }
                                            let w2 = format!("{what} a_size={a_size} res_size={res_size}");
                                            let tmp = m.vmp_apply_dft_tmp_bytes(res_size, a_size, rows, cols_in, cols_out, size);
                                            run_all_fills::<BE, _>(&format!("vmp_apply_dft {w2}"), tmp, |s| {
                                                let mut res = m.vec_znx_dft_alloc(cols_out, res_size);
                                                res.data_mut().as_mut().fill(0x5A);
                                                m.vmp_apply_dft(&mut res, &a, &pmat, s);
                                                bytes_of(&res)
                                            });
                                            // fewer input columns than cols_in is admissible for vmp_apply_dft
                                            if cols_in == 2 {
                                                let a1 = rand_vec_znx(n, 1, a_size, BASE2K, &mut source);
                                                let tmp = m.vmp_apply_dft_tmp_bytes(res_size, a_size, rows, cols_in, cols_out, size);
                                                run_all_fills::<BE, _>(&format!("vmp_apply_dft(a.cols=1) {w2}"), tmp, |s| {
                                                    let mut res = m.vec_znx_dft_alloc(cols_out, res_size);
                                                    res.data_mut().as_mut().fill(0x5A);
                                                    m.vmp_apply_dft(&mut res, &a1, &pmat, s);
                                                    bytes_of(&res)
                                                });
                                            }
                                            let tmp = m.vmp_apply_dft_to_dft_tmp_bytes(res_size, a_size, rows, cols_in, cols_out, size);
                                            for limb_offset in 0..=size + 1 {
                                                run_all_fills::<BE, _>(
                                                    &format!("vmp_apply_dft_to_dft {w2} limb_offset={limb_offset}"),
                                                    tmp,
                                                    |s| {
                                                        let mut res = m.vec_znx_dft_alloc(cols_out, res_size);
                                                        res.data_mut().as_mut().fill(0x5A);
                                                        m.vmp_apply_dft_to_dft(&mut res, &a_dft, &pmat, limb_offset, s);
                                                        bytes_of(&res)
                                                    },
                                                );
                                            }
                                        }
                                    }
                                }
                            }
                        }
                    }
                }
                });
            }

            #[test]
            fn convolution_exact_scratch() {
                collect(|| {
                for &n in NS_CNV {
                    let m = module(n);
                    let mut source = Source::new([15u8; 32]);
                    for a_size in 1..=3usize {
                        for b_size in 1..=3usize {
                            let a = rand_vec_znx(n, 2, a_size, BASE2K, &mut source);
                            let b = rand_vec_znx(n, 2, b_size, BASE2K, &mut source);
                            for (pa_size, pb_size) in [(a_size, b_size), (a_size + 1, b_size + 1), (a_size.max(2) - 1, b_size.max(2) - 1)] {
                                let what = format!("n={n} a_size={a_size} b_size={b_size} pa_size={pa_size} pb_size={pb_size}");
                                let mut a_prep = m.cnv_pvec_left_alloc(2, pa_size);
                                let mut b_prep = m.cnv_pvec_right_alloc(2, pb_size);
                                for mask in [-1i64, (-1i64) << 5] {
                                    run_all_fills::<BE, _>(
                                        &format!("cnv_prepare_left {what} mask={mask}"),
                                        m.cnv_prepare_left_tmp_bytes(pa_size, a_size),
                                        |s| {
                                            a_prep.data_mut().as_mut().fill(0x33);
                                            m.cnv_prepare_left(&mut a_prep, &a, mask, s);
                                            bytes_of(&a_prep)
                                        },
                                    );
                                    run_all_fills::<BE, _>(
                                        &format!("cnv_prepare_right {what} mask={mask}"),
                                        m.cnv_prepare_right_tmp_bytes(pb_size, b_size),
                                        |s| {
                                            b_prep.data_mut().as_mut().fill(0x33);
                                            m.cnv_prepare_right(&mut b_prep, &b, mask, s);
                                            bytes_of(&b_prep)
                                        },
                                    );
                                    let mut l2 = m.cnv_pvec_left_alloc(2, pa_size);
                                    let mut r2 = m.cnv_pvec_right_alloc(2, pa_size);
                                    run_all_fills::<BE, _>(
                                        &format!("cnv_prepare_self {what} mask={mask}"),
                                        m.cnv_prepare_self_tmp_bytes(pa_size, a_size),
                                        |s| {
                                            l2.data_mut().as_mut().fill(0x33);
                                            r2.data_mut().as_mut().fill(0x33);
                                            m.cnv_prepare_self(&mut l2, &mut r2, &a, mask, s);
                                            let mut o = bytes_of(&l2);
                                            o.extend(bytes_of(&r2));
                                            o
                                        },
                                    );
                                }
                                // leave a_prep/b_prep prepared with the last mask
                                for res_size in 1..=(pa_size + pb_size + 1) {
                                    for cnv_offset in 0..=(pa_size + pb_size) {
                                        let w2 = format!("{what} res_size={res_size} cnv_offset={cnv_offset}");
                                        run_all_fills::<BE, _>(
                                            &format!("cnv_apply_dft {w2}"),
                                            m.cnv_apply_dft_tmp_bytes(cnv_offset, res_size, pa_size, pb_size),
                                            |s| {
                                                let mut res = m.vec_znx_dft_alloc(2, res_size);
                                                res.data_mut().as_mut().fill(0x5A);
                                                m.cnv_apply_dft(cnv_offset, &mut res, 1, &a_prep, 0, &b_prep, 1, s);
                                                bytes_of(&res)
                                            },
                                        );
                                        for (i, j) in [(0usize, 0usize), (0, 1), (1, 1)] {
                                            run_all_fills::<BE, _>(
                                                &format!("cnv_pairwise_apply_dft {w2} i={i} j={j}"),
                                                // NOTE: the Module delegate swaps (cnv_offset, res_size) for this one query (already known):
                                                // pass them swapped so that the backend query sees the right values.
                                                m.cnv_pairwise_apply_dft_tmp_bytes(res_size, cnv_offset, pa_size, pb_size),
                                                |s| {
                                                    let mut res = m.vec_znx_dft_alloc(2, res_size);
                                                    res.data_mut().as_mut().fill(0x5A);
                                                    m.cnv_pairwise_apply_dft(cnv_offset, &mut res, 1, &a_prep, &b_prep, i, j, s);
                                                    bytes_of(&res)
                                                },
                                            );
                                        }
                                    }
                                }
                            }
                            // by-const
                            for res_size in 1..=(a_size + b_size + 1) {
                                for cnv_offset in 0..=(a_size + b_size) {
                                    let bc: Vec<i64> = (0..b_size).map(|_| source.next_i64() % 500).collect();
                                    let w2 = format!("n={n} a_size={a_size} b_len={b_size} res_size={res_size} cnv_offset={cnv_offset}");
                                    run_all_fills::<BE, _>(
                                        &format!("cnv_by_const_apply {w2}"),
                                        m.cnv_by_const_apply_tmp_bytes(cnv_offset, res_size, a_size, b_size),
                                        |s| {
                                            let mut res = make_big::<BE>(&m, 2, res_size, 30, &mut Source::new([7u8; 32]));
                                            m.cnv_by_const_apply(cnv_offset, &mut res, 1, &a, 0, &bc, s);
                                            bytes_of(&res)
                                        },
                                    );
                                }
                            }
                        }
                    }
                }
                });
            }
        }
    };
}

// fft64 vmp / convolution kernels assert n >= 8, ntt120 vmp asserts n >= 2 (library's own preconditions)
hal_prep_tests!(prep_fft64, FFT64Ref, 17, [2, 4, 8, 16, 32], [8, 16, 32], [8, 16, 32]);
hal_prep_tests!(prep_ntt120, NTT120Ref, 17, [1, 2, 4, 8, 16, 32], [2, 4, 8, 16], [1, 2, 4, 8, 16]);

#[allow(dead_code)]
fn _unused(_: Option<(CnvPVecL<Vec<u8>, FFT64Ref>, CnvPVecR<Vec<u8>, FFT64Ref>, VecZnxDft<Vec<u8>, FFT64Ref>, VmpPMat<Vec<u8>, FFT64Ref>)>) {
    let _ = <VecZnx<Vec<u8>> as ZnxInfos>::n;
}

/// Self-check of the harness: an "operation" whose output depends on the scratch bytes, and one that
/// needs one byte more than declared, must both be reported.
#[test]
fn harness_self_check() {
    let r = std::panic::catch_unwind(|| {
        collect(|| {
            run_all_fills::<FFT64Ref, _>("dirty read", 64, |s| {
                let (t, _) = s.take_slice::<u8>(8);
                t.to_vec()
            });
        })
    });
    assert!(r.is_err(), "harness failed to flag a scratch-content dependent result");
    let r = std::panic::catch_unwind(|| {
        collect(|| {
            run_all_fills::<FFT64Ref, _>("over-take", 64, |s| {
                let (_, s1) = s.take_slice::<u8>(8);
                let (t, _) = s1.take_slice::<u8>(8);
                t.len()
            });
        })
    });
    assert!(r.is_err(), "harness failed to flag an over-take (8 + align + 8 > 64 is false, but 8 + 56 pad + 8 = 72 > 64)");
}
