//! C12 (poulpy-core, evaluation family): exact-size, dirty scratch.
//!
//! Ciphertexts and keys hold uniformly random limbs (the scratch behaviour of the operations does
//! not depend on the data being valid encryptions). Every operation is run on a window of exactly
//! `*_tmp_bytes` bytes, pre-filled with 0x00 / 0xFF / pseudo-random bytes, and the outputs of the
//! three runs (+ one run with an oversized scratch) must be bit identical.

#![allow(clippy::too_many_arguments)]

mod c12_common;
use c12_common::*;

use std::collections::HashMap;

use poulpy_core::{api::*, layouts::*};
use poulpy_cpu_ref::{FFT64Ref, NTT120Ref};
use poulpy_hal::{
    api::*,
    layouts::{DeviceBuf, FillUniform, Module, ScratchOwned, WriterTo},
    source::Source,
};

fn ser<T: WriterTo>(x: &T) -> Vec<u8> {
    let mut v = Vec::new();
    x.write_to(&mut v).unwrap();
    v
}

/// (size, dnum, dsize) triples admissible for GGLWE::alloc: size > dsize, dnum * dsize <= size.
fn key_shapes(max_size: usize) -> Vec<(usize, usize, usize)> {
    let mut v = Vec::new();
    for size in 2..=max_size {
        for dsize in 1..size {
            for dnum in 1..=(size / dsize) {
                v.push((size, dnum, dsize));
            }
        }
    }
    v
}

macro_rules! core_ops_tests {
    ($modname:ident, $BE:ty, $ns:expr) => {
        mod $modname {
            use super::*;
            type BE = $BE;
            const NS: &[usize] = &$ns;
            const BIG: usize = 1 << 20;

            fn module(n: usize) -> Module<BE> {
                Module::<BE>::new(n as u64)
            }

            fn rand_glwe(n: usize, base2k: usize, k: usize, rank: usize, seed: u8) -> GLWE<Vec<u8>> {
                let mut ct = GLWE::alloc(n.into(), base2k.into(), k.into(), rank.into());
                ct.fill_uniform(base2k, &mut Source::new([seed; 32]));
                ct
            }

            fn rand_gglwe(n: usize, base2k: usize, k: usize, rank_in: usize, rank_out: usize, dnum: usize, dsize: usize, seed: u8) -> GGLWE<Vec<u8>> {
                let mut ct = GGLWE::alloc(n.into(), base2k.into(), k.into(), rank_in.into(), rank_out.into(), dnum.into(), dsize.into());
                ct.fill_uniform(base2k, &mut Source::new([seed; 32]));
                ct
            }

            fn rand_ggsw(n: usize, base2k: usize, k: usize, rank: usize, dnum: usize, dsize: usize, seed: u8) -> GGSW<Vec<u8>> {
                let mut ct = GGSW::alloc(n.into(), base2k.into(), k.into(), rank.into(), dnum.into(), dsize.into());
                ct.fill_uniform(base2k, &mut Source::new([seed; 32]));
                ct
            }

            fn rand_ksk_prepared(
                m: &Module<BE>,
                base2k: usize,
                k: usize,
                rank_in: usize,
                rank_out: usize,
                dnum: usize,
                dsize: usize,
                seed: u8,
            ) -> GLWESwitchingKeyPrepared<DeviceBuf<BE>, BE> {
                let mut ksk = GLWESwitchingKey::alloc(m.n().into(), base2k.into(), k.into(), rank_in.into(), rank_out.into(), dnum.into(), dsize.into());
                ksk.fill_uniform(base2k, &mut Source::new([seed; 32]));
                let mut p = m.glwe_switching_key_prepared_alloc_from_infos(&ksk);
                let mut s: ScratchOwned<BE> = ScratchOwned::alloc(BIG);
                m.glwe_switching_key_prepare(&mut p, &ksk, s.borrow());
                p
            }

            fn rand_atk_prepared(
                m: &Module<BE>,
                base2k: usize,
                k: usize,
                rank: usize,
                dnum: usize,
                dsize: usize,
                p: i64,
                seed: u8,
            ) -> GLWEAutomorphismKeyPrepared<DeviceBuf<BE>, BE> {
                let mut atk = GLWEAutomorphismKey::alloc(m.n().into(), base2k.into(), k.into(), rank.into(), dnum.into(), dsize.into());
                atk.fill_uniform(base2k, &mut Source::new([seed; 32]));
                atk.set_p(p);
                let mut prep = m.glwe_automorphism_key_prepared_alloc_from_infos(&atk);
                let mut s: ScratchOwned<BE> = ScratchOwned::alloc(BIG);
                m.glwe_automorphism_key_prepare(&mut prep, &atk, s.borrow());
                prep
            }

            fn rand_ggsw_prepared(
                m: &Module<BE>,
                base2k: usize,
                k: usize,
                rank: usize,
                dnum: usize,
                dsize: usize,
                seed: u8,
            ) -> GGSWPrepared<DeviceBuf<BE>, BE> {
                let ggsw = rand_ggsw(m.n(), base2k, k, rank, dnum, dsize, seed);
                let mut prep = m.ggsw_prepared_alloc_from_infos(&ggsw);
                let mut s: ScratchOwned<BE> = ScratchOwned::alloc(BIG);
                m.ggsw_prepare(&mut prep, &ggsw, s.borrow());
                prep
            }

            fn rand_g2g_prepared(
                m: &Module<BE>,
                base2k: usize,
                k: usize,
                rank: usize,
                dnum: usize,
                dsize: usize,
                seed: u8,
            ) -> GGLWEToGGSWKeyPrepared<DeviceBuf<BE>, BE> {
                let mut key = GGLWEToGGSWKey::alloc(m.n().into(), base2k.into(), k.into(), rank.into(), dnum.into(), dsize.into());
                key.fill_uniform(base2k, &mut Source::new([seed; 32]));
                let mut prep = m.gglwe_to_ggsw_key_prepared_alloc_from_infos(&key);
                let mut s: ScratchOwned<BE> = ScratchOwned::alloc(BIG);
                m.gglwe_to_ggsw_key_prepare(&mut prep, &key, s.borrow());
                prep
            }

            /// Observes a prepared GGLWE-like key through a key-switch of a fixed random GLWE.
            fn probe_gglwe<K: GGLWEPreparedToRef<BE> + GGLWEInfos>(m: &Module<BE>, key: &K) -> Vec<u8> {
                let b: usize = key.base2k().into();
                let a = rand_glwe(m.n(), b, b * key.size(), key.rank_in().into(), 77);
                let mut res = rand_glwe(m.n(), b, b * key.size(), key.rank_out().into(), 78);
                let mut s: ScratchOwned<BE> = ScratchOwned::alloc(BIG);
                m.glwe_keyswitch(&mut res, &a, key, s.borrow());
                ser(&res)
            }

            fn probe_ggsw<K: GGSWPreparedToRef<BE> + GGSWInfos>(m: &Module<BE>, key: &K) -> Vec<u8> {
                let b: usize = key.base2k().into();
                let a = rand_glwe(m.n(), b, b * key.size(), key.rank().into(), 77);
                let mut res = rand_glwe(m.n(), b, b * key.size(), key.rank().into(), 78);
                let mut s: ScratchOwned<BE> = ScratchOwned::alloc(BIG);
                m.glwe_external_product(&mut res, &a, key, s.borrow());
                ser(&res)
            }

            fn probe_g2g<K: GGLWEToGGSWKeyPreparedToRef<BE> + GGLWEInfos>(m: &Module<BE>, key: &K) -> Vec<u8> {
                let b: usize = key.base2k().into();
                let mut res = rand_ggsw(m.n(), b, b * key.size() - 1, key.rank_out().into(), key.dnum().into(), key.dsize().into(), 79);
                let mut s: ScratchOwned<BE> = ScratchOwned::alloc(BIG);
                m.ggsw_expand_row(&mut res, key, s.borrow());
                ser(&res)
            }

            #[test]
            fn prepare_family() {
                collect(|| {
                    for &n in NS {
                        let m = module(n);
                        let base2k = 13usize;
                        for (size, dnum, dsize) in key_shapes(4) {
                            let k = base2k * size - 2;
                            for rank_in in 1..=2usize {
                                for rank_out in 1..=2usize {
                                    let what = format!("n={n} size={size} dnum={dnum} dsize={dsize} rank_in={rank_in} rank_out={rank_out}");
                                    let g = rand_gglwe(n, base2k, k, rank_in, rank_out, dnum, dsize, 1);
                                    run_all_fills::<BE, _>(&format!("gglwe_prepare {what}"), m.gglwe_prepare_tmp_bytes(&g), |s| {
                                        let mut p = m.gglwe_prepared_alloc_from_infos(&g);
                                        m.gglwe_prepare(&mut p, &g, s);
                                        probe_gglwe(&m, &p)
                                    });
                                    let mut ksk = GLWESwitchingKey::alloc_from_infos(&g);
                                    ksk.fill_uniform(base2k, &mut Source::new([2u8; 32]));
                                    run_all_fills::<BE, _>(
                                        &format!("glwe_switching_key_prepare {what}"),
                                        m.glwe_switching_key_prepare_tmp_bytes(&ksk),
                                        |s| {
                                            let mut p = m.glwe_switching_key_prepared_alloc_from_infos(&ksk);
                                            m.glwe_switching_key_prepare(&mut p, &ksk, s);
                                            probe_gglwe(&m, &p)
                                        },
                                    );
                                }
                            }
                            for rank in 1..=2usize {
                                let what = format!("n={n} size={size} dnum={dnum} dsize={dsize} rank={rank}");
                                let g = rand_ggsw(n, base2k, k, rank, dnum, dsize, 1);
                                run_all_fills::<BE, _>(&format!("ggsw_prepare {what}"), m.ggsw_prepare_tmp_bytes(&g), |s| {
                                    let mut p = m.ggsw_prepared_alloc_from_infos(&g);
                                    m.ggsw_prepare(&mut p, &g, s);
                                    probe_ggsw(&m, &p)
                                });
                                let mut atk = GLWEAutomorphismKey::alloc(n.into(), base2k.into(), k.into(), rank.into(), dnum.into(), dsize.into());
                                atk.fill_uniform(base2k, &mut Source::new([3u8; 32]));
                                run_all_fills::<BE, _>(
                                    &format!("glwe_automorphism_key_prepare {what}"),
                                    m.glwe_automorphism_key_prepare_tmp_bytes(&atk),
                                    |s| {
                                        let mut p = m.glwe_automorphism_key_prepared_alloc_from_infos(&atk);
                                        m.glwe_automorphism_key_prepare(&mut p, &atk, s);
                                        probe_gglwe(&m, &p)
                                    },
                                );
                                let mut tsk = GLWETensorKey::alloc(n.into(), base2k.into(), k.into(), rank.into(), dnum.into(), dsize.into());
                                tsk.fill_uniform(base2k, &mut Source::new([4u8; 32]));
                                run_all_fills::<BE, _>(&format!("prepare_tensor_key {what}"), m.prepare_tensor_key_tmp_bytes(&tsk), |s| {
                                    let mut p = m.alloc_tensor_key_prepared_from_infos(&tsk);
                                    m.prepare_tensor_key(&mut p, &tsk, s);
                                    probe_gglwe(&m, &p)
                                });
                                let mut g2g = GGLWEToGGSWKey::alloc(n.into(), base2k.into(), k.into(), rank.into(), dnum.into(), dsize.into());
                                g2g.fill_uniform(base2k, &mut Source::new([5u8; 32]));
                                run_all_fills::<BE, _>(
                                    &format!("gglwe_to_ggsw_key_prepare {what}"),
                                    m.gglwe_to_ggsw_key_prepare_tmp_bytes(&g2g),
                                    |s| {
                                        let mut p = m.gglwe_to_ggsw_key_prepared_alloc_from_infos(&g2g);
                                        m.gglwe_to_ggsw_key_prepare(&mut p, &g2g, s);
                                        probe_g2g(&m, &p)
                                    },
                                );
                            }
                        }
                    }
                });
            }

            #[test]
            fn glwe_keyswitch_family() {
                collect(|| {
                    for &n in NS {
                        let m = module(n);
                        for (key_size, dnum, dsize) in key_shapes(5) {
                            for (a_b, key_b, res_b) in [(13usize, 13usize, 13usize), (12, 13, 11), (13, 12, 13), (17, 13, 13)] {
                                let k_key = key_b * key_size - 1;
                                for rank_in in 1..=2usize {
                                    for rank_out in 1..=2usize {
                                        let key = rand_ksk_prepared(&m, key_b, k_key, rank_in, rank_out, dnum, dsize, 1);
                                        for a_size in [1usize, 2, 4] {
                                            for res_size in [1usize, 3, 5] {
                                                let a = rand_glwe(n, a_b, a_b * a_size, rank_in, 2);
                                                let res0 = rand_glwe(n, res_b, res_b * res_size, rank_out, 3);
                                                let what = format!(
                                                    "n={n} key(size={key_size} dnum={dnum} dsize={dsize} b={key_b}) a(size={a_size} b={a_b}) res(size={res_size} b={res_b}) rank_in={rank_in} rank_out={rank_out}"
                                                );
                                                run_all_fills::<BE, _>(
                                                    &format!("glwe_keyswitch {what}"),
                                                    m.glwe_keyswitch_tmp_bytes(&res0, &a, &key),
                                                    |s| {
                                                        let mut res = res0.clone();
                                                        m.glwe_keyswitch(&mut res, &a, &key, s);
                                                        ser(&res)
                                                    },
                                                );
                                            }
                                            if rank_in == rank_out {
                                                let a = rand_glwe(n, a_b, a_b * a_size, rank_in, 2);
                                                let what = format!(
                                                    "n={n} key(size={key_size} dnum={dnum} dsize={dsize} b={key_b}) res(size={a_size} b={a_b}) rank={rank_in}"
                                                );
                                                run_all_fills::<BE, _>(
                                                    &format!("glwe_keyswitch_assign {what}"),
                                                    m.glwe_keyswitch_tmp_bytes(&a, &a, &key),
                                                    |s| {
                                                        let mut res = a.clone();
                                                        m.glwe_keyswitch_assign(&mut res, &key, s);
                                                        ser(&res)
                                                    },
                                                );
                                            }
                                        }
                                    }
                                }
                            }
                        }
                    }
                });
            }

            #[test]
            fn glwe_external_product_family() {
                collect(|| {
                    for &n in NS {
                        let m = module(n);
                        for (key_size, dnum, dsize) in key_shapes(5) {
                            for (a_b, key_b, res_b) in [(13usize, 13usize, 13usize), (12, 13, 11), (13, 12, 13), (17, 13, 13)] {
                                let k_key = key_b * key_size - 1;
                                for rank in 1..=2usize {
                                    let key = rand_ggsw_prepared(&m, key_b, k_key, rank, dnum, dsize, 1);
                                    for a_size in [1usize, 2, 4] {
                                        for res_size in [1usize, 3, 5] {
                                            let a = rand_glwe(n, a_b, a_b * a_size, rank, 2);
                                            let res0 = rand_glwe(n, res_b, res_b * res_size, rank, 3);
                                            let what = format!(
                                                "n={n} ggsw(size={key_size} dnum={dnum} dsize={dsize} b={key_b}) a(size={a_size} b={a_b}) res(size={res_size} b={res_b}) rank={rank}"
                                            );
                                            run_all_fills::<BE, _>(
                                                &format!("glwe_external_product {what}"),
                                                m.glwe_external_product_tmp_bytes(&res0, &a, &key),
                                                |s| {
                                                    let mut res = res0.clone();
                                                    m.glwe_external_product(&mut res, &a, &key, s);
                                                    ser(&res)
                                                },
                                            );
                                        }
                                        let a = rand_glwe(n, a_b, a_b * a_size, rank, 2);
                                        let what = format!(
                                            "n={n} ggsw(size={key_size} dnum={dnum} dsize={dsize} b={key_b}) res(size={a_size} b={a_b}) rank={rank}"
                                        );
                                        run_all_fills::<BE, _>(
                                            &format!("glwe_external_product_assign {what}"),
                                            m.glwe_external_product_tmp_bytes(&a, &a, &key),
                                            |s| {
                                                let mut res = a.clone();
                                                m.glwe_external_product_assign(&mut res, &key, s);
                                                ser(&res)
                                            },
                                        );
                                    }
                                }
                            }
                        }
                    }
                });
            }

            #[test]
            fn glwe_automorphism_family() {
                collect(|| {
                    for &n in NS {
                        let m = module(n);
                        for (key_size, dnum, dsize) in key_shapes(4) {
                            for (a_b, key_b, res_b) in [(13usize, 13usize, 13usize), (12, 13, 11), (13, 12, 13)] {
                                let k_key = key_b * key_size - 1;
                                for rank in 1..=2usize {
                                    for p in [-1i64, 5] {
                                        let key = rand_atk_prepared(&m, key_b, k_key, rank, dnum, dsize, p, 1);
                                        for a_size in [1usize, 3] {
                                            for res_size in [1usize, 2, 4] {
                                                let a = rand_glwe(n, a_b, a_b * a_size, rank, 2);
                                                let res0 = rand_glwe(n, res_b, res_b * res_size, rank, 3);
                                                let what = format!(
                                                    "n={n} p={p} key(size={key_size} dnum={dnum} dsize={dsize} b={key_b}) a(size={a_size} b={a_b}) res(size={res_size} b={res_b}) rank={rank}"
                                                );
                                                let tmp = m.glwe_automorphism_tmp_bytes(&res0, &a, &key);
                                                run_all_fills::<BE, _>(&format!("glwe_automorphism {what}"), tmp, |s| {
                                                    let mut res = res0.clone();
                                                    m.glwe_automorphism(&mut res, &a, &key, s);
                                                    ser(&res)
                                                });
                                                run_all_fills::<BE, _>(&format!("glwe_automorphism_add {what}"), tmp, |s| {
                                                    let mut res = res0.clone();
                                                    m.glwe_automorphism_add(&mut res, &a, &key, s);
                                                    ser(&res)
                                                });
                                                run_all_fills::<BE, _>(&format!("glwe_automorphism_sub {what}"), tmp, |s| {
                                                    let mut res = res0.clone();
                                                    m.glwe_automorphism_sub(&mut res, &a, &key, s);
                                                    ser(&res)
                                                });
                                                run_all_fills::<BE, _>(&format!("glwe_automorphism_sub_negate {what}"), tmp, |s| {
                                                    let mut res = res0.clone();
                                                    m.glwe_automorphism_sub_negate(&mut res, &a, &key, s);
                                                    ser(&res)
                                                });
                                            }
                                            let a = rand_glwe(n, a_b, a_b * a_size, rank, 2);
                                            let what = format!(
                                                "n={n} p={p} key(size={key_size} dnum={dnum} dsize={dsize} b={key_b}) res(size={a_size} b={a_b}) rank={rank}"
                                            );
                                            let tmp = m.glwe_automorphism_tmp_bytes(&a, &a, &key);
                                            run_all_fills::<BE, _>(&format!("glwe_automorphism_assign {what}"), tmp, |s| {
                                                let mut res = a.clone();
                                                m.glwe_automorphism_assign(&mut res, &key, s);
                                                ser(&res)
                                            });
                                            run_all_fills::<BE, _>(&format!("glwe_automorphism_add_assign {what}"), tmp, |s| {
                                                let mut res = a.clone();
                                                m.glwe_automorphism_add_assign(&mut res, &key, s);
                                                ser(&res)
                                            });
                                            run_all_fills::<BE, _>(&format!("glwe_automorphism_sub_assign {what}"), tmp, |s| {
                                                let mut res = a.clone();
                                                m.glwe_automorphism_sub_assign(&mut res, &key, s);
                                                ser(&res)
                                            });
                                            run_all_fills::<BE, _>(&format!("glwe_automorphism_sub_negate_assign {what}"), tmp, |s| {
                                                let mut res = a.clone();
                                                m.glwe_automorphism_sub_negate_assign(&mut res, &key, s);
                                                ser(&res)
                                            });
                                        }
                                    }
                                }
                            }
                        }
                    }
                });
            }

            #[test]
            fn gglwe_ggsw_key_level_family() {
                collect(|| {
                    for &n in NS {
                        let m = module(n);
                        for (key_size, dnum, dsize) in key_shapes(4) {
                            for (a_b, key_b) in [(13usize, 13usize), (12, 13), (13, 12)] {
                                let k_key = key_b * key_size - 1;
                                // operands: GGLWE / GGSW / automorphism keys of several shapes
                                for (a_size, a_dnum, a_dsize) in [(2usize, 1usize, 1usize), (3, 2, 1), (4, 2, 2), (4, 1, 3)] {
                                    let k_a = a_b * a_size - 1;
                                    for rank in 1..=2usize {
                                        let what = format!(
                                            "n={n} key(size={key_size} dnum={dnum} dsize={dsize} b={key_b}) a(size={a_size} dnum={a_dnum} dsize={a_dsize} b={a_b}) rank={rank}"
                                        );
                                        let ksk = rand_ksk_prepared(&m, key_b, k_key, rank, rank, dnum, dsize, 1);
                                        let ggsw_p = rand_ggsw_prepared(&m, key_b, k_key, rank, dnum, dsize, 2);
                                        let tsk = rand_g2g_prepared(&m, key_b, k_key, rank, dnum, dsize, 3);
                                        let atk = rand_atk_prepared(&m, key_b, k_key, rank, dnum, dsize, 5, 4);

                                        // ---- GGLWE
                                        let a = rand_gglwe(n, a_b, k_a, rank, rank, a_dnum, a_dsize, 5);
                                        for res_size in [a_size, a_size + 1] {
                                            let res0 = rand_gglwe(n, a_b, a_b * res_size - 1, rank, rank, a_dnum, a_dsize, 6);
                                            let w = format!("{what} res_size={res_size}");
                                            run_all_fills::<BE, _>(&format!("gglwe_keyswitch {w}"), m.gglwe_keyswitch_tmp_bytes(&res0, &a, &ksk), |s| {
                                                let mut res = res0.clone();
                                                m.gglwe_keyswitch(&mut res, &a, &ksk, s);
                                                ser(&res)
                                            });
                                            run_all_fills::<BE, _>(
                                                &format!("gglwe_external_product {w}"),
                                                m.gglwe_external_product_tmp_bytes(&res0, &a, &ggsw_p),
                                                |s| {
                                                    let mut res = res0.clone();
                                                    m.gglwe_external_product(&mut res, &a, &ggsw_p, s);
                                                    ser(&res)
                                                },
                                            );
                                        }
                                        run_all_fills::<BE, _>(&format!("gglwe_keyswitch_assign {what}"), m.gglwe_keyswitch_tmp_bytes(&a, &a, &ksk), |s| {
                                            let mut res = a.clone();
                                            m.gglwe_keyswitch_assign(&mut res, &ksk, s);
                                            ser(&res)
                                        });
                                        run_all_fills::<BE, _>(
                                            &format!("gglwe_external_product_assign {what}"),
                                            m.gglwe_external_product_tmp_bytes(&a, &a, &ggsw_p),
                                            |s| {
                                                let mut res = a.clone();
                                                m.gglwe_external_product_assign(&mut res, &ggsw_p, s);
                                                ser(&res)
                                            },
                                        );

                                        // ---- automorphism key (x) automorphism key
                                        let mut a_atk = GLWEAutomorphismKey::alloc(n.into(), a_b.into(), k_a.into(), rank.into(), a_dnum.into(), a_dsize.into());
                                        a_atk.fill_uniform(a_b, &mut Source::new([7u8; 32]));
                                        a_atk.set_p(3);
                                        run_all_fills::<BE, _>(
                                            &format!("glwe_automorphism_key_automorphism {what}"),
                                            m.glwe_automorphism_key_automorphism_tmp_bytes(&a_atk, &a_atk, &atk),
                                            |s| {
                                                let mut res = GLWEAutomorphismKey::alloc_from_infos(&a_atk);
                                                res.fill_uniform(a_b, &mut Source::new([8u8; 32]));
                                                m.glwe_automorphism_key_automorphism(&mut res, &a_atk, &atk, s);
                                                ser(&res)
                                            },
                                        );
                                        run_all_fills::<BE, _>(
                                            &format!("glwe_automorphism_key_automorphism_assign {what}"),
                                            m.glwe_automorphism_key_automorphism_tmp_bytes(&a_atk, &a_atk, &atk),
                                            |s| {
                                                let mut res = GLWEAutomorphismKey::alloc_from_infos(&a_atk);
                                                res.fill_uniform(a_b, &mut Source::new([7u8; 32]));
                                                res.set_p(3);
                                                m.glwe_automorphism_key_automorphism_assign(&mut res, &atk, s);
                                                ser(&res)
                                            },
                                        );

                                        // ---- GGSW
                                        let a = rand_ggsw(n, a_b, k_a, rank, a_dnum, a_dsize, 9);
                                        for res_size in [a_size, a_size + 1] {
                                            let res0 = rand_ggsw(n, a_b, a_b * res_size - 1, rank, a_dnum, a_dsize, 10);
                                            let w = format!("{what} res_size={res_size}");
                                            run_all_fills::<BE, _>(
                                                &format!("ggsw_keyswitch {w}"),
                                                m.ggsw_keyswitch_tmp_bytes(&res0, &a, &ksk, &tsk),
                                                |s| {
                                                    let mut res = res0.clone();
                                                    m.ggsw_keyswitch(&mut res, &a, &ksk, &tsk, s);
                                                    ser(&res)
                                                },
                                            );
                                            run_all_fills::<BE, _>(
                                                &format!("ggsw_external_product {w}"),
                                                m.ggsw_external_product_tmp_bytes(&res0, &a, &ggsw_p),
                                                |s| {
                                                    let mut res = res0.clone();
                                                    m.ggsw_external_product(&mut res, &a, &ggsw_p, s);
                                                    ser(&res)
                                                },
                                            );
                                            run_all_fills::<BE, _>(
                                                &format!("ggsw_automorphism {w}"),
                                                m.ggsw_automorphism_tmp_bytes(&res0, &a, &atk, &tsk),
                                                |s| {
                                                    let mut res = res0.clone();
                                                    m.ggsw_automorphism(&mut res, &a, &atk, &tsk, s);
                                                    ser(&res)
                                                },
                                            );
                                        }
                                        run_all_fills::<BE, _>(
                                            &format!("ggsw_keyswitch_assign {what}"),
                                            m.ggsw_keyswitch_tmp_bytes(&a, &a, &ksk, &tsk),
                                            |s| {
                                                let mut res = a.clone();
                                                m.ggsw_keyswitch_assign(&mut res, &ksk, &tsk, s);
                                                ser(&res)
                                            },
                                        );
                                        run_all_fills::<BE, _>(
                                            &format!("ggsw_external_product_assign {what}"),
                                            m.ggsw_external_product_tmp_bytes(&a, &a, &ggsw_p),
                                            |s| {
                                                let mut res = a.clone();
                                                m.ggsw_external_product_assign(&mut res, &ggsw_p, s);
                                                ser(&res)
                                            },
                                        );
                                        run_all_fills::<BE, _>(
                                            &format!("ggsw_automorphism_assign {what}"),
                                            m.ggsw_automorphism_tmp_bytes(&a, &a, &atk, &tsk),
                                            |s| {
                                                let mut res = a.clone();
                                                m.ggsw_automorphism_assign(&mut res, &atk, &tsk, s);
                                                ser(&res)
                                            },
                                        );
                                        // conversions GGLWE -> GGSW
                                        let g = rand_gglwe(n, a_b, k_a, 1, rank, a_dnum, a_dsize, 11);
                                        let res0 = rand_ggsw(n, a_b, k_a, rank, a_dnum, a_dsize, 12);
                                        run_all_fills::<BE, _>(&format!("ggsw_from_gglwe {what}"), m.ggsw_from_gglwe_tmp_bytes(&res0, &tsk), |s| {
                                            let mut res = res0.clone();
                                            m.ggsw_from_gglwe(&mut res, &g, &tsk, s);
                                            ser(&res)
                                        });
                                        run_all_fills::<BE, _>(&format!("ggsw_expand_row {what}"), m.ggsw_expand_rows_tmp_bytes(&res0, &tsk), |s| {
                                            let mut res = res0.clone();
                                            m.ggsw_expand_row(&mut res, &tsk, s);
                                            ser(&res)
                                        });
                                    }
                                }
                            }
                        }
                    }
                });
            }

            #[allow(dead_code)]
            fn _unused(_: HashMap<i64, i64>) {}
        }
    };
}

core_ops_tests!(ops_fft64, FFT64Ref, [8, 16]);
core_ops_tests!(ops_ntt120, NTT120Ref, [8, 16]);
core_ops_tests!(ops_ntt120_small_n, NTT120Ref, [2, 4]);
