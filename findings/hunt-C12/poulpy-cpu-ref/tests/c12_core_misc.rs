//! C12 (poulpy-core: trace / packing / LWE conversions / LWE key-switch / element-wise GLWE
//! operations / tensoring / noise / tensor decryption): exact-size, dirty scratch.

#![allow(clippy::too_many_arguments)]

mod c12_common;
use c12_common::*;

use std::collections::HashMap;

use poulpy_core::{GLWEPacker, api::*, glwe_packer_add, glwe_packer_flush, glwe_packer_tmp_bytes, layouts::*};
use poulpy_cpu_ref::{FFT64Ref, NTT120Ref};
use poulpy_hal::{
    api::*,
    layouts::{DeviceBuf, FillUniform, Module, ScratchOwned, WriterTo, ZnxView},
    source::Source,
};

fn ser<T: WriterTo>(x: &T) -> Vec<u8> {
    let mut v = Vec::new();
    x.write_to(&mut v).unwrap();
    v
}

macro_rules! core_misc_tests {
    ($modname:ident, $BE:ty, $ns:expr) => {
        mod $modname {
            use super::*;
            type BE = $BE;
            const NS: &[usize] = &$ns;
            const BIG: usize = 1 << 20;

            fn module(n: usize) -> Module<BE> {
                Module::<BE>::new(n as u64)
            }

            fn rand_glwe(n: usize, base2k: usize, k: usize, rank: usize, seed: u8) -> GLWE<Vec<u8>> {
                let mut ct = GLWE::alloc(n.into(), base2k.into(), k.into(), rank.into());
                ct.fill_uniform(base2k, &mut Source::new([seed; 32]));
                ct
            }

            fn rand_ksk_prepared(
                m: &Module<BE>,
                base2k: usize,
                k: usize,
                rank_in: usize,
                rank_out: usize,
                dnum: usize,
                dsize: usize,
                seed: u8,
            ) -> GLWESwitchingKeyPrepared<DeviceBuf<BE>, BE> {
                let mut ksk =
                    GLWESwitchingKey::alloc(m.n().into(), base2k.into(), k.into(), rank_in.into(), rank_out.into(), dnum.into(), dsize.into());
                ksk.fill_uniform(base2k, &mut Source::new([seed; 32]));
                let mut p = m.glwe_switching_key_prepared_alloc_from_infos(&ksk);
                let mut s: ScratchOwned<BE> = ScratchOwned::alloc(BIG);
                m.glwe_switching_key_prepare(&mut p, &ksk, s.borrow());
                p
            }

            fn rand_atks(
                m: &Module<BE>,
                base2k: usize,
                k: usize,
                rank: usize,
                dnum: usize,
                dsize: usize,
            ) -> HashMap<i64, GLWEAutomorphismKeyPrepared<DeviceBuf<BE>, BE>> {
                let mut map = HashMap::new();
                for (i, p) in m.glwe_trace_galois_elements().into_iter().enumerate() {
                    let mut atk = GLWEAutomorphismKey::alloc(m.n().into(), base2k.into(), k.into(), rank.into(), dnum.into(), dsize.into());
                    atk.fill_uniform(base2k, &mut Source::new([i as u8 + 40; 32]));
                    atk.set_p(p);
                    let mut prep = m.glwe_automorphism_key_prepared_alloc_from_infos(&atk);
                    let mut s: ScratchOwned<BE> = ScratchOwned::alloc(BIG);
                    m.glwe_automorphism_key_prepare(&mut prep, &atk, s.borrow());
                    map.insert(p, prep);
                }
                map
            }

            #[test]
            fn glwe_trace_family() {
                collect(|| {
                    for &n in NS {
                        let m = module(n);
                        let log_n = n.trailing_zeros() as usize;
                        for (key_size, dnum, dsize) in [(2usize, 1usize, 1usize), (3, 2, 1), (4, 3, 1), (4, 2, 2), (4, 1, 3)] {
                            for (a_b, key_b, res_b) in [(13usize, 13usize, 13usize), (12, 13, 13), (13, 13, 12), (12, 13, 11), (13, 12, 13)] {
                                for rank in 1..=2usize {
                                    let keys = rand_atks(&m, key_b, key_b * key_size - 1, rank, dnum, dsize);
                                    let key_infos = keys.automorphism_key_infos();
                                    for a_size in [1usize, 3] {
                                        for res_size in [1usize, 2, 4] {
                                            let a = rand_glwe(n, a_b, a_b * a_size, rank, 2);
                                            let res0 = rand_glwe(n, res_b, res_b * res_size, rank, 3);
                                            for skip in [0usize, 1, log_n] {
                                                let what = format!(
                                                    "n={n} skip={skip} key(size={key_size} dnum={dnum} dsize={dsize} b={key_b}) a(size={a_size} b={a_b}) res(size={res_size} b={res_b}) rank={rank}"
                                                );
                                                run_all_fills::<BE, _>(
                                                    &format!("glwe_trace {what}"),
                                                    m.glwe_trace_tmp_bytes(&res0, &a, &key_infos),
                                                    |s| {
                                                        let mut res = res0.clone();
                                                        m.glwe_trace(&mut res, skip, &a, &keys, s);
                                                        ser(&res)
                                                    },
                                                );
                                            }
                                        }
                                        let a = rand_glwe(n, a_b, a_b * a_size, rank, 2);
                                        for skip in [0usize, 1, log_n] {
                                            let what = format!(
                                                "n={n} skip={skip} key(size={key_size} dnum={dnum} dsize={dsize} b={key_b}) res(size={a_size} b={a_b}) rank={rank}"
                                            );
                                            run_all_fills::<BE, _>(
                                                &format!("glwe_trace_assign {what}"),
                                                m.glwe_trace_tmp_bytes(&a, &a, &key_infos),
                                                |s| {
                                                    let mut res = a.clone();
                                                    m.glwe_trace_assign(&mut res, skip, &keys, s);
                                                    ser(&res)
                                                },
                                            );
                                        }
                                    }
                                }
                            }
                        }
                    }
                });
            }

            #[test]
            fn glwe_pack_family() {
                collect(|| {
                    for &n in NS {
                        let m = module(n);
                        let log_n = n.trailing_zeros() as usize;
                        for (key_size, dnum, dsize) in [(2usize, 1usize, 1usize), (3, 2, 1), (4, 2, 2)] {
                            for (ct_b, key_b) in [(13usize, 13usize), (12, 13)] {
                                for rank in 1..=2usize {
                                    let keys = rand_atks(&m, key_b, key_b * key_size - 1, rank, dnum, dsize);
                                    let key_infos = keys.automorphism_key_infos();
                                    for ct_size in [1usize, 3] {
                                        let res0 = rand_glwe(n, ct_b, ct_b * ct_size, rank, 3);
                                        for log_gap_out in [0usize, 1] {
                                            if log_gap_out > log_n {
                                                continue;
                                            }
                                            for count in [1usize, 2, n] {
                                                let what = format!(
                                                    "n={n} log_gap_out={log_gap_out} count={count} key(size={key_size} dnum={dnum} dsize={dsize} b={key_b}) ct(size={ct_size} b={ct_b}) rank={rank}"
                                                );
                                                run_all_fills::<BE, _>(&format!("glwe_pack {what}"), m.glwe_pack_tmp_bytes(&res0, &key_infos), |s| {
                                                    let mut cts: Vec<GLWE<Vec<u8>>> =
                                                        (0..count).map(|i| rand_glwe(n, ct_b, ct_b * ct_size, rank, 50 + i as u8)).collect();
                                                    let mut map: HashMap<usize, &mut GLWE<Vec<u8>>> = HashMap::new();
                                                    for (i, ct) in cts.iter_mut().enumerate() {
                                                        map.insert(i * (n / count), ct);
                                                    }
                                                    let mut res = res0.clone();
                                                    m.glwe_pack(&mut res, map, log_gap_out, &keys, s);
                                                    ser(&res)
                                                });
                                            }
                                        }
                                        for log_batch in [0usize, 1] {
                                            if log_batch >= log_n {
                                                continue;
                                            }
                                            let what = format!(
                                                "n={n} log_batch={log_batch} key(size={key_size} dnum={dnum} dsize={dsize} b={key_b}) ct(size={ct_size} b={ct_b}) rank={rank}"
                                            );
                                            run_all_fills::<BE, _>(
                                                &format!("glwe_packer {what}"),
                                                glwe_packer_tmp_bytes::<_, _, _, BE>(&m, &res0, &key_infos),
                                                |s| {
                                                    let mut packer = GLWEPacker::alloc(&res0, log_batch);
                                                    for i in 0..(n >> log_batch) {
                                                        if i % 3 == 2 {
                                                            glwe_packer_add(&m, &mut packer, None::<&GLWE<Vec<u8>>>, &keys, s);
                                                        } else {
                                                            let ct = rand_glwe(n, ct_b, ct_b * ct_size, rank, 50 + i as u8);
                                                            glwe_packer_add(&m, &mut packer, Some(&ct), &keys, s);
                                                        }
                                                    }
                                                    let mut res = res0.clone();
                                                    glwe_packer_flush(&m, &mut packer, &mut res, s);
                                                    ser(&res)
                                                },
                                            );
                                        }
                                    }
                                }
                            }
                        }
                    }
                });
            }

            #[test]
            fn lwe_conversion_family() {
                collect(|| {
                    for &n in NS {
                        let m = module(n);
                        for (key_size, dnum, dsize) in [(2usize, 1usize, 1usize), (3, 2, 1), (4, 3, 1), (4, 2, 2)] {
                            for (lwe_b, key_b, glwe_b) in [(13usize, 13usize, 13usize), (12, 13, 13), (13, 13, 12), (12, 13, 11), (13, 12, 13)] {
                                let k_key = key_b * key_size - 1;
                                for n_lwe in [1usize, 3, n - 1, n] {
                                    for lwe_size in [1usize, 3] {
                                        for glwe_size in [1usize, 2, 4] {
                                            for rank in 1..=2usize {
                                                let what = format!(
                                                    "n={n} n_lwe={n_lwe} key(size={key_size} dnum={dnum} dsize={dsize} b={key_b}) lwe(size={lwe_size} b={lwe_b}) glwe(size={glwe_size} b={glwe_b}) rank={rank}"
                                                );
                                                let mut lwe = LWE::alloc(n_lwe.into(), lwe_b.into(), (lwe_b * lwe_size).into());
                                                lwe.fill_uniform(lwe_b, &mut Source::new([5u8; 32]));
                                                let glwe = rand_glwe(n, glwe_b, glwe_b * glwe_size, rank, 6);

                                                // LWE -> GLWE
                                                let key = rand_ksk_prepared(&m, key_b, k_key, 1, rank, dnum, dsize, 1);
                                                run_all_fills::<BE, _>(
                                                    &format!("glwe_from_lwe {what}"),
                                                    m.glwe_from_lwe_tmp_bytes(&glwe, &lwe, &key),
                                                    |s| {
                                                        let mut res = glwe.clone();
                                                        m.glwe_from_lwe(&mut res, &lwe, &key, s);
                                                        ser(&res)
                                                    },
                                                );
                                                // GLWE -> LWE
                                                let key = rand_ksk_prepared(&m, key_b, k_key, rank, 1, dnum, dsize, 2);
                                                for a_idx in [0usize, 1, n - 1] {
                                                    run_all_fills::<BE, _>(
                                                        &format!("lwe_from_glwe a_idx={a_idx} {what}"),
                                                        m.lwe_from_glwe_tmp_bytes(&lwe, &glwe, &key),
                                                        |s| {
                                                            let mut res = lwe.clone();
                                                            m.lwe_from_glwe(&mut res, &glwe, a_idx, &key, s);
                                                            ser(&res)
                                                        },
                                                    );
                                                }
                                            }
                                            // LWE -> LWE
                                            let what = format!(
                                                "n={n} n_lwe={n_lwe} key(size={key_size} dnum={dnum} dsize={dsize} b={key_b}) a(size={lwe_size} b={lwe_b}) res(size={glwe_size} b={glwe_b})"
                                            );
                                            let key = rand_ksk_prepared(&m, key_b, k_key, 1, 1, dnum, dsize, 3);
                                            let mut a = LWE::alloc(n_lwe.into(), lwe_b.into(), (lwe_b * lwe_size).into());
                                            a.fill_uniform(lwe_b, &mut Source::new([5u8; 32]));
                                            let mut res0 = LWE::alloc((n - n_lwe + 1).min(n).into(), glwe_b.into(), (glwe_b * glwe_size).into());
                                            res0.fill_uniform(glwe_b, &mut Source::new([7u8; 32]));
                                            run_all_fills::<BE, _>(&format!("lwe_keyswitch {what}"), m.lwe_keyswitch_tmp_bytes(&res0, &a, &key), |s| {
                                                let mut res = res0.clone();
                                                m.lwe_keyswitch(&mut res, &a, &key, s);
                                                ser(&res)
                                            });
                                        }
                                    }
                                }
                            }
                        }
                    }
                });
            }

            #[test]
            fn glwe_elementwise_family() {
                collect(|| {
                    for &n in NS {
                        let m = module(n);
                        for rank in 0..=2usize {
                            for size in 1..=3usize {
                                let base2k = 13usize;
                                let a = rand_glwe(n, base2k, base2k * size, rank, 2);
                                for k in [-(n as i64), -1, 0, 1, 3, 2 * n as i64 + 1] {
                                    let what = format!("n={n} rank={rank} size={size} k={k}");
                                    run_all_fills::<BE, _>(&format!("glwe_rotate_assign {what}"), m.glwe_rotate_tmp_bytes(), |s| {
                                        let mut res = a.clone();
                                        m.glwe_rotate_assign(k, &mut res, s);
                                        let mut oop = a.clone();
                                        m.glwe_rotate(k, &mut oop, &a);
                                        assert_eq!(ser(&oop), ser(&res), "glwe_rotate vs assign {what}");
                                        ser(&res)
                                    });
                                    run_all_fills::<BE, _>(&format!("glwe_mul_xp_minus_one_assign {what}"), m.glwe_rotate_tmp_bytes(), |s| {
                                        let mut res = a.clone();
                                        m.glwe_mul_xp_minus_one_assign(k, &mut res, s);
                                        let mut oop = a.clone();
                                        m.glwe_mul_xp_minus_one(k, &mut oop, &a);
                                        assert_eq!(ser(&oop), ser(&res), "glwe_mul_xp_minus_one vs assign {what}");
                                        ser(&res)
                                    });
                                }
                                for k in [0usize, 1, base2k, base2k + 3, 3 * base2k + 1] {
                                    for res_size in 1..=3usize {
                                        let res0 = rand_glwe(n, base2k, base2k * res_size, rank, 3);
                                        let what = format!("n={n} rank={rank} size={size} res_size={res_size} k={k}");
                                        run_all_fills::<BE, _>(&format!("glwe_lsh {what}"), m.glwe_shift_tmp_bytes(), |s| {
                                            let mut res = res0.clone();
                                            m.glwe_lsh(&mut res, &a, k, s);
                                            ser(&res)
                                        });
                                        run_all_fills::<BE, _>(&format!("glwe_lsh_add {what}"), m.glwe_shift_tmp_bytes(), |s| {
                                            let mut res = res0.clone();
                                            m.glwe_lsh_add(&mut res, &a, k, s);
                                            ser(&res)
                                        });
                                        run_all_fills::<BE, _>(&format!("glwe_lsh_sub {what}"), m.glwe_shift_tmp_bytes(), |s| {
                                            let mut res = res0.clone();
                                            m.glwe_lsh_sub(&mut res, &a, k, s);
                                            ser(&res)
                                        });
                                    }
                                    let what = format!("n={n} rank={rank} size={size} k={k}");
                                    run_all_fills::<BE, _>(&format!("glwe_rsh {what}"), m.glwe_shift_tmp_bytes(), |s| {
                                        let mut res = a.clone();
                                        m.glwe_rsh(k, &mut res, s);
                                        ser(&res)
                                    });
                                    run_all_fills::<BE, _>(&format!("glwe_lsh_assign {what}"), m.glwe_shift_tmp_bytes(), |s| {
                                        let mut res = a.clone();
                                        m.glwe_lsh_assign(&mut res, k, s);
                                        ser(&res)
                                    });
                                }
                                for (res_b, res_size) in [(13usize, 1usize), (13, 4), (11, 2), (17, 3)] {
                                    let res0 = rand_glwe(n, res_b, res_b * res_size, rank, 3);
                                    let what = format!("n={n} rank={rank} size={size} res_b={res_b} res_size={res_size}");
                                    run_all_fills::<BE, _>(&format!("glwe_normalize {what}"), m.glwe_normalize_tmp_bytes(), |s| {
                                        let mut res = res0.clone();
                                        m.glwe_normalize(&mut res, &a, s);
                                        ser(&res)
                                    });
                                }
                                run_all_fills::<BE, _>(&format!("glwe_normalize_assign n={n} rank={rank} size={size}"), m.glwe_normalize_tmp_bytes(), |s| {
                                    let mut res = a.clone();
                                    m.glwe_normalize_assign(&mut res, s);
                                    ser(&res)
                                });
                            }
                        }
                        for rank in 1..=2usize {
                            for (size, dnum, dsize) in [(2usize, 1usize, 1usize), (3, 2, 1), (4, 2, 2)] {
                                let base2k = 13usize;
                                let mut a = GGSW::alloc(n.into(), base2k.into(), (base2k * size - 1).into(), rank.into(), dnum.into(), dsize.into());
                                a.fill_uniform(base2k, &mut Source::new([9u8; 32]));
                                for k in [-1i64, 0, 3, 2 * n as i64 + 1] {
                                    let what = format!("ggsw_rotate_assign n={n} rank={rank} size={size} dnum={dnum} dsize={dsize} k={k}");
                                    run_all_fills::<BE, _>(&what, m.ggsw_rotate_tmp_bytes(), |s| {
                                        let mut res = a.clone();
                                        m.ggsw_rotate_assign(k, &mut res, s);
                                        let mut oop = a.clone();
                                        m.ggsw_rotate(k, &mut oop, &a);
                                        assert_eq!(ser(&oop), ser(&res), "{what}: in-place != out-of-place");
                                        ser(&res)
                                    });
                                }
                            }
                        }
                    }
                });
            }

            #[test]
            fn glwe_noise_decrypt_family() {
                collect(|| {
                    for &n in NS {
                        let m = module(n);
                        let base2k = 13usize;
                        for rank in 1..=2usize {
                            let mut sk = GLWESecret::alloc(n.into(), rank.into());
                            sk.fill_ternary_prob(0.5, &mut Source::new([1u8; 32]));
                            let mut skp = m.glwe_secret_prepared_alloc(rank.into());
                            m.glwe_secret_prepare(&mut skp, &sk);
                            for size in 1..=4usize {
                                let ct = rand_glwe(n, base2k, base2k * size, rank, 2);
                                for pt_size in [1usize, size, size + 1] {
                                    let mut pt = GLWEPlaintext::alloc(n.into(), base2k.into(), (base2k * pt_size).into());
                                    pt.data_mut().fill_uniform(base2k, &mut Source::new([3u8; 32]));
                                    let what = format!("n={n} rank={rank} size={size} pt_size={pt_size}");
                                    run_all_fills::<BE, _>(&format!("glwe_noise {what}"), m.glwe_noise_tmp_bytes(&ct), |s| {
                                        let st = m.glwe_noise(&ct, &pt, &skp, s);
                                        (st.max().to_bits(), st.std().to_bits())
                                    });
                                }
                            }
                            for (size, dnum, dsize) in [(2usize, 1usize, 1usize), (3, 2, 1), (4, 2, 2)] {
                                let k = base2k * size - 1;
                                let mut g = GGLWE::alloc(n.into(), base2k.into(), k.into(), rank.into(), rank.into(), dnum.into(), dsize.into());
                                g.fill_uniform(base2k, &mut Source::new([4u8; 32]));
                                let mut pt = poulpy_hal::layouts::ScalarZnx::alloc(n, rank);
                                pt.fill_uniform(2, &mut Source::new([5u8; 32]));
                                let what = format!("n={n} rank={rank} size={size} dnum={dnum} dsize={dsize}");
                                run_all_fills::<BE, _>(&format!("gglwe_noise {what}"), m.gglwe_noise_tmp_bytes(&g), |s| {
                                    let st = m.gglwe_noise(&g, dnum - 1, rank - 1, &pt, &skp, s);
                                    (st.max().to_bits(), st.std().to_bits())
                                });
                                let mut g = GGSW::alloc(n.into(), base2k.into(), k.into(), rank.into(), dnum.into(), dsize.into());
                                g.fill_uniform(base2k, &mut Source::new([4u8; 32]));
                                let mut pt = poulpy_hal::layouts::ScalarZnx::alloc(n, 1);
                                pt.fill_uniform(2, &mut Source::new([5u8; 32]));
                                for col in 0..=rank {
                                    run_all_fills::<BE, _>(&format!("ggsw_noise col={col} {what}"), m.ggsw_noise_tmp_bytes(&g), |s| {
                                        let st = m.ggsw_noise(&g, dnum - 1, col, &pt, &skp, s);
                                        (st.max().to_bits(), st.std().to_bits())
                                    });
                                }
                            }
                        }
                    }
                });
            }
            /// `glwe_tensor_apply_tmp_bytes` as it would be if the (already known) argument swap of the
            /// `cnv_pairwise_apply_dft_tmp_bytes` delegate were repaired: the library's own formula with the
            /// pairwise query evaluated on (res_size = pairwise_dft_size). Used only to look for defects
            /// *beyond* the known one.
            fn tensor_tmp_bytes_with_known_fix(m: &Module<BE>, rank: usize, res_size: usize, res_b: usize, a_size: usize, b_size: usize, in_b: usize, square: bool) -> usize {
                let n = m.n();
                let cols = rank + 1;
                let bound = |full: usize| full.min((res_size * res_b + in_b - 1).div_ceil(in_b));
                let dft_size = bound(a_size + b_size);
                let cnv_offset = a_size.min(b_size);
                let lvl_0 = m.bytes_of_cnv_pvec_left(cols, a_size) + m.bytes_of_cnv_pvec_right(cols, b_size);
                let apply = m.cnv_apply_dft_tmp_bytes(cnv_offset, dft_size, a_size, b_size);
                // swapped on purpose: the delegate swaps them back
                let pairwise = m.cnv_pairwise_apply_dft_tmp_bytes(dft_size, cnv_offset, a_size, b_size);
                let big_norm = m.vec_znx_big_normalize_tmp_bytes();
                if square {
                    let lvl_diag = poulpy_hal::layouts::VecZnx::<Vec<u8>>::bytes_of(n, cols, res_size);
                    let lvl_1 = m.cnv_prepare_self_tmp_bytes(a_size, a_size);
                    let lvl_2 = m.bytes_of_vec_znx_dft(1, dft_size) + apply.max(pairwise).max(big_norm);
                    lvl_0 + lvl_diag + lvl_1.max(lvl_2)
                } else {
                    let lvl_1 = m.cnv_prepare_left_tmp_bytes(a_size, a_size).max(m.cnv_prepare_right_tmp_bytes(b_size, b_size));
                    let tmp = poulpy_hal::layouts::VecZnx::<Vec<u8>>::bytes_of(n, 1, res_size) + big_norm;
                    let lvl_2 = m.bytes_of_vec_znx_dft(1, dft_size) + apply.max(pairwise).max(tmp);
                    lvl_0 + lvl_1.max(lvl_2)
                }
            }

            #[test]
            fn glwe_tensor_family() {
                collect(|| {
                    for &n in NS {
                        let m = module(n);
                        for rank in 1..=2usize {
                            // secret tensor preparation
                            let mut sk = GLWESecret::alloc(n.into(), rank.into());
                            sk.fill_ternary_prob(0.5, &mut Source::new([1u8; 32]));
                            let mut skp = m.glwe_secret_prepared_alloc(rank.into());
                            m.glwe_secret_prepare(&mut skp, &sk);
                            run_all_fills::<BE, _>(
                                &format!("glwe_secret_tensor_prepare n={n} rank={rank}"),
                                m.glwe_secret_tensor_prepare_tmp_bytes(rank.into()),
                                |s| {
                                    let mut skt = GLWESecretTensor::alloc(n.into(), rank.into());
                                    m.glwe_secret_tensor_prepare(&mut skt, &sk, s);
                                    {
                                        let mut v: Vec<i64> = Vec::new();
                                        for i in 0..rank {
                                            for j in i..rank {
                                                v.extend_from_slice(skt.at(i, j).raw());
                                            }
                                        }
                                        v
                                    }
                                },
                            );
                            let mut skt = GLWESecretTensor::alloc(n.into(), rank.into());
                            {
                                let mut s: ScratchOwned<BE> = ScratchOwned::alloc(BIG);
                                m.glwe_secret_tensor_prepare(&mut skt, &sk, s.borrow());
                            }
                            let mut sktp = m.glwe_secret_tensor_prepared_alloc(rank.into());
                            m.glwe_secret_tensor_prepared_prepare(&mut sktp, &skt);

                            for (in_b, res_b) in [(13usize, 13usize), (13, 11), (11, 13)] {
                                for a_size in [1usize, 2, 3] {
                                    for b_size in [1usize, 2, 3] {
                                        let a = rand_glwe(n, in_b, in_b * a_size, rank, 2);
                                        let b = rand_glwe(n, in_b, in_b * b_size, rank, 3);
                                        for res_size in [1usize, 2, 4] {
                                            let mut res0 = GLWETensor::alloc(n.into(), res_b.into(), (res_b * res_size).into(), rank.into());
                                            res0.fill_uniform(res_b, &mut Source::new([4u8; 32]));
                                            for cnv_offset in [0usize, 1, in_b, in_b + 3, 2 * in_b, 3 * in_b + 1] {
                                                // larger offsets underflow inside the convolution (not a scratch matter)
                                                if cnv_offset / in_b > a_size.min(b_size) {
                                                    continue;
                                                }
                                                let what = format!(
                                                    "n={n} rank={rank} in_b={in_b} res_b={res_b} a_size={a_size} b_size={b_size} res_size={res_size} cnv_offset={cnv_offset}"
                                                );
                                                let declared = m.glwe_tensor_apply_tmp_bytes(&res0, &a, &b);
                                                let tmp = tensor_tmp_bytes_with_known_fix(&m, rank, res_size, res_b, a_size, b_size, in_b, false).max(declared);
                                                run_all_fills::<BE, _>(&format!("glwe_tensor_apply {what}"), tmp, |s| {
                                                    let mut res = res0.clone();
                                                    m.glwe_tensor_apply(cnv_offset, &mut res, &a, in_b * a_size, &b, in_b * b_size, s);
                                                    res.data().raw().to_vec()
                                                });
                                                run_all_fills::<BE, _>(&format!("glwe_tensor_apply_add_assign {what}"), tmp, |s| {
                                                    let mut res = res0.clone();
                                                    m.glwe_tensor_apply_add_assign(cnv_offset, &mut res, &a, in_b * a_size, &b, in_b * b_size, s);
                                                    res.data().raw().to_vec()
                                                });
                                                if a_size == b_size {
                                                    run_all_fills::<BE, _>(
                                                        &format!("glwe_tensor_square_apply {what}"),
                                                        tensor_tmp_bytes_with_known_fix(&m, rank, res_size, res_b, a_size, a_size, in_b, true).max(m.glwe_tensor_square_apply_tmp_bytes(&res0, &a)),
                                                        |s| {
                                                            let mut res = res0.clone();
                                                            m.glwe_tensor_square_apply(cnv_offset, &mut res, &a, in_b * a_size, s);
                                                            res.data().raw().to_vec()
                                                        },
                                                    );
                                                }
                                            }
                                        }
                                    }
                                }
                            }

                            // relinearization + tensor decryption
                            for (a_b, key_b, res_b) in [(13usize, 13usize, 13usize), (12, 13, 13), (13, 13, 12), (12, 13, 11)] {
                                for (key_size, dnum, dsize) in [(2usize, 1usize, 1usize), (3, 2, 1), (4, 3, 1), (4, 2, 2), (5, 1, 3)] {
                                    let mut tsk = GLWETensorKey::alloc(n.into(), key_b.into(), (key_b * key_size - 1).into(), rank.into(), dnum.into(), dsize.into());
                                    tsk.fill_uniform(key_b, &mut Source::new([6u8; 32]));
                                    let mut tskp = m.alloc_tensor_key_prepared_from_infos(&tsk);
                                    {
                                        let mut s: ScratchOwned<BE> = ScratchOwned::alloc(BIG);
                                        m.prepare_tensor_key(&mut tskp, &tsk, s.borrow());
                                    }
                                    for a_size in [1usize, 2, 4] {
                                        let mut a = GLWETensor::alloc(n.into(), a_b.into(), (a_b * a_size).into(), rank.into());
                                        a.fill_uniform(a_b, &mut Source::new([7u8; 32]));
                                        for res_size in [1usize, 3] {
                                            let res0 = rand_glwe(n, res_b, res_b * res_size, rank, 8);
                                            for tsk_size in [key_size, key_size - 1] {
                                                // a shorter key prefix is only meaningful for dsize == 1 (set_size asserts otherwise)
                                                if tsk_size != key_size && dsize != 1 {
                                                    continue;
                                                }
                                                let what = format!(
                                                    "n={n} rank={rank} key(size={key_size} dnum={dnum} dsize={dsize} b={key_b}) a(size={a_size} b={a_b}) res(size={res_size} b={res_b}) tsk_size={tsk_size}"
                                                );
                                                run_all_fills::<BE, _>(
                                                    &format!("glwe_tensor_relinearize {what}"),
                                                    m.glwe_tensor_relinearize_tmp_bytes(&res0, &a, &tskp),
                                                    |s| {
                                                        let mut res = res0.clone();
                                                        m.glwe_tensor_relinearize(&mut res, &a, &tskp, tsk_size, s);
                                                        ser(&res)
                                                    },
                                                );
                                            }
                                        }
                                    }
                                }
                            }
                            for size in 1..=3usize {
                                let base2k = 13usize;
                                let mut ct = GLWETensor::alloc(n.into(), base2k.into(), (base2k * size).into(), rank.into());
                                ct.fill_uniform(base2k, &mut Source::new([9u8; 32]));
                                for pt_size in [1usize, size, size + 1] {
                                    let what = format!("glwe_tensor_decrypt n={n} rank={rank} size={size} pt_size={pt_size}");
                                    run_all_fills::<BE, _>(&what, m.glwe_tensor_decrypt_tmp_bytes(&ct), |s| {
                                        let mut pt = GLWEPlaintext::alloc(n.into(), base2k.into(), (base2k * pt_size).into());
                                        pt.data_mut().fill_uniform(base2k, &mut Source::new([3u8; 32]));
                                        m.glwe_tensor_decrypt(&ct, &mut pt, &skp, &sktp, s);
                                        pt.data().raw().to_vec()
                                    });
                                }
                            }
                        }
                    }
                });
            }
        }
    };
}

core_misc_tests!(misc_fft64, FFT64Ref, [8, 16]);
core_misc_tests!(misc_ntt120, NTT120Ref, [8, 16]);
core_misc_tests!(misc_ntt120_small_n, NTT120Ref, [2, 4]);
