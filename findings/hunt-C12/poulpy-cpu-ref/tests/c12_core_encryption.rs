//! C12 (poulpy-core, encryption family): exact-size, dirty scratch.
//!
//! For every `*_encrypt_*` operation the scratch is a window of exactly `*_tmp_bytes` bytes,
//! pre-filled with 0x00 / 0xFF / pseudo-random bytes. The operation must not panic and (with the
//! same PRNG seeds) must produce bit-identical ciphertexts for the three fills.

#![allow(clippy::too_many_arguments)]

mod c12_common;
use c12_common::*;

use poulpy_core::{EncryptionLayout, api::*, layouts::*};
use poulpy_cpu_ref::{FFT64Ref, NTT120Ref};
use poulpy_hal::{
    api::*,
    layouts::{FillUniform, Module, ScalarZnx, WriterTo},
    source::Source,
};

fn ser<T: WriterTo>(x: &T) -> Vec<u8> {
    let mut v = Vec::new();
    x.write_to(&mut v).unwrap();
    v
}

macro_rules! core_encryption_tests {
    ($modname:ident, $BE:ty, $ns:expr) => {
        mod $modname {
            use super::*;
            type BE = $BE;
            const NS: &[usize] = &$ns;

            fn module(n: usize) -> Module<BE> {
                Module::<BE>::new(n as u64)
            }

            fn sk_prep(m: &Module<BE>, rank: usize, seed: u8) -> (GLWESecret<Vec<u8>>, GLWESecretPrepared<poulpy_hal::layouts::DeviceBuf<BE>, BE>) {
                let mut sk = GLWESecret::alloc(m.n().into(), rank.into());
                sk.fill_ternary_prob(0.5, &mut Source::new([seed; 32]));
                let mut skp = m.glwe_secret_prepared_alloc(rank.into());
                m.glwe_secret_prepare(&mut skp, &sk);
                (sk, skp)
            }

            #[test]
            fn glwe_encrypt_sk_family() {
                collect(|| {
                    for &n in NS {
                        let m = module(n);
                        for base2k in [12usize, 17] {
                            for size in 1..=4usize {
                                for rank in 0..=3usize {
                                    let k = base2k * size - 1;
                                    let infos = EncryptionLayout::new_from_default_sigma(GLWELayout {
                                        n: n.into(),
                                        base2k: base2k.into(),
                                        k: k.into(),
                                        rank: rank.into(),
                                    })
                                    .unwrap();
                                    let (_sk, skp) = sk_prep(&m, rank, 1);
                                    for pt_size in [1, size, size + 1] {
                                        let mut pt = GLWEPlaintext::alloc(n.into(), base2k.into(), (base2k * pt_size).into());
                                        pt.data_mut().fill_uniform(base2k, &mut Source::new([2u8; 32]));
                                        let what = format!("n={n} base2k={base2k} size={size} rank={rank} pt_size={pt_size}");
                                        run_all_fills::<BE, _>(
                                            &format!("glwe_encrypt_sk {what}"),
                                            m.glwe_encrypt_sk_tmp_bytes(&infos),
                                            |s| {
                                                let mut ct = GLWE::alloc_from_infos(&infos);
                                                ct.fill_uniform(base2k, &mut Source::new([3u8; 32]));
                                                m.glwe_encrypt_sk(
                                                    &mut ct,
                                                    &pt,
                                                    &skp,
                                                    &infos,
                                                    &mut Source::new([4u8; 32]),
                                                    &mut Source::new([5u8; 32]),
                                                    s,
                                                );
                                                ser(&ct)
                                            },
                                        );
                                    }
                                    let what = format!("n={n} base2k={base2k} size={size} rank={rank}");
                                    run_all_fills::<BE, _>(
                                        &format!("glwe_encrypt_zero_sk {what}"),
                                        m.glwe_encrypt_sk_tmp_bytes(&infos),
                                        |s| {
                                            let mut ct = GLWE::alloc_from_infos(&infos);
                                            ct.fill_uniform(base2k, &mut Source::new([3u8; 32]));
                                            m.glwe_encrypt_zero_sk(
                                                &mut ct,
                                                &skp,
                                                &infos,
                                                &mut Source::new([4u8; 32]),
                                                &mut Source::new([5u8; 32]),
                                                s,
                                            );
                                            ser(&ct)
                                        },
                                    );
                                    let mut pt = GLWEPlaintext::alloc(n.into(), base2k.into(), k.into());
                                    pt.data_mut().fill_uniform(base2k, &mut Source::new([2u8; 32]));
                                    run_all_fills::<BE, _>(
                                        &format!("glwe_compressed_encrypt_sk {what}"),
                                        m.glwe_compressed_encrypt_sk_tmp_bytes(&infos),
                                        |s| {
                                            let mut ct = GLWECompressed::alloc_from_infos(&infos);
                                            m.glwe_compressed_encrypt_sk(
                                                &mut ct,
                                                &pt,
                                                &skp,
                                                [7u8; 32],
                                                &infos,
                                                &mut Source::new([4u8; 32]),
                                                s,
                                            );
                                            ser(&ct)
                                        },
                                    );
                                }
                            }
                        }
                    }
                });
            }

            #[test]
            fn glwe_encrypt_pk_family() {
                collect(|| {
                    for &n in NS {
                        let m = module(n);
                        for base2k in [12usize, 17] {
                            for pk_size in 1..=4usize {
                                for rank in 1..=2usize {
                                    let pk_infos = EncryptionLayout::new_from_default_sigma(GLWELayout {
                                        n: n.into(),
                                        base2k: base2k.into(),
                                        k: (base2k * pk_size).into(),
                                        rank: rank.into(),
                                    })
                                    .unwrap();
                                    let (_sk, skp) = sk_prep(&m, rank, 1);
                                    let mut pk = GLWEPublicKey::alloc_from_infos(&pk_infos);
                                    m.glwe_public_key_generate(
                                        &mut pk,
                                        &skp,
                                        &pk_infos,
                                        &mut Source::new([8u8; 32]),
                                        &mut Source::new([9u8; 32]),
                                    );
                                    let mut pkp = m.glwe_public_key_prepared_alloc_from_infos(&pk_infos);
                                    m.glwe_public_key_prepare(&mut pkp, &pk);
                                    // ct_size > pk_size is rejected by vec_znx_big_add_normal (noise limb outside pk) - not a scratch matter
                                    for ct_size in 1..=pk_size {
                                        let ct_infos = EncryptionLayout::new_from_default_sigma(GLWELayout {
                                            n: n.into(),
                                            base2k: base2k.into(),
                                            k: (base2k * ct_size).into(),
                                            rank: rank.into(),
                                        })
                                        .unwrap();
                                        let mut pt = GLWEPlaintext::alloc(n.into(), base2k.into(), (base2k * ct_size).into());
                                        pt.data_mut().fill_uniform(base2k, &mut Source::new([2u8; 32]));
                                        let what = format!("n={n} base2k={base2k} pk_size={pk_size} ct_size={ct_size} rank={rank}");
                                        run_all_fills::<BE, _>(
                                            &format!("glwe_encrypt_pk {what}"),
                                            m.glwe_encrypt_pk_tmp_bytes(&ct_infos),
                                            |s| {
                                                let mut ct = GLWE::alloc_from_infos(&ct_infos);
                                                ct.fill_uniform(base2k, &mut Source::new([3u8; 32]));
                                                m.glwe_encrypt_pk(
                                                    &mut ct,
                                                    &pt,
                                                    &pkp,
                                                    &ct_infos,
                                                    &mut Source::new([4u8; 32]),
                                                    &mut Source::new([5u8; 32]),
                                                    s,
                                                );
                                                ser(&ct)
                                            },
                                        );
                                        run_all_fills::<BE, _>(
                                            &format!("glwe_encrypt_zero_pk {what}"),
                                            m.glwe_encrypt_pk_tmp_bytes(&ct_infos),
                                            |s| {
                                                let mut ct = GLWE::alloc_from_infos(&ct_infos);
                                                ct.fill_uniform(base2k, &mut Source::new([3u8; 32]));
                                                m.glwe_encrypt_zero_pk(
                                                    &mut ct,
                                                    &pkp,
                                                    &ct_infos,
                                                    &mut Source::new([4u8; 32]),
                                                    &mut Source::new([5u8; 32]),
                                                    s,
                                                );
                                                ser(&ct)
                                            },
                                        );
                                    }
                                }
                            }
                        }
                    }
                });
            }

            /// (k, dnum, dsize) triples admissible for GGLWE::alloc: size > dsize, dnum * dsize <= size.
            fn gglwe_shapes(base2k: usize) -> Vec<(usize, usize, usize)> {
                let mut v = Vec::new();
                for size in 2..=5usize {
                    for dsize in 1..size {
                        for dnum in 1..=(size / dsize) {
                            v.push((base2k * size - 1, dnum, dsize));
                        }
                    }
                }
                v
            }

            #[test]
            fn gglwe_ggsw_encrypt_sk_family() {
                collect(|| {
                    for &n in NS {
                        let m = module(n);
                        let base2k = 13usize;
                        for (k, dnum, dsize) in gglwe_shapes(base2k) {
                            for rank_in in 1..=2usize {
                                for rank_out in 1..=2usize {
                                    let infos = EncryptionLayout::new_from_default_sigma(GGLWELayout {
                                        n: n.into(),
                                        base2k: base2k.into(),
                                        k: k.into(),
                                        rank_in: rank_in.into(),
                                        rank_out: rank_out.into(),
                                        dnum: dnum.into(),
                                        dsize: dsize.into(),
                                    })
                                    .unwrap();
                                    let (sk_out, skp_out) = sk_prep(&m, rank_out, 1);
                                    let (sk_in, _) = sk_prep(&m, rank_in, 2);
                                    let mut pt = ScalarZnx::alloc(n, rank_in);
                                    pt.fill_uniform(3, &mut Source::new([6u8; 32]));
                                    let what = format!("n={n} k={k} dnum={dnum} dsize={dsize} rank_in={rank_in} rank_out={rank_out}");
                                    run_all_fills::<BE, _>(&format!("gglwe_encrypt_sk {what}"), m.gglwe_encrypt_sk_tmp_bytes(&infos), |s| {
                                        let mut ct = GGLWE::alloc_from_infos(&infos);
                                        ct.fill_uniform(base2k, &mut Source::new([3u8; 32]));
                                        m.gglwe_encrypt_sk(
                                            &mut ct,
                                            &pt,
                                            &skp_out,
                                            &infos,
                                            &mut Source::new([4u8; 32]),
                                            &mut Source::new([5u8; 32]),
                                            s,
                                        );
                                        ser(&ct)
                                    });
                                    run_all_fills::<BE, _>(
                                        &format!("gglwe_compressed_encrypt_sk {what}"),
                                        m.gglwe_compressed_encrypt_sk_tmp_bytes(&infos),
                                        |s| {
                                            let mut ct = GGLWECompressed::alloc_from_infos(&infos);
                                            m.gglwe_compressed_encrypt_sk(
                                                &mut ct,
                                                &pt,
                                                &skp_out,
                                                [7u8; 32],
                                                &infos,
                                                &mut Source::new([4u8; 32]),
                                                s,
                                            );
                                            ser(&ct)
                                        },
                                    );
                                    run_all_fills::<BE, _>(
                                        &format!("glwe_switching_key_encrypt_sk {what}"),
                                        m.glwe_switching_key_encrypt_sk_tmp_bytes(&infos),
                                        |s| {
                                            let mut ct = GLWESwitchingKey::alloc_from_infos(&infos);
                                            m.glwe_switching_key_encrypt_sk(
                                                &mut ct,
                                                &sk_in,
                                                &sk_out,
                                                &infos,
                                                &mut Source::new([4u8; 32]),
                                                &mut Source::new([5u8; 32]),
                                                s,
                                            );
                                            ser(&ct)
                                        },
                                    );
                                    run_all_fills::<BE, _>(
                                        &format!("glwe_switching_key_compressed_encrypt_sk {what}"),
                                        m.glwe_switching_key_compressed_encrypt_sk_tmp_bytes(&infos),
                                        |s| {
                                            let mut ct = GLWESwitchingKeyCompressed::alloc_from_infos(&infos);
                                            m.glwe_switching_key_compressed_encrypt_sk(
                                                &mut ct,
                                                &sk_in,
                                                &sk_out,
                                                [7u8; 32],
                                                &infos,
                                                &mut Source::new([4u8; 32]),
                                                s,
                                            );
                                            ser(&ct)
                                        },
                                    );
                                }
                            }
                            for rank in 1..=2usize {
                                let what = format!("n={n} k={k} dnum={dnum} dsize={dsize} rank={rank}");
                                let (sk, skp) = sk_prep(&m, rank, 1);
                                let mut pt = ScalarZnx::alloc(n, 1);
                                pt.fill_uniform(3, &mut Source::new([6u8; 32]));

                                let ggsw_infos = EncryptionLayout::new_from_default_sigma(GGSWLayout {
                                    n: n.into(),
                                    base2k: base2k.into(),
                                    k: k.into(),
                                    rank: rank.into(),
                                    dnum: dnum.into(),
                                    dsize: dsize.into(),
                                })
                                .unwrap();
                                run_all_fills::<BE, _>(&format!("ggsw_encrypt_sk {what}"), m.ggsw_encrypt_sk_tmp_bytes(&ggsw_infos), |s| {
                                    let mut ct = GGSW::alloc_from_infos(&ggsw_infos);
                                    ct.fill_uniform(base2k, &mut Source::new([3u8; 32]));
                                    m.ggsw_encrypt_sk(
                                        &mut ct,
                                        &pt,
                                        &skp,
                                        &ggsw_infos,
                                        &mut Source::new([4u8; 32]),
                                        &mut Source::new([5u8; 32]),
                                        s,
                                    );
                                    ser(&ct)
                                });
                                run_all_fills::<BE, _>(
                                    &format!("ggsw_compressed_encrypt_sk {what}"),
                                    m.ggsw_compressed_encrypt_sk_tmp_bytes(&ggsw_infos),
                                    |s| {
                                        let mut ct = GGSWCompressed::alloc_from_infos(&ggsw_infos);
                                        m.ggsw_compressed_encrypt_sk(
                                            &mut ct,
                                            &pt,
                                            &skp,
                                            [7u8; 32],
                                            &ggsw_infos,
                                            &mut Source::new([4u8; 32]),
                                            s,
                                        );
                                        ser(&ct)
                                    },
                                );

                                let atk_infos = EncryptionLayout::new_from_default_sigma(GLWEAutomorphismKeyLayout {
                                    n: n.into(),
                                    base2k: base2k.into(),
                                    k: k.into(),
                                    rank: rank.into(),
                                    dnum: dnum.into(),
                                    dsize: dsize.into(),
                                })
                                .unwrap();
                                for p in [-1i64, 3, 5] {
                                    run_all_fills::<BE, _>(
                                        &format!("glwe_automorphism_key_encrypt_sk {what} p={p}"),
                                        m.glwe_automorphism_key_encrypt_sk_tmp_bytes(&atk_infos),
                                        |s| {
                                            let mut ct = GLWEAutomorphismKey::alloc_from_infos(&atk_infos);
                                            m.glwe_automorphism_key_encrypt_sk(
                                                &mut ct,
                                                p,
                                                &sk,
                                                &atk_infos,
                                                &mut Source::new([4u8; 32]),
                                                &mut Source::new([5u8; 32]),
                                                s,
                                            );
                                            ser(&ct)
                                        },
                                    );
                                    run_all_fills::<BE, _>(
                                        &format!("glwe_automorphism_key_compressed_encrypt_sk {what} p={p}"),
                                        m.glwe_automorphism_key_compressed_encrypt_sk_tmp_bytes(&atk_infos),
                                        |s| {
                                            let mut ct = GLWEAutomorphismKeyCompressed::alloc_from_infos(&atk_infos);
                                            m.glwe_automorphism_key_compressed_encrypt_sk(
                                                &mut ct,
                                                p,
                                                &sk,
                                                [7u8; 32],
                                                &atk_infos,
                                                &mut Source::new([4u8; 32]),
                                                s,
                                            );
                                            ser(&ct)
                                        },
                                    );
                                }

                                let tsk_infos = EncryptionLayout::new_from_default_sigma(GLWETensorKeyLayout {
                                    n: n.into(),
                                    base2k: base2k.into(),
                                    k: k.into(),
                                    rank: rank.into(),
                                    dnum: dnum.into(),
                                    dsize: dsize.into(),
                                })
                                .unwrap();
                                run_all_fills::<BE, _>(
                                    &format!("glwe_tensor_key_encrypt_sk {what}"),
                                    m.glwe_tensor_key_encrypt_sk_tmp_bytes(&tsk_infos),
                                    |s| {
                                        let mut ct = GLWETensorKey::alloc_from_infos(&tsk_infos);
                                        m.glwe_tensor_key_encrypt_sk(
                                            &mut ct,
                                            &sk,
                                            &tsk_infos,
                                            &mut Source::new([4u8; 32]),
                                            &mut Source::new([5u8; 32]),
                                            s,
                                        );
                                        ser(&ct)
                                    },
                                );
                                run_all_fills::<BE, _>(
                                    &format!("glwe_tensor_key_compressed_encrypt_sk {what}"),
                                    m.glwe_tensor_key_compressed_encrypt_sk_tmp_bytes(&tsk_infos),
                                    |s| {
                                        let mut ct = GLWETensorKeyCompressed::alloc_from_infos(&tsk_infos);
                                        m.glwe_tensor_key_compressed_encrypt_sk(
                                            &mut ct,
                                            &sk,
                                            [7u8; 32],
                                            &tsk_infos,
                                            &mut Source::new([4u8; 32]),
                                            s,
                                        );
                                        ser(&ct)
                                    },
                                );

                                let g2g_infos = EncryptionLayout::new_from_default_sigma(GGLWEToGGSWKeyLayout {
                                    n: n.into(),
                                    base2k: base2k.into(),
                                    k: k.into(),
                                    rank: rank.into(),
                                    dnum: dnum.into(),
                                    dsize: dsize.into(),
                                })
                                .unwrap();
                                run_all_fills::<BE, _>(
                                    &format!("gglwe_to_ggsw_key_encrypt_sk {what}"),
                                    GGLWEToGGSWKeyEncryptSk::gglwe_to_ggsw_key_encrypt_sk_tmp_bytes(&m, &g2g_infos),
                                    |s| {
                                        let mut ct = GGLWEToGGSWKey::alloc_from_infos(&g2g_infos);
                                        GGLWEToGGSWKeyEncryptSk::gglwe_to_ggsw_key_encrypt_sk(
                                            &m,
                                            &mut ct,
                                            &sk,
                                            &g2g_infos,
                                            &mut Source::new([4u8; 32]),
                                            &mut Source::new([5u8; 32]),
                                            s,
                                        );
                                        ser(&ct)
                                    },
                                );
                                run_all_fills::<BE, _>(
                                    &format!("gglwe_to_ggsw_key_compressed_encrypt_sk {what}"),
                                    GGLWEToGGSWKeyCompressedEncryptSk::gglwe_to_ggsw_key_encrypt_sk_tmp_bytes(&m, &g2g_infos),
                                    |s| {
                                        let mut ct = GGLWEToGGSWKeyCompressed::alloc_from_infos(&g2g_infos);
                                        GGLWEToGGSWKeyCompressedEncryptSk::gglwe_to_ggsw_key_encrypt_sk(
                                            &m,
                                            &mut ct,
                                            &sk,
                                            [7u8; 32],
                                            &g2g_infos,
                                            &mut Source::new([4u8; 32]),
                                            s,
                                        );
                                        ser(&ct)
                                    },
                                );
                            }
                        }
                    }
                });
            }

            #[test]
            fn lwe_keys_encrypt_sk_family() {
                collect(|| {
                    for &n in NS {
                        let m = module(n);
                        let base2k = 13usize;
                        for size in 2..=4usize {
                            for dnum in 1..size {
                                let k = base2k * size - 1;
                                for n_lwe in [1usize, 3, n.max(2) - 1, n] {
                                    if n_lwe > n {
                                        continue;
                                    }
                                    let mut sk_lwe = LWESecret::alloc(n_lwe.into());
                                    sk_lwe.fill_binary_prob(0.5, &mut Source::new([11u8; 32]));
                                    let mut sk_lwe2 = LWESecret::alloc(n_lwe.max(2).min(n).into());
                                    sk_lwe2.fill_binary_prob(0.5, &mut Source::new([12u8; 32]));
                                    for rank in 1..=2usize {
                                        let (sk, skp) = sk_prep(&m, rank, 1);
                                        let what = format!("n={n} n_lwe={n_lwe} k={k} dnum={dnum} rank={rank}");
                                        let infos = EncryptionLayout::new_from_default_sigma(GLWEToLWEKeyLayout {
                                            n: n.into(),
                                            base2k: base2k.into(),
                                            k: k.into(),
                                            rank_in: rank.into(),
                                            dnum: dnum.into(),
                                        })
                                        .unwrap();
                                        run_all_fills::<BE, _>(
                                            &format!("glwe_to_lwe_key_encrypt_sk {what}"),
                                            m.glwe_to_lwe_key_encrypt_sk_tmp_bytes(&infos),
                                            |s| {
                                                let mut ct = GLWEToLWEKey::alloc_from_infos(&infos);
                                                m.glwe_to_lwe_key_encrypt_sk(
                                                    &mut ct,
                                                    &sk_lwe,
                                                    &sk,
                                                    &infos,
                                                    &mut Source::new([4u8; 32]),
                                                    &mut Source::new([5u8; 32]),
                                                    s,
                                                );
                                                ser(&ct)
                                            },
                                        );
                                        let infos = EncryptionLayout::new_from_default_sigma(LWEToGLWEKeyLayout {
                                            n: n.into(),
                                            base2k: base2k.into(),
                                            k: k.into(),
                                            rank_out: rank.into(),
                                            dnum: dnum.into(),
                                        })
                                        .unwrap();
                                        run_all_fills::<BE, _>(
                                            &format!("lwe_to_glwe_key_encrypt_sk {what}"),
                                            m.lwe_to_glwe_key_encrypt_sk_tmp_bytes(&infos),
                                            |s| {
                                                let mut ct = LWEToGLWEKey::alloc_from_infos(&infos);
                                                m.lwe_to_glwe_key_encrypt_sk(
                                                    &mut ct,
                                                    &sk_lwe,
                                                    &skp,
                                                    &infos,
                                                    &mut Source::new([4u8; 32]),
                                                    &mut Source::new([5u8; 32]),
                                                    s,
                                                );
                                                ser(&ct)
                                            },
                                        );
                                    }
                                    let what = format!("n={n} n_lwe={n_lwe} k={k} dnum={dnum}");
                                    let infos = EncryptionLayout::new_from_default_sigma(LWESwitchingKeyLayout {
                                        n: n.into(),
                                        base2k: base2k.into(),
                                        k: k.into(),
                                        dnum: dnum.into(),
                                    })
                                    .unwrap();
                                    run_all_fills::<BE, _>(
                                        &format!("lwe_switching_key_encrypt_sk {what}"),
                                        m.lwe_switching_key_encrypt_sk_tmp_bytes(&infos),
                                        |s| {
                                            let mut ct = LWESwitchingKey::alloc_from_infos(&infos);
                                            m.lwe_switching_key_encrypt_sk(
                                                &mut ct,
                                                &sk_lwe,
                                                &sk_lwe2,
                                                &infos,
                                                &mut Source::new([4u8; 32]),
                                                &mut Source::new([5u8; 32]),
                                                s,
                                            );
                                            ser(&ct)
                                        },
                                    );
                                }
                            }
                        }
                    }
                });
            }

            #[test]
            fn lwe_encrypt_sk_exact() {
                collect(|| {
                    let m = module(NS[NS.len() - 1]);
                    let base2k = 13usize;
                    for n_lwe in [1usize, 2, 3, 7, 8, 9, 15, 16, 17, 31, 33, 77] {
                        for size in 1..=4usize {
                            let k = base2k * size - 1;
                            let infos = EncryptionLayout::new_from_default_sigma(LWELayout {
                                n: n_lwe.into(),
                                k: k.into(),
                                base2k: base2k.into(),
                            })
                            .unwrap();
                            let mut sk_lwe = LWESecret::alloc(n_lwe.into());
                            sk_lwe.fill_binary_prob(0.5, &mut Source::new([11u8; 32]));
                            for pt_size in [1, size, size + 2] {
                                let mut pt = LWEPlaintext::alloc(base2k.into(), (base2k * pt_size).into());
                                pt.data_mut().fill_uniform(base2k, &mut Source::new([2u8; 32]));
                                let what = format!("lwe_encrypt_sk n_lwe={n_lwe} size={size} pt_size={pt_size}");
                                run_all_fills::<BE, _>(&what, m.lwe_encrypt_sk_tmp_bytes(&infos), |s| {
                                    let mut ct = LWE::alloc_from_infos(&infos);
                                    m.lwe_encrypt_sk(
                                        &mut ct,
                                        &pt,
                                        &sk_lwe,
                                        &infos,
                                        &mut Source::new([4u8; 32]),
                                        &mut Source::new([5u8; 32]),
                                        s,
                                    );
                                    ser(&ct)
                                });
                            }
                        }
                    }
                });
            }
        }
    };
}

core_encryption_tests!(enc_fft64, FFT64Ref, [8, 16]);
core_encryption_tests!(enc_ntt120, NTT120Ref, [8, 16]);
// ring degrees whose per-polynomial byte size (8 n) is not a multiple of the 64-byte alignment
core_encryption_tests!(enc_ntt120_small_n, NTT120Ref, [2, 4]);
core_encryption_tests!(enc_fft64_small_n, FFT64Ref, [4]);
