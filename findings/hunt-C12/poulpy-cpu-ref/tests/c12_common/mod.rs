//! Shared harness for the C12 tests: exact-size scratch windows over a canary filled arena.
#![allow(dead_code)]

use poulpy_hal::{
    api::ScratchFromBytes,
    layouts::{Backend, Scratch},
};

const CANARY: u8 = 0xC7;
const GUARD: usize = 256;

#[derive(Clone, Copy, Debug, PartialEq, Eq)]
pub enum Fill {
    Zero,
    Ones,
    Rand,
}

pub struct Arena {
    buf: Vec<u8>,
    off: usize,
    len: usize,
}

impl Arena {
    pub fn new(len: usize, fill: Fill) -> Self {
        let mut buf: Vec<u8> = vec![CANARY; len + 2 * GUARD + 64];
        let base = buf.as_ptr() as usize;
        let off = (base + GUARD).next_multiple_of(64) - base;
        let mut x: u64 = 0x9E37_79B9_7F4A_7C15;
        for b in buf[off..off + len].iter_mut() {
            *b = match fill {
                Fill::Zero => 0,
                Fill::Ones => 0xFF,
                Fill::Rand => {
                    x ^= x << 13;
                    x ^= x >> 7;
                    x ^= x << 17;
                    (x >> 24) as u8
                }
            }
        }
        Self { buf, off, len }
    }

    pub fn scratch<BE: Backend>(&mut self) -> &mut Scratch<BE>
    where
        Scratch<BE>: ScratchFromBytes<BE>,
    {
        let (off, len) = (self.off, self.len);
        <Scratch<BE> as ScratchFromBytes<BE>>::from_bytes(&mut self.buf[off..off + len])
    }

    pub fn check(&self, what: &str) {
        assert!(self.buf[..self.off].iter().all(|b| *b == CANARY), "{what}: canary BEFORE scratch window overwritten");
        assert!(
            self.buf[self.off + self.len..].iter().all(|b| *b == CANARY),
            "{what}: canary AFTER scratch window overwritten"
        );
    }
}

thread_local! {
    static FAILS: std::cell::RefCell<Vec<String>> = const { std::cell::RefCell::new(Vec::new()) };
}

pub fn fail(msg: String) {
    FAILS.with(|f| f.borrow_mut().push(msg));
}

/// Runs a test body, then reports all collected failures at once.
pub fn collect(body: impl FnOnce()) {
    FAILS.with(|f| f.borrow_mut().clear());
    body();
    let fails = FAILS.with(|f| f.borrow().clone());
    if !fails.is_empty() {
        if let Ok(path) = std::env::var("C12_DUMP") {
            use std::io::Write;
            let mut f = std::fs::OpenOptions::new().create(true).append(true).open(path).unwrap();
            for l in fails.iter() {
                writeln!(f, "{l}").unwrap();
            }
        }
        for l in fails.iter().take(40) {
            eprintln!("FAIL: {l}");
        }
        panic!("{} failing configurations (first: {})", fails.len(), fails[0]);
    }
}

pub fn panic_msg(e: Box<dyn std::any::Any + Send>) -> String {
    e.downcast_ref::<String>()
        .cloned()
        .or_else(|| e.downcast_ref::<&str>().map(|s| s.to_string()))
        .unwrap_or_default()
}

/// Runs `f` with an exact-size scratch for the three fills (+ one oversized zero scratch) and
/// checks all the produced byte images agree.
pub fn run_all_fills<BE: Backend, O: PartialEq>(what: &str, tmp_bytes: usize, mut f: impl FnMut(&mut Scratch<BE>) -> O)
where
    Scratch<BE>: ScratchFromBytes<BE>,
{
    let mut outs: Vec<(String, O)> = Vec::new();
    for fill in [Fill::Zero, Fill::Ones, Fill::Rand] {
        let mut arena = Arena::new(tmp_bytes, fill);
        let r = std::panic::catch_unwind(std::panic::AssertUnwindSafe(|| f(arena.scratch::<BE>())));
        match r {
            Ok(o) => outs.push((format!("{fill:?}"), o)),
            Err(e) => {
                fail(format!("{what}: PANIC with exact scratch of {tmp_bytes} bytes (fill {fill:?}): {}", panic_msg(e)));
                // The declared size does not suffice: still check that the result does not depend on the
                // scratch content, on a generously oversized window.
                let big: usize = 4 * tmp_bytes + (1 << 18);
                let mut outs_big: Vec<O> = Vec::new();
                for fill in [Fill::Zero, Fill::Ones, Fill::Rand] {
                    let mut arena = Arena::new(big, fill);
                    match std::panic::catch_unwind(std::panic::AssertUnwindSafe(|| f(arena.scratch::<BE>()))) {
                        Ok(o) => outs_big.push(o),
                        Err(_) => return,
                    }
                    arena.check(what);
                }
                if outs_big[0] != outs_big[1] || outs_big[0] != outs_big[2] {
                    fail(format!("{what}: result depends on scratch content (oversized scratch)"));
                }
                return;
            }
        }
        arena.check(what);
    }
    {
        let mut arena = Arena::new(tmp_bytes + (1 << 16), Fill::Zero);
        let r = std::panic::catch_unwind(std::panic::AssertUnwindSafe(|| f(arena.scratch::<BE>())));
        match r {
            Ok(o) => outs.push(("Big".into(), o)),
            Err(e) => {
                fail(format!("{what}: PANIC with oversized scratch: {}", panic_msg(e)));
                return;
            }
        }
    }
    for i in 1..outs.len() {
        if outs[0].1 != outs[i].1 {
            fail(format!("{what}: result depends on scratch content/size ({} vs {})", outs[0].0, outs[i].0));
            return;
        }
    }
}

