//! C12 (poulpy-bin-fhe, bdd_arithmetic): CMux family, encrypted-index rotations / selection /
//! retrieval, word-level BDD circuits (single and multi-thread) and FheUint preparation, each with a
//! scratch window of exactly the number of bytes its companion query returns.

#![allow(clippy::too_many_arguments)]

#[path = "../../poulpy-cpu-ref/tests/c12_common/mod.rs"]
mod c12_common;
use c12_common::*;

use std::collections::HashMap;

use poulpy_bin_fhe::{
    bdd_arithmetic::{
        Add, BDDEncryptionInfos, BDDKey, BDDKeyEncryptSk, BDDKeyLayout, BDDKeyPrepared, BDDKeyPreparedFactory, Cmux, FheUint, FheUintPrepare, FheUintPrepared,
        GGSWBlindRotation, GLWEBlindRetriever, GLWEBlindRotation, GLWEBlindSelection, GetGGSWBit, Xor,
    },
    blind_rotation::{BlindRotationKeyLayout, CGGI},
    circuit_bootstrapping::CircuitBootstrappingKeyLayout,
};
use poulpy_core::{
    EncryptionLayout,
    layouts::{
        Dsize, GGLWEToGGSWKeyLayout, GGSW, GGSWLayout, GLWE, GLWEAutomorphismKeyLayout, GLWELayout, GLWESecret,
        GLWESecretPrepared, GLWESecretPreparedFactory, GLWESwitchingKeyLayout, GLWEToLWEKeyLayout, LWESecret,
    },
};
use poulpy_cpu_ref::{FFT64Ref, NTT120Ref};
use poulpy_hal::{
    api::*,
    layouts::{DeviceBuf, FillUniform, Module, ScalarZnx, ScratchOwned, WriterTo},
    source::Source,
};

fn ser<T: WriterTo>(x: &T) -> Vec<u8> {
    let mut v = Vec::new();
    x.write_to(&mut v).unwrap();
    v
}

macro_rules! bdd_tests {
    ($modname:ident, $BE:ty) => {
        mod $modname {
            use super::*;
            type BE = $BE;
            const BIG: usize = 1 << 23;
            const N: usize = 64;
            const RANK: usize = 2;
            const BASE2K: usize = 13;

            struct Ctx {
                m: Module<BE>,
                skp: GLWESecretPrepared<DeviceBuf<BE>, BE>,
                key: BDDKeyPrepared<DeviceBuf<BE>, CGGI, BE>,
                glwe_infos: GLWELayout,
                ggsw_infos: GGSWLayout,
            }

            fn key_layout(ks_glwe_k: usize) -> BDDKeyLayout {
                BDDKeyLayout {
                    cbt_layout: CircuitBootstrappingKeyLayout {
                        brk_layout: BlindRotationKeyLayout {
                            n_glwe: N.into(),
                            n_lwe: 21usize.into(),
                            base2k: 12usize.into(),
                            k: 52usize.into(),
                            dnum: 4usize.into(),
                            rank: RANK.into(),
                        },
                        atk_layout: GLWEAutomorphismKeyLayout {
                            n: N.into(),
                            base2k: 11usize.into(),
                            k: 52usize.into(),
                            rank: RANK.into(),
                            dnum: 4usize.into(),
                            dsize: Dsize(1),
                        },
                        tsk_layout: GGLWEToGGSWKeyLayout {
                            n: N.into(),
                            base2k: 10usize.into(),
                            k: 52usize.into(),
                            rank: RANK.into(),
                            dnum: 4usize.into(),
                            dsize: Dsize(1),
                        },
                    },
                    ks_glwe_layout: Some(GLWESwitchingKeyLayout {
                        n: N.into(),
                        base2k: 4usize.into(),
                        k: ks_glwe_k.into(),
                        rank_in: RANK.into(),
                        rank_out: 1usize.into(),
                        dnum: 3usize.into(),
                        dsize: Dsize(1),
                    }),
                    ks_lwe_layout: GLWEToLWEKeyLayout {
                        n: N.into(),
                        base2k: 4usize.into(),
                        k: 16usize.into(),
                        rank_in: 1usize.into(),
                        dnum: 3usize.into(),
                    },
                }
            }

            fn ctx() -> Ctx {
                let m = Module::<BE>::new(N as u64);
                let glwe_infos = GLWELayout {
                    n: N.into(),
                    base2k: BASE2K.into(),
                    k: 26usize.into(),
                    rank: RANK.into(),
                };
                let ggsw_infos = GGSWLayout {
                    n: N.into(),
                    base2k: BASE2K.into(),
                    k: 39usize.into(),
                    rank: RANK.into(),
                    dnum: 2usize.into(),
                    dsize: Dsize(1),
                };
                let layout = key_layout(20);
                let mut big: ScratchOwned<BE> = ScratchOwned::alloc(BIG);
                let mut sk = GLWESecret::alloc(N.into(), RANK.into());
                sk.fill_ternary_prob(0.5, &mut Source::new([1u8; 32]));
                let mut skp = m.glwe_secret_prepared_alloc(RANK.into());
                m.glwe_secret_prepare(&mut skp, &sk);
                let mut sk_lwe = LWESecret::alloc(21usize.into());
                sk_lwe.fill_binary_block(7, &mut Source::new([2u8; 32]));
                let mut key: BDDKey<Vec<u8>, CGGI> = BDDKey::alloc_from_infos(&layout);
                let enc = BDDEncryptionInfos::from_default_sigma(&layout).unwrap();
                key.encrypt_sk(&m, &sk_lwe, &sk, &enc, &mut Source::new([3u8; 32]), &mut Source::new([4u8; 32]), big.borrow());
                let mut keyp: BDDKeyPrepared<DeviceBuf<BE>, CGGI, BE> = BDDKeyPrepared::alloc_from_infos(&m, &layout);
                keyp.prepare(&m, &key, big.borrow());
                Ctx {
                    m,
                    skp,
                    key: keyp,
                    glwe_infos,
                    ggsw_infos,
                }
            }

            fn enc_u32(c: &Ctx, v: u32, seed: u8) -> FheUintPrepared<DeviceBuf<BE>, u32, BE> {
                let mut big: ScratchOwned<BE> = ScratchOwned::alloc(BIG);
                let enc = EncryptionLayout::new_from_default_sigma(c.ggsw_infos).unwrap();
                let mut p = FheUintPrepared::<DeviceBuf<BE>, u32, BE>::alloc_from_infos(&c.m, &c.ggsw_infos);
                p.encrypt_sk(&c.m, v, &c.skp, &enc, &mut Source::new([seed; 32]), &mut Source::new([seed + 1; 32]), big.borrow());
                p
            }

            fn rand_glwe(c: &Ctx, seed: u8) -> GLWE<Vec<u8>> {
                let mut ct = GLWE::alloc_from_infos(&c.glwe_infos);
                ct.fill_uniform(BASE2K, &mut Source::new([seed; 32]));
                ct
            }

            #[test]
            fn cmux_and_encrypted_index_ops() {
                collect(|| {
                    let c = ctx();
                    let m = &c.m;
                    let sel = enc_u32(&c, 0xA5C3_0F19, 10);
                    let (t, f) = (rand_glwe(&c, 1), rand_glwe(&c, 2));
                    let bit = sel.get_bit(3);
                    let cmux_tmp = m.cmux_tmp_bytes(&c.glwe_infos, &c.glwe_infos, &c.ggsw_infos);
                    run_all_fills::<BE, _>("cmux", cmux_tmp, |s| {
                        let mut res = rand_glwe(&c, 3);
                        m.cmux(&mut res, &t, &f, &bit, s);
                        ser(&res)
                    });
                    run_all_fills::<BE, _>("cmux_assign", cmux_tmp, |s| {
                        let mut res = t.clone();
                        m.cmux_assign(&mut res, &f, &bit, s);
                        ser(&res)
                    });
                    run_all_fills::<BE, _>("cmux_assign_neg (with cmux_tmp_bytes, its only companion query)", cmux_tmp, |s| {
                        let mut res = t.clone();
                        m.cmux_assign_neg(&mut res, &f, &bit, s);
                        ser(&res)
                    });

                    let rot_tmp = m.glwe_blind_rotation_tmp_bytes(&c.glwe_infos, &c.ggsw_infos);
                    for (sign, bit_rsh, bit_mask, bit_lsh) in [(true, 0usize, 3usize, 0usize), (false, 5, 4, 1), (true, 28, 4, 0)] {
                        let what = format!("sign={sign} bit_rsh={bit_rsh} bit_mask={bit_mask} bit_lsh={bit_lsh}");
                        run_all_fills::<BE, _>(&format!("glwe_blind_rotation {what}"), rot_tmp, |s| {
                            let mut res = rand_glwe(&c, 3);
                            m.glwe_blind_rotation(&mut res, &t, &sel, sign, bit_rsh, bit_mask, bit_lsh, s);
                            ser(&res)
                        });
                        run_all_fills::<BE, _>(&format!("glwe_blind_rotation_assign {what}"), rot_tmp, |s| {
                            let mut res = t.clone();
                            m.glwe_blind_rotation_assign(&mut res, &sel, sign, bit_rsh, bit_mask, bit_lsh, s);
                            ser(&res)
                        });
                        let mut a = GGSW::alloc_from_infos(&c.ggsw_infos);
                        a.fill_uniform(BASE2K, &mut Source::new([5u8; 32]));
                        run_all_fills::<BE, _>(
                            &format!("ggsw_blind_rotation {what}"),
                            <Module<BE> as GGSWBlindRotation<u32, BE>>::ggsw_to_ggsw_blind_rotation_tmp_bytes(m, &c.ggsw_infos, &c.ggsw_infos),
                            |s| {
                                let mut res = GGSW::alloc_from_infos(&c.ggsw_infos);
                                res.fill_uniform(BASE2K, &mut Source::new([6u8; 32]));
                                <Module<BE> as GGSWBlindRotation<u32, BE>>::ggsw_blind_rotation(m, &mut res, &a, &sel, sign, bit_rsh, bit_mask, bit_lsh, s);
                                ser(&res)
                            },
                        );
                        run_all_fills::<BE, _>(
                            &format!("ggsw_blind_rotation_assign {what}"),
                            <Module<BE> as GGSWBlindRotation<u32, BE>>::ggsw_to_ggsw_blind_rotation_tmp_bytes(m, &c.ggsw_infos, &c.ggsw_infos),
                            |s| {
                                let mut res = a.clone();
                                <Module<BE> as GGSWBlindRotation<u32, BE>>::ggsw_blind_rotation_assign(m, &mut res, &sel, sign, bit_rsh, bit_mask, bit_lsh, s);
                                ser(&res)
                            },
                        );
                        let mut tv = ScalarZnx::alloc(N, 1);
                        tv.fill_uniform(2, &mut Source::new([7u8; 32]));
                        run_all_fills::<BE, _>(
                            &format!("scalar_to_ggsw_blind_rotation {what}"),
                            <Module<BE> as GGSWBlindRotation<u32, BE>>::scalar_to_ggsw_blind_rotation_tmp_bytes(m, &c.ggsw_infos, &c.ggsw_infos),
                            |s| {
                                let mut res = GGSW::alloc_from_infos(&c.ggsw_infos);
                                res.fill_uniform(BASE2K, &mut Source::new([6u8; 32]));
                                <Module<BE> as GGSWBlindRotation<u32, BE>>::scalar_to_ggsw_blind_rotation(m, &mut res, &tv, &sel, sign, bit_rsh, bit_mask, bit_lsh, s);
                                ser(&res)
                            },
                        );
                    }

                    let sel_tmp = <Module<BE> as GLWEBlindSelection<u32, BE>>::glwe_blind_selection_tmp_bytes(m, &c.glwe_infos, &c.ggsw_infos);
                    for (bit_rsh, bit_mask, stride) in [(0usize, 3usize, 1usize), (4, 3, 3), (29, 3, 2), (2, 1, 1)] {
                        let what = format!("glwe_blind_selection bit_rsh={bit_rsh} bit_mask={bit_mask} stride={stride}");
                        run_all_fills::<BE, _>(&what, sel_tmp, |s| {
                            let mut cts: Vec<GLWE<Vec<u8>>> = (0..(1usize << bit_mask)).map(|i| rand_glwe(&c, 20 + i as u8)).collect();
                            let mut map: HashMap<usize, &mut GLWE<Vec<u8>>> = HashMap::new();
                            for (i, ct) in cts.iter_mut().enumerate() {
                                if i % stride == 0 {
                                    map.insert(i, ct);
                                }
                            }
                            let mut res = rand_glwe(&c, 3);
                            <Module<BE> as GLWEBlindSelection<u32, BE>>::glwe_blind_selection(m, &mut res, map, &sel, bit_rsh, bit_mask, s);
                            ser(&res)
                        });
                    }

                    for count in [1usize, 2, 3, 4, 7, 8] {
                        let what = format!("GLWEBlindRetriever::retrieve count={count}");
                        let data: Vec<GLWE<Vec<u8>>> = (0..count).map(|i| rand_glwe(&c, 20 + i as u8)).collect();
                        run_all_fills::<BE, _>(
                            &what,
                            GLWEBlindRetriever::retrieve_tmp_bytes::<_, _, _, BE>(m, &c.glwe_infos, &c.ggsw_infos),
                            |s| {
                                let mut retriever = GLWEBlindRetriever::alloc(&c.glwe_infos, 8);
                                let mut res = rand_glwe(&c, 3);
                                retriever.retrieve(m, &mut res, &data, &sel, 1, s);
                                ser(&res)
                            },
                        );
                    }
                });
            }

            #[test]
            fn word_level_circuits_and_prepare() {
                collect(|| {
                    let c = ctx();
                    let m = &c.m;
                    let a = enc_u32(&c, 0xA5C3_0F19, 10);
                    let b = enc_u32(&c, 0x1234_5678, 20);
                    let res0: FheUint<Vec<u8>, u32> = FheUint::alloc_from_infos(&c.glwe_infos);

                    run_all_fills::<BE, _>("FheUint::add", res0.add_tmp_bytes(m, &c.glwe_infos, &c.ggsw_infos, &c.key), |s| {
                        let mut res: FheUint<Vec<u8>, u32> = FheUint::alloc_from_infos(&c.glwe_infos);
                        res.add(m, &a, &b, &c.key, s);
                        let mut big: ScratchOwned<BE> = ScratchOwned::alloc(BIG);
                        res.decrypt(m, &c.skp, big.borrow())
                    });
                    run_all_fills::<BE, _>("FheUint::xor", res0.xor_tmp_bytes(m, &c.glwe_infos, &c.ggsw_infos, &c.key), |s| {
                        let mut res: FheUint<Vec<u8>, u32> = FheUint::alloc_from_infos(&c.glwe_infos);
                        res.xor(m, &a, &b, &c.key, s);
                        let mut big: ScratchOwned<BE> = ScratchOwned::alloc(BIG);
                        res.decrypt(m, &c.skp, big.borrow())
                    });
                    for threads in [1usize, 2, 3, 4] {
                        run_all_fills::<BE, _>(
                            &format!("FheUint::add_multi_thread threads={threads}"),
                            res0.add_multi_thread_tmp_bytes(m, threads, &c.glwe_infos, &c.ggsw_infos, &c.key),
                            |s| {
                                let mut res: FheUint<Vec<u8>, u32> = FheUint::alloc_from_infos(&c.glwe_infos);
                                res.add_multi_thread(threads, m, &a, &b, &c.key, s);
                                let mut big: ScratchOwned<BE> = ScratchOwned::alloc(BIG);
                                res.decrypt(m, &c.skp, big.borrow())
                            },
                        );
                    }

                    // FheUint -> FheUintPrepared (32 circuit bootstrappings)
                    let mut word: FheUint<Vec<u8>, u32> = FheUint::alloc_from_infos(&c.glwe_infos);
                    {
                        let mut big: ScratchOwned<BE> = ScratchOwned::alloc(BIG);
                        let enc = EncryptionLayout::new_from_default_sigma(c.glwe_infos).unwrap();
                        word.encrypt_sk(m, 0xDEAD_BEEFu32, &c.skp, &enc, &mut Source::new([8u8; 32]), &mut Source::new([9u8; 32]), big.borrow());
                    }
                    let per_thread = <Module<BE> as FheUintPrepare<CGGI, BE>>::fhe_uint_prepare_tmp_bytes(m, 7, 1, &c.ggsw_infos, &c.glwe_infos, &c.key);
                    for threads in [1usize, 2, 4] {
                        run_all_fills::<BE, _>(&format!("FheUintPrepared::prepare_custom_multi_thread threads={threads}"), threads * per_thread, |s| {
                            let mut p = FheUintPrepared::<DeviceBuf<BE>, u32, BE>::alloc_from_infos(m, &c.ggsw_infos);
                            p.prepare_custom_multi_thread(threads, m, &word, 0, 8, &c.key, s);
                            // observe the prepared bits through a CMux
                            let (t, f) = (rand_glwe(&c, 1), rand_glwe(&c, 2));
                            let mut big: ScratchOwned<BE> = ScratchOwned::alloc(BIG);
                            let mut out = Vec::new();
                            for i in 0..8 {
                                let mut res = rand_glwe(&c, 3);
                                m.cmux(&mut res, &t, &f, &p.get_bit(i), big.borrow());
                                out.extend(ser(&res));
                            }
                            out
                        });
                    }
                });
            }
            #[test]
            fn key_generation_exact_scratch() {
                collect(|| {
                    let m = Module::<BE>::new(N as u64);
                    let mut sk = GLWESecret::alloc(N.into(), RANK.into());
                    sk.fill_ternary_prob(0.5, &mut Source::new([1u8; 32]));
                    let mut sk_lwe = LWESecret::alloc(21usize.into());
                    sk_lwe.fill_binary_block(7, &mut Source::new([2u8; 32]));
                    for ks_glwe_k in [20usize, 40, 64, 100] {
                        let layout = key_layout(ks_glwe_k);
                        let enc = BDDEncryptionInfos::from_default_sigma(&layout).unwrap();
                        let mut key: BDDKey<Vec<u8>, CGGI> = BDDKey::alloc_from_infos(&layout);
                        run_all_fills::<BE, _>(
                            &format!("BDDKey::encrypt_sk ks_glwe_k={ks_glwe_k}"),
                            <Module<BE> as BDDKeyEncryptSk<CGGI, BE>>::bdd_key_encrypt_sk_tmp_bytes(&m, &layout),
                            |s| {
                                key.encrypt_sk(&m, &sk_lwe, &sk, &enc, &mut Source::new([3u8; 32]), &mut Source::new([4u8; 32]), s);
                                0u8
                            },
                        );
                        {
                            let mut big: ScratchOwned<BE> = ScratchOwned::alloc(BIG);
                            key.encrypt_sk(&m, &sk_lwe, &sk, &enc, &mut Source::new([3u8; 32]), &mut Source::new([4u8; 32]), big.borrow());
                        }
                        run_all_fills::<BE, _>(
                            &format!("BDDKeyPrepared::prepare ks_glwe_k={ks_glwe_k}"),
                            <Module<BE> as BDDKeyPreparedFactory<CGGI, BE>>::prepare_bdd_key_tmp_bytes(&m, &layout),
                            |s| {
                                let mut keyp: BDDKeyPrepared<DeviceBuf<BE>, CGGI, BE> = BDDKeyPrepared::alloc_from_infos(&m, &layout);
                                keyp.prepare(&m, &key, s);
                                0u8
                            },
                        );
                    }
                    // FheUint encrypt / decrypt
                    let glwe_infos = GLWELayout {
                        n: N.into(),
                        base2k: BASE2K.into(),
                        k: 26usize.into(),
                        rank: RANK.into(),
                    };
                    let mut skp = m.glwe_secret_prepared_alloc(RANK.into());
                    m.glwe_secret_prepare(&mut skp, &sk);
                    let enc = EncryptionLayout::new_from_default_sigma(glwe_infos).unwrap();
                    let word0: FheUint<Vec<u8>, u32> = FheUint::alloc_from_infos(&glwe_infos);
                    run_all_fills::<BE, _>("FheUint::encrypt_sk + decrypt", word0.encrypt_sk_tmp_bytes::<_, BE>(&m).max(word0.decrypt_tmp_bytes::<_, BE>(&m)), |s| {
                        let mut word: FheUint<Vec<u8>, u32> = FheUint::alloc_from_infos(&glwe_infos);
                        word.encrypt_sk(&m, 0xDEAD_BEEFu32, &skp, &enc, &mut Source::new([8u8; 32]), &mut Source::new([9u8; 32]), s);
                        let v: u32 = word.decrypt(&m, &skp, s);
                        assert_eq!(v, 0xDEAD_BEEF);
                        v
                    });
                });
            }
        }
    };
}

bdd_tests!(bdd_fft64, FFT64Ref);
bdd_tests!(bdd_ntt120, NTT120Ref);
