//! C12 (poulpy-bin-fhe): blind rotation and circuit bootstrapping with an exact-size, dirty scratch.

#![allow(clippy::too_many_arguments)]

#[path = "../../poulpy-cpu-ref/tests/c12_common/mod.rs"]
mod c12_common;
use c12_common::*;

use poulpy_bin_fhe::{
    blind_rotation::{
        BlindRotationKey, BlindRotationKeyEncryptSk, BlindRotationKeyLayout, BlindRotationKeyPrepared, CGGI, LookUpTableLayout,
        LookupTable,
    },
    circuit_bootstrapping::{
        CircuitBootstrappingEncryptionInfos, CircuitBootstrappingExecute, CircuitBootstrappingKey, CircuitBootstrappingKeyEncryptSk,
        CircuitBootstrappingKeyLayout, CircuitBootstrappingKeyPrepared,
    },
};
use poulpy_core::{
    EncryptionLayout,
    layouts::{
        Dsize, GGLWEToGGSWKeyLayout, GGSW, GGSWLayout, GLWE, GLWEAutomorphismKeyLayout, GLWELayout, GLWESecret,
        GLWESecretPreparedFactory, LWE, LWELayout, LWEPlaintext, LWESecret,
    },
};
use poulpy_cpu_ref::{FFT64Ref, NTT120Ref};
use poulpy_hal::{
    api::*,
    layouts::{DeviceBuf, FillUniform, Module, ScratchOwned, WriterTo},
    source::Source,
};

fn ser<T: WriterTo>(x: &T) -> Vec<u8> {
    let mut v = Vec::new();
    x.write_to(&mut v).unwrap();
    v
}

macro_rules! binfhe_tests {
    ($modname:ident, $BE:ty, $ns:expr) => {
        mod $modname {
            use super::*;
            type BE = $BE;
            const NS: &[usize] = &$ns;
            const BIG: usize = 1 << 22;

            fn module(n: usize) -> Module<BE> {
                Module::<BE>::new(n as u64)
            }

            #[test]
            fn blind_rotation_exact_scratch() {
                collect(|| {
                    for &n in NS {
                        let m = module(n);
                        let base2k = 15usize;
                        for rank in 1..=3usize {
                            for (brk_size, dnum) in [(2usize, 1usize), (3, 2), (4, 3), (4, 1), (4, 4), (6, 6)] {
                                for (n_lwe, block_size) in [(6usize, 1usize), (6, 2), (6, 3), (7, 7), (8, 4)] {
                                    let mut sk_glwe = GLWESecret::alloc(n.into(), rank.into());
                                    sk_glwe.fill_ternary_prob(0.5, &mut Source::new([2u8; 32]));
                                    let mut sk_glwe_dft = m.glwe_secret_prepared_alloc(rank.into());
                                    m.glwe_secret_prepare(&mut sk_glwe_dft, &sk_glwe);
                                    let mut sk_lwe = LWESecret::alloc(n_lwe.into());
                                    sk_lwe.fill_binary_block(block_size, &mut Source::new([3u8; 32]));

                                    let brk_infos = EncryptionLayout::new_from_default_sigma(BlindRotationKeyLayout {
                                        n_glwe: n.into(),
                                        n_lwe: n_lwe.into(),
                                        base2k: base2k.into(),
                                        k: (brk_size * base2k).into(),
                                        dnum: dnum.into(),
                                        rank: rank.into(),
                                    })
                                    .unwrap();
                                    let mut big: ScratchOwned<BE> = ScratchOwned::alloc(BIG);
                                    let mut brk: BlindRotationKey<Vec<u8>, CGGI> = BlindRotationKey::<Vec<u8>, CGGI>::alloc(&brk_infos);
                                    m.blind_rotation_key_encrypt_sk(
                                        &mut brk,
                                        &sk_glwe_dft,
                                        &sk_lwe,
                                        &brk_infos,
                                        &mut Source::new([4u8; 32]),
                                        &mut Source::new([5u8; 32]),
                                        big.borrow(),
                                    );
                                    let mut brk_prepared: BlindRotationKeyPrepared<DeviceBuf<BE>, CGGI, BE> =
                                        BlindRotationKeyPrepared::alloc(&m, &brk);
                                    brk_prepared.prepare(&m, &brk, big.borrow());

                                    let mut lwe = LWE::alloc(n_lwe.into(), base2k.into(), (2 * base2k).into());
                                    lwe.fill_uniform(base2k, &mut Source::new([6u8; 32]));

                                    for extension_factor in [1usize, 2, 4] {
                                        if extension_factor > 1 && block_size == 1 {
                                            // extended rotation with block_size 1 takes the block-binary code path but the
                                            // query is asked with block_size = 1: tested separately below
                                        }
                                        let lut_infos = LookUpTableLayout {
                                            n: n.into(),
                                            extension_factor,
                                            k: base2k.into(),
                                            base2k: base2k.into(),
                                        };
                                        let mut lut = LookupTable::alloc(&lut_infos);
                                        let f: Vec<i64> = (0..8).map(|i| 2 * i + 1).collect();
                                        lut.set(&m, &f, 4);
                                        for res_size in [1usize, 2, brk_size, brk_size + 1] {
                                            let glwe_infos = GLWELayout {
                                                n: n.into(),
                                                base2k: base2k.into(),
                                                k: (res_size * base2k).into(),
                                                rank: rank.into(),
                                            };
                                            let what = format!(
                                                "blind_rotation n={n} rank={rank} brk(size={brk_size} dnum={dnum}) n_lwe={n_lwe} block_size={block_size} ext={extension_factor} res_size={res_size}"
                                            );
                                            let tmp = BlindRotationKeyPrepared::<DeviceBuf<BE>, CGGI, BE>::execute_tmp_bytes(
                                                &m,
                                                block_size,
                                                extension_factor,
                                                &glwe_infos,
                                                &brk_infos,
                                            );
                                            run_all_fills::<BE, _>(&what, tmp, |s| {
                                                let mut res = GLWE::alloc_from_infos(&glwe_infos);
                                                res.fill_uniform(base2k, &mut Source::new([7u8; 32]));
                                                brk_prepared.execute(&m, &mut res, &lwe, &lut, s);
                                                ser(&res)
                                            });
                                        }
                                    }
                                }
                            }
                        }
                    }
                });
            }

            fn cbt_setup(
                m: &Module<BE>,
                rank: usize,
                n_lwe: usize,
                block_size: usize,
                res_base2k: usize,
                brk_base2k: usize,
                atk_base2k: usize,
                tsk_base2k: usize,
                k_res: usize,
                dnum_res: usize,
                dnum_keys: usize,
            ) -> (CircuitBootstrappingKeyPrepared<DeviceBuf<BE>, CGGI, BE>, GGSWLayout) {
                let n = m.n();
                let cbt_infos = CircuitBootstrappingKeyLayout {
                    brk_layout: BlindRotationKeyLayout {
                        n_glwe: n.into(),
                        n_lwe: n_lwe.into(),
                        base2k: brk_base2k.into(),
                        k: (k_res + brk_base2k).into(),
                        dnum: dnum_keys.into(),
                        rank: rank.into(),
                    },
                    atk_layout: GLWEAutomorphismKeyLayout {
                        n: n.into(),
                        base2k: atk_base2k.into(),
                        k: (k_res + atk_base2k).into(),
                        dnum: dnum_keys.into(),
                        rank: rank.into(),
                        dsize: Dsize(1),
                    },
                    tsk_layout: GGLWEToGGSWKeyLayout {
                        n: n.into(),
                        base2k: tsk_base2k.into(),
                        k: (k_res + tsk_base2k).into(),
                        dnum: dnum_keys.into(),
                        dsize: Dsize(1),
                        rank: rank.into(),
                    },
                };
                let ggsw_infos = GGSWLayout {
                    n: n.into(),
                    base2k: res_base2k.into(),
                    k: k_res.into(),
                    dnum: dnum_res.into(),
                    dsize: Dsize(1),
                    rank: rank.into(),
                };
                let mut sk_lwe = LWESecret::alloc(n_lwe.into());
                sk_lwe.fill_binary_block(block_size, &mut Source::new([1u8; 32]));
                let mut sk_glwe = GLWESecret::alloc(n.into(), rank.into());
                sk_glwe.fill_ternary_prob(0.5, &mut Source::new([2u8; 32]));
                let mut big: ScratchOwned<BE> = ScratchOwned::alloc(BIG);
                let mut cbt_key: CircuitBootstrappingKey<Vec<u8>, CGGI> = CircuitBootstrappingKey::alloc_from_infos(&cbt_infos);
                let enc = CircuitBootstrappingEncryptionInfos::from_default_sigma(&cbt_infos).unwrap();
                m.circuit_bootstrapping_key_encrypt_sk(
                    &mut cbt_key,
                    &sk_lwe,
                    &sk_glwe,
                    &enc,
                    &mut Source::new([3u8; 32]),
                    &mut Source::new([4u8; 32]),
                    big.borrow(),
                );
                let mut prep: CircuitBootstrappingKeyPrepared<DeviceBuf<BE>, CGGI, BE> =
                    CircuitBootstrappingKeyPrepared::alloc_from_infos(m, &cbt_infos);
                prep.prepare(m, &cbt_key, big.borrow());
                (prep, ggsw_infos)
            }

            #[test]
            fn circuit_bootstrapping_exact_scratch() {
                collect(|| {
                    for &n in NS {
                        if n < 32 {
                            continue;
                        }
                        let m = module(n);
                        for rank in 1..=2usize {
                            for (res_b, brk_b, atk_b, tsk_b) in [(15usize, 15usize, 15usize, 15usize), (15, 13, 11, 12)] {
                                for (n_lwe, block_size) in [(6usize, 1usize), (6, 3)] {
                                    for (k_res_limbs, dnum_res, dnum_keys) in [(2usize, 1usize, 2usize), (3, 2, 3), (4, 3, 4)] {
                                        let k_res = k_res_limbs * res_b;
                                        let (key, ggsw_infos) =
                                            cbt_setup(&m, rank, n_lwe, block_size, res_b, brk_b, atk_b, tsk_b, k_res, dnum_res, dnum_keys);
                                        let mut lwe = LWE::alloc(n_lwe.into(), 14usize.into(), 22usize.into());
                                        lwe.fill_uniform(14, &mut Source::new([6u8; 32]));
                                        let _ = LWEPlaintext::alloc(14usize.into(), 4usize.into());
                                        let _ = LWELayout {
                                            n: n_lwe.into(),
                                            k: 22usize.into(),
                                            base2k: 14usize.into(),
                                        };
                                        for extension_factor in [1usize, 2] {
                                            if extension_factor > 1 && block_size == 1 {
                                                continue;
                                            }
                                            for log_domain in [1usize, 2, 3] {
                                                // the LUT must fit the ring: 2^log_domain * next_pow2(dnum_res) <= n * ext (library assertion on `gap`)
                                                if (1usize << log_domain) * dnum_res.next_power_of_two() * 2 > n * extension_factor {
                                                    continue;
                                                }
                                                let what = format!(
                                                    "n={n} rank={rank} b(res={res_b} brk={brk_b} atk={atk_b} tsk={tsk_b}) n_lwe={n_lwe} block_size={block_size} k_res_limbs={k_res_limbs} dnum_res={dnum_res} dnum_keys={dnum_keys} ext={extension_factor} log_domain={log_domain}"
                                                );
                                                let tmp = m.circuit_bootstrapping_execute_tmp_bytes(block_size, extension_factor, &ggsw_infos, &key);
                                                run_all_fills::<BE, _>(&format!("cbt_to_constant {what}"), tmp, |s| {
                                                    let mut res = GGSW::alloc_from_infos(&ggsw_infos);
                                                    res.fill_uniform(res_b, &mut Source::new([7u8; 32]));
                                                    key.execute_to_constant(&m, &mut res, &lwe, log_domain, extension_factor, s);
                                                    ser(&res)
                                                });
                                                for log_gap_out in [0usize, 1] {
                                                    run_all_fills::<BE, _>(&format!("cbt_to_exponent log_gap_out={log_gap_out} {what}"), tmp, |s| {
                                                        let mut res = GGSW::alloc_from_infos(&ggsw_infos);
                                                        res.fill_uniform(res_b, &mut Source::new([7u8; 32]));
                                                        key.execute_to_exponent(&m, log_gap_out, &mut res, &lwe, log_domain, extension_factor, s);
                                                        ser(&res)
                                                    });
                                                }
                                            }
                                        }
                                    }
                                }
                            }
                        }
                    }
                });
            }
            /// Same parameters as the library's own circuit bootstrapping tests (which run on a 8 MiB scratch).
            #[test]
            fn circuit_bootstrapping_library_parameters() {
                collect(|| {
                    let n = 256usize;
                    let m = module(n);
                    for (k_lwe_pt, k_lwe_ct) in [(4usize, 22usize), (1, 13)] {
                        let (key, ggsw_infos) = cbt_setup(&m, 1, 77, 7, 15, 13, 11, 12, 4 * 15, 3, 4);
                        let mut lwe = LWE::alloc(77usize.into(), 14usize.into(), k_lwe_ct.into());
                        lwe.fill_uniform(14, &mut Source::new([6u8; 32]));
                        let tmp = m.circuit_bootstrapping_execute_tmp_bytes(7, 1, &ggsw_infos, &key);
                        run_all_fills::<BE, _>(&format!("cbt_to_constant (library test parameters, n=256) log_domain={k_lwe_pt}"), tmp, |s| {
                            let mut res = GGSW::alloc_from_infos(&ggsw_infos);
                            key.execute_to_constant(&m, &mut res, &lwe, k_lwe_pt, 1, s);
                            ser(&res)
                        });
                        run_all_fills::<BE, _>(&format!("cbt_to_exponent (library test parameters, n=256) log_domain={k_lwe_pt}"), tmp, |s| {
                            let mut res = GGSW::alloc_from_infos(&ggsw_infos);
                            key.execute_to_exponent(&m, 1, &mut res, &lwe, k_lwe_pt, 1, s);
                            ser(&res)
                        });
                    }
                });
            }
        }
    };
}

binfhe_tests!(binfhe_fft64, FFT64Ref, [8, 16, 32]);
binfhe_tests!(binfhe_ntt120, NTT120Ref, [8, 16, 32]);
