//! Stream schemas: a tiny parser for the serialisation formats, used to obtain the metadata of
//! objects whose fields are crate private (by re-serialising them) and to locate header bytes.
#![allow(dead_code)]

use std::io::Cursor;

use poulpy_hal::layouts::{ReaderFrom, WriterTo};

use super::{Probe, checked_product, panic_msg, quiet};

#[derive(Clone, Debug)]
pub enum S {
    U8(&'static str),
    U32(&'static str),
    U64(&'static str),
    Seed,
    /// u32 count followed by count * 32 bytes
    SeedTable,
    Vec,
    Scalar,
    Mat,
    /// u64 count followed by count * sub-schema
    Many(Vec<S>),
    /// u8 tag (0/1) followed by the sub-schema if 1
    Opt(Vec<S>),
}

#[derive(Clone, Debug, PartialEq, Eq)]
pub enum LeafKind {
    Vec,
    Scalar,
    Mat,
}

#[derive(Clone, Debug)]
pub struct Leaf {
    pub kind: LeafKind,
    /// Vec: n, cols, size, max_size; Scalar: n, cols; Mat: n, size, rows, cols_in, cols_out
    pub dims: Vec<u64>,
    pub len: u64,
    pub payload: (usize, usize),
}

impl Leaf {
    pub fn active_bytes(&self) -> Option<usize> {
        let d: Vec<usize> = self.dims.iter().map(|&x| x as usize).collect();
        match self.kind {
            LeafKind::Vec => checked_product(&[d[0], d[1], d[2], 8]),
            LeafKind::Scalar => checked_product(&[d[0], d[1], 8]),
            LeafKind::Mat => checked_product(&[d[0], d[1], d[2], d[3], d[4], 8]),
        }
    }
    pub fn capacity_bytes(&self) -> Option<usize> {
        let d: Vec<usize> = self.dims.iter().map(|&x| x as usize).collect();
        match self.kind {
            LeafKind::Vec => checked_product(&[d[0], d[1], d[3], 8]),
            _ => self.active_bytes(),
        }
    }
}

#[derive(Clone, Debug, Default)]
pub struct Parsed {
    /// (name, offset, width, value)
    pub fields: Vec<(String, usize, usize, u64)>,
    pub seeds: Vec<(usize, [u8; 32])>,
    pub seed_tables: Vec<usize>,
    pub leaves: Vec<Leaf>,
    pub counts: Vec<u64>,
    pub consumed: usize,
}

impl Parsed {
    pub fn payloads(&self) -> Vec<(usize, usize)> {
        self.leaves.iter().map(|l| l.payload).collect()
    }
    pub fn get(&self, name: &str) -> Vec<u64> {
        self.fields.iter().filter(|f| f.0 == name).map(|f| f.3).collect()
    }
    pub fn meta(&self) -> String {
        let mut s = String::new();
        for (n, _, _, v) in &self.fields {
            s.push_str(&format!("{n}={v} "));
        }
        for (_, sd) in &self.seeds {
            s.push_str(&format!("seed={:02x}{:02x}{:02x}{:02x}.. ", sd[0], sd[1], sd[2], sd[31]));
        }
        for l in &self.leaves {
            s.push_str(&format!("{:?}{:?} ", l.kind, l.dims));
        }
        s
    }
}

fn rd(bytes: &[u8], pos: &mut usize, w: usize) -> Result<u64, String> {
    if *pos + w > bytes.len() {
        return Err(format!("schema: stream ends at {} (need {} at {})", bytes.len(), w, *pos));
    }
    let mut b = [0u8; 8];
    b[..w].copy_from_slice(&bytes[*pos..*pos + w]);
    *pos += w;
    Ok(u64::from_le_bytes(b))
}

fn parse_into(schema: &[S], bytes: &[u8], pos: &mut usize, out: &mut Parsed, prefix: &str) -> Result<(), String> {
    for s in schema {
        match s {
            S::U8(n) => {
                let o = *pos;
                let v = rd(bytes, pos, 1)?;
                out.fields.push((format!("{prefix}{n}"), o, 1, v));
            }
            S::U32(n) => {
                let o = *pos;
                let v = rd(bytes, pos, 4)?;
                out.fields.push((format!("{prefix}{n}"), o, 4, v));
            }
            S::U64(n) => {
                let o = *pos;
                let v = rd(bytes, pos, 8)?;
                out.fields.push((format!("{prefix}{n}"), o, 8, v));
            }
            S::Seed => {
                if *pos + 32 > bytes.len() {
                    return Err("schema: seed truncated".into());
                }
                out.seeds.push((*pos, bytes[*pos..*pos + 32].try_into().unwrap()));
                *pos += 32;
            }
            S::SeedTable => {
                let o = *pos;
                let c = rd(bytes, pos, 4)?;
                out.fields.push((format!("{prefix}seed_len"), o, 4, c));
                out.seed_tables.push(c as usize);
                for _ in 0..c {
                    if *pos + 32 > bytes.len() {
                        return Err("schema: seed table truncated".into());
                    }
                    out.seeds.push((*pos, bytes[*pos..*pos + 32].try_into().unwrap()));
                    *pos += 32;
                }
            }
            S::Vec | S::Scalar | S::Mat => {
                let (kind, names): (LeafKind, &[&str]) = match s {
                    S::Vec => (LeafKind::Vec, &["n", "cols", "size", "max_size"]),
                    S::Scalar => (LeafKind::Scalar, &["n", "cols"]),
                    _ => (LeafKind::Mat, &["n", "size", "rows", "cols_in", "cols_out"]),
                };
                let li = out.leaves.len();
                let mut dims = Vec::new();
                for n in names {
                    let o = *pos;
                    let v = rd(bytes, pos, 8)?;
                    out.fields.push((format!("{prefix}L{li}.{n}"), o, 8, v));
                    dims.push(v);
                }
                let o = *pos;
                let len = rd(bytes, pos, 8)?;
                out.fields.push((format!("{prefix}L{li}.len"), o, 8, len));
                let l = len as usize;
                if pos.checked_add(l).is_none_or(|e| e > bytes.len()) {
                    return Err(format!("schema: payload of {l} bytes truncated at {}", *pos));
                }
                out.leaves.push(Leaf {
                    kind,
                    dims,
                    len,
                    payload: (*pos, l),
                });
                *pos += l;
            }
            S::Many(sub) => {
                let o = *pos;
                let c = rd(bytes, pos, 8)?;
                out.fields.push((format!("{prefix}count"), o, 8, c));
                out.counts.push(c);
                for i in 0..c {
                    parse_into(sub, bytes, pos, out, &format!("{prefix}[{i}]."))?;
                }
            }
            S::Opt(sub) => {
                let o = *pos;
                let t = rd(bytes, pos, 1)?;
                out.fields.push((format!("{prefix}tag"), o, 1, t));
                if t == 1 {
                    parse_into(sub, bytes, pos, out, &format!("{prefix}opt."))?;
                }
            }
        }
    }
    Ok(())
}

pub fn parse(schema: &[S], bytes: &[u8]) -> Result<Parsed, String> {
    let mut out = Parsed::default();
    let mut pos = 0usize;
    parse_into(schema, bytes, &mut pos, &mut out, "")?;
    out.consumed = pos;
    if pos != bytes.len() {
        return Err(format!("schema: {} trailing bytes", bytes.len() - pos));
    }
    Ok(out)
}

/// Per type description.
pub struct Spec<T> {
    pub name: &'static str,
    pub schema: fn() -> Vec<S>,
    /// Invariants of the wrapper type over its header (e.g. cols_in == cols_out for GGSW).
    pub invariants: fn(&Parsed) -> Result<(), String>,
    /// Calls the public accessors.
    pub exercise: fn(&T),
}

/// An object together with the capacities (in bytes) of its leaf buffers, which never change.
pub struct W<T: 'static> {
    pub x: T,
    pub caps: Vec<usize>,
    pub spec: &'static Spec<T>,
}

pub fn round64(x: usize) -> usize {
    x.next_multiple_of(64)
}

impl<T: WriterTo + ReaderFrom + 'static> W<T> {
    /// `x` must be freshly allocated (every leaf buffer is its capacity rounded up to 64 bytes).
    pub fn fresh(x: T, spec: &'static Spec<T>) -> Self {
        let bytes = super::to_bytes(&x);
        let p = parse(&(spec.schema)(), &bytes).unwrap_or_else(|e| panic!("{}: fresh object does not parse: {e}", spec.name));
        let caps = p.leaves.iter().map(|l| round64(l.capacity_bytes().unwrap())).collect();
        Self { x, caps, spec }
    }

    pub fn bytes(&self) -> Result<Vec<u8>, String> {
        let mut v = Vec::new();
        match quiet(|| self.x.write_to(&mut v)) {
            Ok(Ok(())) => Ok(v),
            Ok(Err(e)) => Err(format!("write_to failed: {e}")),
            Err(p) => Err(format!("write_to PANICS: {}", panic_msg(p))),
        }
    }

    pub fn parsed(&self) -> Result<Parsed, String> {
        parse(&(self.spec.schema)(), &self.bytes()?)
    }
}

impl<T: WriterTo + ReaderFrom + 'static> WriterTo for W<T> {
    fn write_to<Wr: std::io::Write>(&self, w: &mut Wr) -> std::io::Result<()> {
        self.x.write_to(w)
    }
}
impl<T: WriterTo + ReaderFrom + 'static> ReaderFrom for W<T> {
    fn read_from<R: std::io::Read>(&mut self, r: &mut R) -> std::io::Result<()> {
        self.x.read_from(r)
    }
}

impl<T: WriterTo + ReaderFrom + 'static> Probe for W<T> {
    fn meta(&self) -> String {
        match self.parsed() {
            Ok(p) => p.meta(),
            Err(e) => format!("<{e}>"),
        }
    }

    fn consistent(&self) -> Result<(), String> {
        let p = self.parsed()?;
        if p.leaves.len() != self.caps.len() {
            return Err(format!("leaf count {} != receiver's {}", p.leaves.len(), self.caps.len()));
        }
        for (i, (l, &cap)) in p.leaves.iter().zip(self.caps.iter()).enumerate() {
            match l.active_bytes() {
                Some(b) if b <= cap => {}
                b => return Err(format!("leaf {i} {:?}{:?}: bytes {b:?} > buffer {cap}", l.kind, l.dims)),
            }
            match l.capacity_bytes() {
                Some(b) if b <= cap => {}
                b => return Err(format!("leaf {i} {:?}{:?}: capacity bytes {b:?} > buffer {cap}", l.kind, l.dims)),
            }
            if l.kind == LeafKind::Vec && l.dims[2] > l.dims[3] {
                return Err(format!("leaf {i}: size {} > max_size {}", l.dims[2], l.dims[3]));
            }
        }
        Ok(())
    }

    fn exercise(&self) {
        // first the accessors (a panic here is the stronger symptom), then the wrapper's own invariants
        let acc = quiet(|| (self.spec.exercise)(&self.x));
        let inv = self.parsed().and_then(|p| (self.spec.invariants)(&p));
        match (acc, inv) {
            (Ok(()), Ok(())) => {}
            (Ok(()), Err(e)) => panic!("wrapper invariant broken (accessors survive): {e}"),
            (Err(p), Ok(())) => panic!("accessor panic on an object satisfying the invariants: {}", panic_msg(p)),
            (Err(p), Err(e)) => panic!("wrapper invariant broken: {e}; accessor panic: {}", panic_msg(p)),
        }
    }

    fn same(&self, o: &Self) -> bool {
        match (self.bytes(), o.bytes()) {
            (Ok(a), Ok(b)) => a == b,
            _ => false,
        }
    }
}

/// Reads `bytes` into a fresh object and returns it: used to build originals with non-default
/// header fields (p, degrees, seeds, distribution) without needing setters.
pub fn patched<T: WriterTo + ReaderFrom + 'static>(mut w: W<T>, edit: impl FnOnce(&Parsed, &mut Vec<u8>)) -> W<T> {
    let mut bytes = super::to_bytes(&w.x);
    let p = parse(&(w.spec.schema)(), &bytes).unwrap();
    edit(&p, &mut bytes);
    w.x.read_from(&mut Cursor::new(&bytes[..]))
        .unwrap_or_else(|e| panic!("{}: patched stream rejected: {e}", w.spec.name));
    w
}

pub fn set_field(p: &Parsed, bytes: &mut [u8], name: &str, v: u64) {
    let mut hit = false;
    for (n, off, w, _) in &p.fields {
        if n == name || n.ends_with(&format!(".{name}")) {
            bytes[*off..*off + *w].copy_from_slice(&v.to_le_bytes()[..*w]);
            hit = true;
        }
    }
    assert!(hit, "no field {name}");
}

pub fn randomise_seeds(p: &Parsed, bytes: &mut [u8], salt: u8) {
    for (i, (off, _)) in p.seeds.iter().enumerate() {
        for j in 0..32 {
            bytes[*off + j] = (i as u8).wrapping_mul(31).wrapping_add(j as u8).wrapping_mul(7).wrapping_add(salt);
        }
    }
}
