//! C18 audit: minimal reproductions (poulpy-core).  Each test fails on the audited tree.
use std::panic::{AssertUnwindSafe, catch_unwind};

use poulpy_core::layouts::{
    Base2K, Degree, Dnum, Dsize, GGLWE, GGLWEInfos, GGLWEToGGSWKey, GGSWInfos, GLWE, GLWEInfos, LWEInfos, Rank, TorusPrecision,
    compressed::{GGLWECompressed, GGLWECompressedSeed, GGLWEToGGSWKeyCompressed, GGSWCompressed, GGSWCompressedSeed},
};
use poulpy_hal::{
    layouts::{FillUniform, ReaderFrom, WriterTo},
    source::Source,
};

const B2K: Base2K = Base2K(8);

fn bytes_of<T: WriterTo>(x: &T) -> Vec<u8> {
    let mut v = Vec::new();
    x.write_to(&mut v).unwrap();
    v
}

/// F1 seen from poulpy-core: a GLWE whose active limb count was reduced ("the allocated limb
/// capacity can exceed the active size() after a precision-consuming rescale", GLWE::max_size)
/// cannot be read into the receiver allocated from its own layout.
#[test]
fn f1_glwe_with_reduced_size_does_not_round_trip() {
    let mut ct: GLWE<Vec<u8>> = GLWE::alloc(Degree(8), B2K, TorusPrecision(24), Rank(1)); // 3 limbs
    ct.fill_uniform(50, &mut Source::new([1u8; 32]));
    ct.data_mut().set_size(2);
    assert_eq!((ct.size(), ct.max_size()), (2, 3));
    let bytes = bytes_of(&ct);

    let mut recv: GLWE<Vec<u8>> = GLWE::alloc_from_infos(&ct); // n=8, rank=1, k = 2 * base2k
    assert_eq!(recv.size(), 2);
    let r = recv.read_from(&mut &bytes[..]);
    assert!(r.is_ok(), "receiver allocated from the object's own layout rejected: {}", r.unwrap_err());
}

/// F2. The compressed matrix readers bound the incoming seed table by `self.seed.len()` and then
/// replace `self.seed` by the (shorter) incoming table: a successful read of a smaller object
/// permanently shrinks the receiver, which afterwards rejects an object of its own allocated shape.
#[test]
fn f2_gglwe_compressed_receiver_loses_seed_capacity() {
    let alloc = |dnum: u32| GGLWECompressed::alloc(Degree(8), B2K, TorusPrecision(24), Rank(1), Rank(1), Dnum(dnum), Dsize(1));
    let small = alloc(1);
    let big = alloc(2);
    let mut recv = alloc(2);
    recv.read_from(&mut &bytes_of(&small)[..]).expect("small object into larger receiver");
    assert_eq!(recv.seed().len(), 1);
    let r = recv.read_from(&mut &bytes_of(&big)[..]);
    assert!(r.is_ok(), "receiver allocated for dnum=2 rejects a dnum=2 object: {}", r.unwrap_err());
}

#[test]
fn f2_ggsw_compressed_receiver_loses_seed_capacity() {
    let alloc = |dnum: u32| GGSWCompressed::alloc(Degree(8), B2K, TorusPrecision(24), Rank(1), Dnum(dnum), Dsize(1));
    let small = alloc(1);
    let big = alloc(2);
    let mut recv = alloc(2);
    recv.read_from(&mut &bytes_of(&small)[..]).expect("small object into larger receiver");
    assert_eq!(recv.seed().len(), 2);
    let r = recv.read_from(&mut &bytes_of(&big)[..]);
    assert!(r.is_ok(), "receiver allocated for dnum=2 rejects a dnum=2 object: {}", r.unwrap_err());
}

/// F3. GGLWEToGGSWKey / GGLWEToGGSWKeyCompressed read their sub-keys in place one after the other:
/// a stream truncated inside key #1 returns Err but key #0 has already been replaced (and, with a
/// larger receiver, reshaped), so the bundle is left half updated with sub-keys of different shapes.
#[test]
fn f3_gglwe_to_ggsw_key_failed_read_leaves_receiver_half_updated() {
    let src = GGLWEToGGSWKey::alloc(Degree(8), B2K, TorusPrecision(24), Rank(2), Dnum(1), Dsize(1));
    let bytes = bytes_of(&src);
    let mut recv = GGLWEToGGSWKey::alloc(Degree(8), B2K, TorusPrecision(40), Rank(2), Dnum(2), Dsize(2));
    recv.fill_uniform(50, &mut Source::new([2u8; 32]));
    let before = bytes_of(&recv);
    let cut = bytes.len() - 1; // the last key is incomplete
    assert!(recv.read_from(&mut &bytes[..cut]).is_err());
    let (d0, d1) = (recv.at(0).dnum(), recv.at(1).dnum());
    assert!(
        bytes_of(&recv) == before,
        "read_from returned Err but the receiver changed: sub-key dnum = {d0:?} / {d1:?}, dsize = {:?} / {:?}",
        recv.at(0).dsize(),
        recv.at(1).dsize()
    );
}

#[test]
fn f3_gglwe_to_ggsw_key_compressed_failed_read_leaves_receiver_half_updated() {
    let src = GGLWEToGGSWKeyCompressed::alloc(Degree(8), B2K, TorusPrecision(24), Rank(2), Dnum(1), Dsize(1));
    let bytes = bytes_of(&src);
    let mut recv = GGLWEToGGSWKeyCompressed::alloc(Degree(8), B2K, TorusPrecision(40), Rank(2), Dnum(2), Dsize(2));
    recv.fill_uniform(50, &mut Source::new([2u8; 32]));
    let before = bytes_of(&recv);
    assert!(recv.read_from(&mut &bytes[..bytes.len() - 1]).is_err());
    assert!(bytes_of(&recv) == before, "read_from returned Err but the receiver changed");
}

// ---------------------------------------------------------------------------------------------
// F5 (low): scalar header fields of the wrappers are committed without any range / cross check.

fn patch_u32(bytes: &mut [u8], off: usize, v: u32) {
    bytes[off..off + 4].copy_from_slice(&v.to_le_bytes());
}

/// base2k is taken as is; `max_k()` = size * base2k then overflows u32.
#[test]
fn f5_glwe_base2k_is_not_validated() {
    let ct: GLWE<Vec<u8>> = GLWE::alloc(Degree(8), B2K, TorusPrecision(16), Rank(1));
    let mut bytes = bytes_of(&ct);
    patch_u32(&mut bytes, 0, 1 << 31);
    let mut recv: GLWE<Vec<u8>> = GLWE::alloc(Degree(8), B2K, TorusPrecision(16), Rank(1));
    let r = recv.read_from(&mut &bytes[..]);
    if r.is_ok() {
        let k = catch_unwind(AssertUnwindSafe(|| recv.max_k()));
        panic!("base2k=2^31 accepted; max_k() -> {:?}", k.map_err(|_| "panic: attempt to multiply with overflow"));
    }
}

/// dsize = 0 and dnum * dsize > size are accepted although `GGLWE::alloc` asserts both.
#[test]
fn f5_gglwe_dsize_is_not_validated() {
    let a = GGLWE::alloc(Degree(8), B2K, TorusPrecision(24), Rank(1), Rank(1), Dnum(2), Dsize(1));
    for bad in [0u32, 2, u32::MAX] {
        let mut bytes = bytes_of(&a);
        patch_u32(&mut bytes, 4, bad);
        let mut recv = GGLWE::alloc(Degree(8), B2K, TorusPrecision(24), Rank(1), Rank(1), Dnum(2), Dsize(1));
        assert!(
            recv.read_from(&mut &bytes[..]).is_err(),
            "dsize={bad} accepted for dnum=2, size=3 (alloc asserts size > dsize and dnum*dsize <= size)"
        );
    }
}

/// GGSWCompressed: `rank` is a free header word that is never compared with the matrix
/// (cols_in = rank + 1); `at()` then indexes the seed table out of bounds.
#[test]
fn f5_ggsw_compressed_rank_is_not_cross_checked() {
    let a = GGSWCompressed::alloc(Degree(8), B2K, TorusPrecision(24), Rank(1), Dnum(2), Dsize(1));
    let mut bytes = bytes_of(&a);
    patch_u32(&mut bytes, 12, 2); // k, base2k, dsize, rank
    let mut recv = GGSWCompressed::alloc(Degree(8), B2K, TorusPrecision(24), Rank(1), Dnum(2), Dsize(1));
    let r = recv.read_from(&mut &bytes[..]);
    if r.is_ok() {
        let rank = recv.rank().0 as usize;
        let dnum = recv.dnum().0 as usize;
        let at = catch_unwind(AssertUnwindSafe(|| {
            let _ = recv.at(dnum - 1, rank);
        }));
        panic!(
            "rank=2 accepted on a matrix with cols_in=2 and {} seeds; at(dnum-1, rank) panics: {}",
            recv.seed().len(),
            at.is_err()
        );
    }
}

/// GGLWEToGGSWKeyCompressed: rank() is keys[0].rank_out (a free header word) while the number of
/// keys is checked against the receiver only; `at(i)` for i < rank() then indexes out of bounds.
#[test]
fn f5_gglwe_to_ggsw_key_compressed_rank_is_not_cross_checked() {
    let a = GGLWEToGGSWKeyCompressed::alloc(Degree(8), B2K, TorusPrecision(24), Rank(1), Dnum(2), Dsize(1));
    let mut bytes = bytes_of(&a);
    patch_u32(&mut bytes, 8 + 12, 2); // count, then k, base2k, dsize, rank of keys[0]
    let mut recv = GGLWEToGGSWKeyCompressed::alloc(Degree(8), B2K, TorusPrecision(24), Rank(1), Dnum(2), Dsize(1));
    let r = recv.read_from(&mut &bytes[..]);
    if r.is_ok() {
        let rank = recv.rank().0 as usize;
        let at = catch_unwind(AssertUnwindSafe(|| {
            let _ = recv.at(rank - 1);
        }));
        panic!("rank={rank} accepted with 1 key; at(rank-1) panics: {}", at.is_err());
    }
}

/// A stream whose leaf header is self-consistent but not a GLWE (cols = 0, len = 0) is accepted;
/// `rank()` = cols - 1 then underflows.
#[test]
fn f5_glwe_without_columns_is_accepted() {
    let mut bytes = Vec::new();
    bytes.extend_from_slice(&8u32.to_le_bytes()); // base2k
    for w in [8u64, 0, 2, 2, 0] {
        // n, cols, size, max_size, len
        bytes.extend_from_slice(&w.to_le_bytes());
    }
    let mut recv: GLWE<Vec<u8>> = GLWE::alloc(Degree(8), B2K, TorusPrecision(16), Rank(1));
    let r = recv.read_from(&mut &bytes[..]);
    if r.is_ok() {
        let rank = catch_unwind(AssertUnwindSafe(|| recv.rank()));
        panic!("GLWE with cols=0 accepted; rank() -> {:?}", rank.map_err(|_| "panic: attempt to subtract with overflow"));
    }
}
