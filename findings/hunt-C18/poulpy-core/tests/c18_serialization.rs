//! C18 audit: serialisation of every poulpy-core layout (standard and compressed).
//!
//! Objects are driven through their public `WriterTo` / `ReaderFrom` impls only; the metadata
//! of an object is observed by re-serialising it and parsing the stream with a schema.
mod c18_common;
use c18_common::{schema::*, *};

use poulpy_core::layouts::{
    Base2K, Degree, Dnum, Dsize, GGLWE, GGLWEInfos, GGLWEToGGSWKey, GGSW, GGSWInfos, GLWE, GLWEAutomorphismKey, GLWEInfos,
    GLWEPublicKey, GLWESwitchingKey, GLWETensorKey, GLWEToLWEKey, LWE, LWEInfos, LWESwitchingKey, LWEToGLWEKey, Rank,
    TorusPrecision,
    compressed::{
        GGLWECompressed, GGLWEToGGSWKeyCompressed, GGSWCompressed, GLWEAutomorphismKeyCompressed, GLWECompressed,
        GLWESwitchingKeyCompressed, GLWETensorKeyCompressed, GLWEToLWESwitchingKeyCompressed, LWECompressed,
        LWESwitchingKeyCompressed, LWEToGLWEKeyCompressed,
    },
};
use poulpy_hal::layouts::{ReaderFrom, WriterTo};

const B2K: Base2K = Base2K(8);

/// Unvalidated scalar header words (base2k, dsize, rank, p): asserted in c18_findings.rs (F5) / reported separately.
const SOFT: &[&str] = &["wrapper invariant broken"];

// ------------------------------------------------------------------ schemas

fn s_glwe() -> Vec<S> {
    vec![S::U32("base2k"), S::Vec]
}
fn s_pk() -> Vec<S> {
    vec![S::U64("dist"), S::U32("base2k"), S::Vec]
}
fn s_gglwe() -> Vec<S> {
    vec![S::U32("base2k"), S::U32("dsize"), S::Mat]
}
fn s_ksk() -> Vec<S> {
    let mut v = vec![S::U32("in_deg"), S::U32("out_deg")];
    v.extend(s_gglwe());
    v
}
fn s_atk() -> Vec<S> {
    let mut v = vec![S::U64("p")];
    v.extend(s_gglwe());
    v
}
fn s_tsk() -> Vec<S> {
    vec![S::Many(s_gglwe())]
}
fn s_lwe_c() -> Vec<S> {
    vec![S::U32("k"), S::U32("base2k"), S::Seed, S::Vec]
}
fn s_glwe_c() -> Vec<S> {
    vec![S::U32("base2k"), S::U32("rank"), S::Seed, S::Vec]
}
fn s_gglwe_c() -> Vec<S> {
    vec![S::U32("k"), S::U32("base2k"), S::U32("dsize"), S::U32("rank"), S::SeedTable, S::Mat]
}
fn s_ksk_c() -> Vec<S> {
    let mut v = vec![S::U32("in_deg"), S::U32("out_deg")];
    v.extend(s_gglwe_c());
    v
}
fn s_atk_c() -> Vec<S> {
    let mut v = vec![S::U64("p")];
    v.extend(s_gglwe_c());
    v
}
fn s_tsk_c() -> Vec<S> {
    vec![S::Many(s_gglwe_c())]
}

// ------------------------------------------------------------------ wrapper invariants

fn field(p: &Parsed, suffix: &str) -> Vec<u64> {
    p.fields.iter().filter(|f| f.0.ends_with(suffix)).map(|f| f.3).collect()
}

fn inv_base2k(p: &Parsed) -> Result<(), String> {
    for b in field(p, "base2k") {
        if b == 0 || b > 63 {
            return Err(format!("base2k={b} outside 1..=63"));
        }
    }
    Ok(())
}

fn inv_glwe(p: &Parsed) -> Result<(), String> {
    inv_base2k(p)?;
    let d = &p.leaves[0].dims;
    if d[1] == 0 {
        return Err("GLWE with cols=0 (rank = cols - 1)".into());
    }
    if d[0] == 0 || d[0] > u32::MAX as u64 {
        return Err(format!("n={} not a ring degree", d[0]));
    }
    Ok(())
}

fn inv_lwe(p: &Parsed) -> Result<(), String> {
    inv_base2k(p)?;
    let d = &p.leaves[0].dims;
    if d[1] != 1 {
        return Err(format!("LWE with cols={}", d[1]));
    }
    if d[0] == 0 {
        return Err("LWE with n+1 = 0".into());
    }
    Ok(())
}

fn inv_mats(p: &Parsed, ggsw: bool, compressed: bool) -> Result<(), String> {
    inv_base2k(p)?;
    let dsizes = field(p, "dsize");
    let ranks = field(p, "rank");
    for (i, l) in p.leaves.iter().enumerate() {
        let (n, size, rows, ci, co) = (l.dims[0], l.dims[1], l.dims[2], l.dims[3], l.dims[4]);
        if n == 0 {
            return Err("n=0".into());
        }
        if co == 0 {
            return Err("cols_out=0 (rank_out = cols_out - 1)".into());
        }
        if compressed && co != 1 {
            return Err(format!("compressed matrix with cols_out={co}"));
        }
        if ggsw && !compressed && ci != co {
            return Err(format!("GGSW with cols_in={ci} != cols_out={co}"));
        }
        if ggsw && compressed && ci != ranks[i] + 1 {
            return Err(format!("GGSWCompressed with cols_in={ci} != rank+1={}", ranks[i] + 1));
        }
        let ds = dsizes[i];
        if ds == 0 {
            return Err("dsize=0".into());
        }
        if rows.checked_mul(ds).is_none_or(|x| x > size) && rows * size != 0 {
            return Err(format!("dnum={rows} * dsize={ds} > size={size}"));
        }
        if compressed {
            let want = rows.checked_mul(ci);
            if want != Some(p.seed_tables[i] as u64) {
                return Err(format!("seed table len {} != rows*cols_in = {rows}*{ci}", p.seed_tables[i]));
            }
        }
    }
    Ok(())
}
fn inv_gglwe(p: &Parsed) -> Result<(), String> {
    inv_mats(p, false, false)
}
fn inv_ggsw(p: &Parsed) -> Result<(), String> {
    inv_mats(p, true, false)
}
fn inv_gglwe_c(p: &Parsed) -> Result<(), String> {
    inv_mats(p, false, true)
}
fn inv_ggsw_c(p: &Parsed) -> Result<(), String> {
    inv_mats(p, true, true)
}
/// GGLWEToGGSWKey: one GGLWE per mask column, i.e. keys.len() == rank.
fn inv_tsk(p: &Parsed) -> Result<(), String> {
    inv_mats(p, false, false)?;
    for l in &p.leaves {
        if l.dims[4] != p.counts[0] + 1 {
            return Err(format!("{} keys but rank = cols_out - 1 = {}", p.counts[0], l.dims[4] - 1));
        }
    }
    Ok(())
}
fn inv_tsk_c(p: &Parsed) -> Result<(), String> {
    inv_mats(p, false, true)?;
    for r in field(p, "rank") {
        if r != p.counts[0] {
            return Err(format!("{} keys but rank = {r}", p.counts[0]));
        }
    }
    Ok(())
}
fn inv_glwe_c(p: &Parsed) -> Result<(), String> {
    inv_base2k(p)?;
    let d = &p.leaves[0].dims;
    if d[1] != 1 {
        return Err(format!("compressed GLWE/LWE body with cols={}", d[1]));
    }
    if d[0] == 0 {
        return Err("n=0".into());
    }
    Ok(())
}

// ------------------------------------------------------------------ accessors

fn ex_lwe<T: LWEInfos>(x: &T) {
    let _ = (x.n(), x.base2k(), x.size(), x.max_k());
    let _ = x.lwe_layout();
}
fn ex_glwe<T: GLWEInfos>(x: &T) {
    ex_lwe(x);
    let _ = x.rank();
    let _ = x.glwe_layout();
}
fn ex_gglwe<T: GGLWEInfos>(x: &T) {
    ex_glwe(x);
    let _ = (x.rank_in(), x.rank_out(), x.dnum(), x.dsize());
    let _ = x.gglwe_layout();
}
fn ex_ggsw<T: GGSWInfos>(x: &T) {
    ex_glwe(x);
    let _ = (x.dnum(), x.dsize());
    let _ = x.ggsw_layout();
}
fn small(v: u32) -> usize {
    (v as usize).min(3)
}

fn ex_glwe_t(x: &GLWE<Vec<u8>>) {
    ex_glwe(x);
    if x.data().n <= 64 && x.data().cols <= 8 && x.data().size <= 8 {
        let _ = format!("{x}");
    }
}
fn ex_lwe_t(x: &LWE<Vec<u8>>) {
    ex_lwe(x);
}
fn ex_pk_t(x: &GLWEPublicKey<Vec<u8>>) {
    ex_glwe(x);
}
fn ex_gglwe_t(x: &GGLWE<Vec<u8>>) {
    ex_gglwe(x);
    for r in 0..small(x.dnum().0) {
        for c in 0..small(x.rank_in().0) {
            ex_glwe(&x.at(r, c));
        }
    }
}
fn ex_ggsw_t(x: &GGSW<Vec<u8>>) {
    ex_ggsw(x);
    for r in 0..small(x.dnum().0) {
        for c in 0..small(x.rank().0.saturating_add(1)) {
            ex_glwe(&x.at(r, c));
        }
    }
}
fn ex_ksk_t(x: &GLWESwitchingKey<Vec<u8>>) {
    ex_gglwe(x);
    for r in 0..small(x.dnum().0) {
        for c in 0..small(x.rank_in().0) {
            ex_glwe(&x.at(r, c));
        }
    }
}
fn ex_atk_t(x: &GLWEAutomorphismKey<Vec<u8>>) {
    ex_gglwe(x);
    let _ = x.p();
    for r in 0..small(x.dnum().0) {
        for c in 0..small(x.rank_in().0) {
            ex_glwe(&x.at(r, c));
        }
    }
}
fn ex_ggsw_c_t(x: &GGSWCompressed<Vec<u8>>) {
    ex_ggsw(x);
    for r in 0..small(x.dnum().0) {
        for c in 0..small(x.rank().0.saturating_add(1)) {
            ex_glwe(&x.at(r, c));
        }
    }
}
fn ex_tsk_t(x: &GGLWEToGGSWKey<Vec<u8>>) {
    ex_gglwe(x);
    for i in 0..small(x.rank().0) {
        ex_gglwe(x.at(i));
    }
}
fn ex_tsk_c_t(x: &GGLWEToGGSWKeyCompressed<Vec<u8>>) {
    ex_gglwe(x);
    for i in 0..small(x.rank().0) {
        ex_gglwe(x.at(i));
    }
}

macro_rules! spec {
    ($name:ident, $t:ty, $schema:expr, $inv:expr, $ex:expr) => {
        static $name: Spec<$t> = Spec {
            name: stringify!($t),
            schema: $schema,
            invariants: $inv,
            exercise: $ex,
        };
    };
}

spec!(GLWE_S, GLWE<Vec<u8>>, s_glwe, inv_glwe, ex_glwe_t);
spec!(LWE_S, LWE<Vec<u8>>, s_glwe, inv_lwe, ex_lwe_t);
spec!(PK_S, GLWEPublicKey<Vec<u8>>, s_pk, inv_glwe, ex_pk_t);
spec!(GGLWE_S, GGLWE<Vec<u8>>, s_gglwe, inv_gglwe, ex_gglwe_t);
spec!(GGSW_S, GGSW<Vec<u8>>, s_gglwe, inv_ggsw, ex_ggsw_t);
spec!(KSK_S, GLWESwitchingKey<Vec<u8>>, s_ksk, inv_gglwe, ex_ksk_t);
spec!(ATK_S, GLWEAutomorphismKey<Vec<u8>>, s_atk, inv_gglwe, ex_atk_t);
spec!(TK_S, GLWETensorKey<Vec<u8>>, s_gglwe, inv_gglwe, ex_gglwe::<GLWETensorKey<Vec<u8>>>);
spec!(L2G_S, LWEToGLWEKey<Vec<u8>>, s_ksk, inv_gglwe, ex_gglwe::<LWEToGLWEKey<Vec<u8>>>);
spec!(LKS_S, LWESwitchingKey<Vec<u8>>, s_ksk, inv_gglwe, ex_gglwe::<LWESwitchingKey<Vec<u8>>>);
spec!(G2L_S, GLWEToLWEKey<Vec<u8>>, s_ksk, inv_gglwe, ex_gglwe::<GLWEToLWEKey<Vec<u8>>>);
spec!(TSK_S, GGLWEToGGSWKey<Vec<u8>>, s_tsk, inv_tsk, ex_tsk_t);

spec!(LWE_C, LWECompressed<Vec<u8>>, s_lwe_c, inv_glwe_c, ex_lwe::<LWECompressed<Vec<u8>>>);
spec!(GLWE_C, GLWECompressed<Vec<u8>>, s_glwe_c, inv_glwe_c, ex_glwe::<GLWECompressed<Vec<u8>>>);
spec!(GGLWE_C, GGLWECompressed<Vec<u8>>, s_gglwe_c, inv_gglwe_c, ex_gglwe::<GGLWECompressed<Vec<u8>>>);
spec!(GGSW_C, GGSWCompressed<Vec<u8>>, s_gglwe_c, inv_ggsw_c, ex_ggsw_c_t);
spec!(KSK_C, GLWESwitchingKeyCompressed<Vec<u8>>, s_ksk_c, inv_gglwe_c, ex_gglwe::<GLWESwitchingKeyCompressed<Vec<u8>>>);
spec!(ATK_C, GLWEAutomorphismKeyCompressed<Vec<u8>>, s_atk_c, inv_gglwe_c, ex_gglwe::<GLWEAutomorphismKeyCompressed<Vec<u8>>>);
spec!(TK_C, GLWETensorKeyCompressed<Vec<u8>>, s_gglwe_c, inv_gglwe_c, ex_gglwe::<GLWETensorKeyCompressed<Vec<u8>>>);
spec!(L2G_C, LWEToGLWEKeyCompressed<Vec<u8>>, s_ksk_c, inv_gglwe_c, ex_gglwe::<LWEToGLWEKeyCompressed<Vec<u8>>>);
spec!(LKS_C, LWESwitchingKeyCompressed<Vec<u8>>, s_ksk_c, inv_gglwe_c, ex_gglwe::<LWESwitchingKeyCompressed<Vec<u8>>>);
spec!(G2L_C, GLWEToLWESwitchingKeyCompressed<Vec<u8>>, s_ksk_c, inv_gglwe_c, ex_gglwe::<GLWEToLWESwitchingKeyCompressed<Vec<u8>>>);
spec!(TSK_C, GGLWEToGGSWKeyCompressed<Vec<u8>>, s_tsk_c, inv_tsk_c, ex_tsk_c_t);

// ------------------------------------------------------------------ generic driver

/// Fills payloads / seeds with salt-dependent noise and gives every scalar header field that is
/// not a dimension a salt-dependent admissible value.
fn dirty_edit(p: &Parsed, bytes: &mut Vec<u8>, salt: u8) {
    for (k, &(s, l)) in p.payloads().iter().enumerate() {
        for i in 0..l {
            bytes[s + i] = (i as u8).wrapping_mul(13).wrapping_add(salt).wrapping_add(k as u8).wrapping_mul(31) ^ 0x5a;
        }
    }
    randomise_seeds(p, bytes, salt);
    for (name, off, w, _) in &p.fields {
        let v: Option<u64> = if name.ends_with("in_deg") {
            Some(100 + salt as u64)
        } else if name.ends_with("out_deg") {
            Some(200 + salt as u64)
        } else if name.ends_with(".p") || name == "p" {
            Some((-(5i64 + 2 * salt as i64)) as u64)
        } else if name.ends_with("dist") {
            // TernaryProb(0.5) / BinaryBlock(salt)
            Some(if salt % 2 == 1 { (1u64 << 56) | (0.5f64.to_bits() >> 8) } else { (4u64 << 56) | salt as u64 })
        } else {
            None
        };
        if let Some(v) = v {
            bytes[*off..*off + *w].copy_from_slice(&v.to_le_bytes()[..*w]);
        }
    }
}

fn make<T: WriterTo + ReaderFrom + 'static>(spec: &'static Spec<T>, alloc: &dyn Fn() -> T, salt: u8) -> W<T> {
    patched(W::fresh(alloc(), spec), |p, b| dirty_edit(p, b, salt))
}

/// Does `orig` fit into a fresh receiver with the capacities of `recv`?
fn fits<T: WriterTo + ReaderFrom + 'static>(orig: &W<T>, recv: &W<T>) -> bool {
    let (po, pr) = (orig.parsed().unwrap(), recv.parsed().unwrap());
    po.leaves.len() == pr.leaves.len()
        && po.counts == pr.counts
        && po.seed_tables.iter().zip(pr.seed_tables.iter()).all(|(a, b)| a <= b)
        && po.leaves.iter().zip(recv.caps.iter()).all(|(l, &c)| l.capacity_bytes().unwrap() <= c)
}

type Grid<T> = Vec<(String, Box<dyn Fn() -> T>)>;

fn drive<T: WriterTo + ReaderFrom + 'static>(spec: &'static Spec<T>, grid: Grid<T>) -> Report {
    silence_panics();
    let mut rep = Report::new(spec.name);
    for (i, (ni, ai)) in grid.iter().enumerate() {
        let orig = make(spec, ai.as_ref(), 1);
        let bytes = to_bytes(&orig);
        let parsed = orig.parsed().unwrap();
        // seeds are content, not structure: keep them out of the byte corruption set
        let mut skip = parsed.payloads();
        skip.extend(parsed.seeds.iter().map(|(o, _)| (*o, 32usize)));

        let mut done_larger = false;
        let mut done_smaller = false;
        for (j, (nj, aj)) in grid.iter().enumerate() {
            let mut recv = make(spec, aj.as_ref(), 2);
            let what = format!("{ni} -> {nj}");
            let fit = fits(&orig, &recv);
            if fit {
                roundtrip(&mut rep, &what, &orig, &mut recv);
                // a second object read into the same receiver
                let other = make(spec, ai.as_ref(), 3);
                roundtrip(&mut rep, &format!("{what} (2nd read)"), &other, &mut recv);
            } else {
                read_damaged(&mut rep, &format!("{what} (too small)"), &bytes, &mut recv, true);
            }
            let run_battery = j == i || (fit && j != i && !done_larger) || (!fit && !done_smaller);
            if run_battery {
                if j != i {
                    if fit {
                        done_larger = true
                    } else {
                        done_smaller = true
                    }
                }
                let mk = || make(spec, aj.as_ref(), 2);
                battery(&mut rep, &what, &orig, &skip, &mk);
            }
        }
    }
    // receiver reuse: small object, then an object that needs the receiver's full capacity
    for (_, ai) in grid.iter() {
        for (_, aj) in grid.iter() {
            let big = make(spec, aj.as_ref(), 1);
            let small = make(spec, ai.as_ref(), 3);
            let mut recv = make(spec, aj.as_ref(), 2);
            if fits(&small, &recv) && small.parsed().unwrap().meta() != big.parsed().unwrap().meta() {
                roundtrip(&mut rep, "reuse: small object", &small, &mut recv);
                roundtrip(&mut rep, "reuse: then an object of the receiver's allocated shape", &big, &mut recv);
            }
        }
    }
    rep
}

fn d(n: u32) -> Degree {
    Degree(n)
}
fn k(x: u32) -> TorusPrecision {
    TorusPrecision(x)
}

macro_rules! grid {
    ($t:ty; $( $label:expr => $e:expr ),+ $(,)?) => {{
        let g: Grid<$t> = vec![ $( ($label.to_string(), Box::new(move || $e) as Box<dyn Fn() -> $t>) ),+ ];
        g
    }};
}

// ------------------------------------------------------------------ standard layouts

#[test]
fn glwe() {
    drive(&GLWE_S, grid![GLWE<Vec<u8>>;
        "n8 k16 r1" => GLWE::alloc(d(8), B2K, k(16), Rank(1)),
        "n8 k24 r2" => GLWE::alloc(d(8), B2K, k(24), Rank(2)),
        "n16 k8 r0" => GLWE::alloc(d(16), B2K, k(8), Rank(0)),
        "n8 k8 r1" => GLWE::alloc(d(8), B2K, k(8), Rank(1)),
        "n32 k32 r1" => GLWE::alloc(d(32), B2K, k(32), Rank(1)),
    ])
    .assert_clean_ignoring(SOFT);
}

#[test]
fn lwe() {
    drive(&LWE_S, grid![LWE<Vec<u8>>;
        "n7 k16" => LWE::alloc(d(7), B2K, k(16)),
        "n15 k24" => LWE::alloc(d(15), B2K, k(24)),
        "n3 k8" => LWE::alloc(d(3), B2K, k(8)),
        "n31 k8" => LWE::alloc(d(31), B2K, k(8)),
    ])
    .assert_clean_ignoring(SOFT);
}

#[test]
fn glwe_public_key() {
    drive(&PK_S, grid![GLWEPublicKey<Vec<u8>>;
        "n8 k16 r1" => GLWEPublicKey::alloc(d(8), B2K, k(16), Rank(1)),
        "n8 k24 r2" => GLWEPublicKey::alloc(d(8), B2K, k(24), Rank(2)),
        "n16 k8 r1" => GLWEPublicKey::alloc(d(16), B2K, k(8), Rank(1)),
    ])
    .assert_clean_ignoring(SOFT);
}

#[test]
fn gglwe() {
    drive(&GGLWE_S, grid![GGLWE<Vec<u8>>;
        "n8 k24 1->1 d2x1" => GGLWE::alloc(d(8), B2K, k(24), Rank(1), Rank(1), Dnum(2), Dsize(1)),
        "n8 k24 2->1 d1x2" => GGLWE::alloc(d(8), B2K, k(24), Rank(2), Rank(1), Dnum(1), Dsize(2)),
        "n8 k40 2->2 d2x2" => GGLWE::alloc(d(8), B2K, k(40), Rank(2), Rank(2), Dnum(2), Dsize(2)),
        "n16 k16 1->2 d1x1" => GGLWE::alloc(d(16), B2K, k(16), Rank(1), Rank(2), Dnum(1), Dsize(1)),
    ])
    .assert_clean_ignoring(SOFT);
}

#[test]
fn ggsw() {
    drive(&GGSW_S, grid![GGSW<Vec<u8>>;
        "n8 k24 r1 d2x1" => GGSW::alloc(d(8), B2K, k(24), Rank(1), Dnum(2), Dsize(1)),
        "n8 k40 r2 d2x2" => GGSW::alloc(d(8), B2K, k(40), Rank(2), Dnum(2), Dsize(2)),
        "n16 k16 r1 d1x1" => GGSW::alloc(d(16), B2K, k(16), Rank(1), Dnum(1), Dsize(1)),
        "n8 k16 r0 d2x1" => GGSW::alloc(d(8), B2K, k(16), Rank(0), Dnum(2), Dsize(1)),
    ])
    .assert_clean_ignoring(SOFT);
}

#[test]
fn glwe_switching_key() {
    drive(&KSK_S, grid![GLWESwitchingKey<Vec<u8>>;
        "n8 k24 1->1 d2x1" => GLWESwitchingKey::alloc(d(8), B2K, k(24), Rank(1), Rank(1), Dnum(2), Dsize(1)),
        "n8 k40 2->2 d2x2" => GLWESwitchingKey::alloc(d(8), B2K, k(40), Rank(2), Rank(2), Dnum(2), Dsize(2)),
        "n16 k16 1->2 d1x1" => GLWESwitchingKey::alloc(d(16), B2K, k(16), Rank(1), Rank(2), Dnum(1), Dsize(1)),
    ])
    .assert_clean_ignoring(SOFT);
}

#[test]
fn glwe_automorphism_key() {
    drive(&ATK_S, grid![GLWEAutomorphismKey<Vec<u8>>;
        "n8 k24 r1 d2x1" => GLWEAutomorphismKey::alloc(d(8), B2K, k(24), Rank(1), Dnum(2), Dsize(1)),
        "n8 k40 r2 d2x2" => GLWEAutomorphismKey::alloc(d(8), B2K, k(40), Rank(2), Dnum(2), Dsize(2)),
        "n16 k16 r1 d1x1" => GLWEAutomorphismKey::alloc(d(16), B2K, k(16), Rank(1), Dnum(1), Dsize(1)),
    ])
    .assert_clean_ignoring(SOFT);
}

#[test]
fn glwe_tensor_key() {
    drive(&TK_S, grid![GLWETensorKey<Vec<u8>>;
        "n8 k24 r1 d2x1" => GLWETensorKey::alloc(d(8), B2K, k(24), Rank(1), Dnum(2), Dsize(1)),
        "n8 k40 r2 d2x2" => GLWETensorKey::alloc(d(8), B2K, k(40), Rank(2), Dnum(2), Dsize(2)),
        "n16 k16 r1 d1x1" => GLWETensorKey::alloc(d(16), B2K, k(16), Rank(1), Dnum(1), Dsize(1)),
    ])
    .assert_clean_ignoring(SOFT);
}

#[test]
fn lwe_to_glwe_key() {
    drive(&L2G_S, grid![LWEToGLWEKey<Vec<u8>>;
        "n8 k24 r1 d2" => LWEToGLWEKey::alloc(d(8), B2K, k(24), Rank(1), Dnum(2)),
        "n8 k32 r2 d3" => LWEToGLWEKey::alloc(d(8), B2K, k(32), Rank(2), Dnum(3)),
        "n16 k16 r1 d1" => LWEToGLWEKey::alloc(d(16), B2K, k(16), Rank(1), Dnum(1)),
    ])
    .assert_clean_ignoring(SOFT);
}

#[test]
fn lwe_switching_key() {
    drive(&LKS_S, grid![LWESwitchingKey<Vec<u8>>;
        "n8 k24 d2" => LWESwitchingKey::alloc(d(8), B2K, k(24), Dnum(2)),
        "n8 k32 d3" => LWESwitchingKey::alloc(d(8), B2K, k(32), Dnum(3)),
        "n16 k16 d1" => LWESwitchingKey::alloc(d(16), B2K, k(16), Dnum(1)),
    ])
    .assert_clean_ignoring(SOFT);
}

#[test]
fn glwe_to_lwe_key() {
    drive(&G2L_S, grid![GLWEToLWEKey<Vec<u8>>;
        "n8 k24 r1 d2" => GLWEToLWEKey::alloc(d(8), B2K, k(24), Rank(1), Dnum(2)),
        "n8 k32 r2 d3" => GLWEToLWEKey::alloc(d(8), B2K, k(32), Rank(2), Dnum(3)),
        "n16 k16 r1 d1" => GLWEToLWEKey::alloc(d(16), B2K, k(16), Rank(1), Dnum(1)),
    ])
    .assert_clean_ignoring(SOFT);
}

#[test]
fn gglwe_to_ggsw_key() {
    drive(&TSK_S, grid![GGLWEToGGSWKey<Vec<u8>>;
        "n8 k24 r1 d2x1" => GGLWEToGGSWKey::alloc(d(8), B2K, k(24), Rank(1), Dnum(2), Dsize(1)),
        "n8 k40 r2 d2x2" => GGLWEToGGSWKey::alloc(d(8), B2K, k(40), Rank(2), Dnum(2), Dsize(2)),
        "n8 k24 r2 d1x1" => GGLWEToGGSWKey::alloc(d(8), B2K, k(24), Rank(2), Dnum(1), Dsize(1)),
        "n16 k16 r1 d1x1" => GGLWEToGGSWKey::alloc(d(16), B2K, k(16), Rank(1), Dnum(1), Dsize(1)),
    ])
    .assert_clean_ignoring(SOFT);
}

// ------------------------------------------------------------------ compressed layouts

#[test]
fn lwe_compressed() {
    drive(&LWE_C, grid![LWECompressed<Vec<u8>>;
        "k16" => LWECompressed::alloc(B2K, k(16)),
        "k64" => LWECompressed::alloc(B2K, k(64)),
        "k136" => LWECompressed::alloc(B2K, k(136)),
    ])
    .assert_clean_ignoring(SOFT);
}

#[test]
fn glwe_compressed() {
    drive(&GLWE_C, grid![GLWECompressed<Vec<u8>>;
        "n8 k16 r1" => GLWECompressed::alloc(d(8), B2K, k(16), Rank(1)),
        "n8 k24 r2" => GLWECompressed::alloc(d(8), B2K, k(24), Rank(2)),
        "n16 k8 r0" => GLWECompressed::alloc(d(16), B2K, k(8), Rank(0)),
        "n32 k32 r1" => GLWECompressed::alloc(d(32), B2K, k(32), Rank(1)),
    ])
    .assert_clean_ignoring(SOFT);
}

#[test]
fn gglwe_compressed() {
    drive(&GGLWE_C, grid![GGLWECompressed<Vec<u8>>;
        "n8 k24 1->1 d2x1" => GGLWECompressed::alloc(d(8), B2K, k(24), Rank(1), Rank(1), Dnum(2), Dsize(1)),
        "n8 k24 2->1 d1x2" => GGLWECompressed::alloc(d(8), B2K, k(24), Rank(2), Rank(1), Dnum(1), Dsize(2)),
        "n8 k40 2->2 d2x2" => GGLWECompressed::alloc(d(8), B2K, k(40), Rank(2), Rank(2), Dnum(2), Dsize(2)),
        "n16 k16 1->2 d1x1" => GGLWECompressed::alloc(d(16), B2K, k(16), Rank(1), Rank(2), Dnum(1), Dsize(1)),
    ])
    .assert_clean_ignoring(SOFT);
}

#[test]
fn ggsw_compressed() {
    drive(&GGSW_C, grid![GGSWCompressed<Vec<u8>>;
        "n8 k24 r1 d2x1" => GGSWCompressed::alloc(d(8), B2K, k(24), Rank(1), Dnum(2), Dsize(1)),
        "n8 k40 r2 d2x2" => GGSWCompressed::alloc(d(8), B2K, k(40), Rank(2), Dnum(2), Dsize(2)),
        "n16 k16 r1 d1x1" => GGSWCompressed::alloc(d(16), B2K, k(16), Rank(1), Dnum(1), Dsize(1)),
        "n8 k16 r0 d2x1" => GGSWCompressed::alloc(d(8), B2K, k(16), Rank(0), Dnum(2), Dsize(1)),
    ])
    .assert_clean_ignoring(SOFT);
}

#[test]
fn glwe_switching_key_compressed() {
    drive(&KSK_C, grid![GLWESwitchingKeyCompressed<Vec<u8>>;
        "n8 k24 1->1 d2x1" => GLWESwitchingKeyCompressed::alloc(d(8), B2K, k(24), Rank(1), Rank(1), Dnum(2), Dsize(1)),
        "n8 k40 2->2 d2x2" => GLWESwitchingKeyCompressed::alloc(d(8), B2K, k(40), Rank(2), Rank(2), Dnum(2), Dsize(2)),
        "n16 k16 1->2 d1x1" => GLWESwitchingKeyCompressed::alloc(d(16), B2K, k(16), Rank(1), Rank(2), Dnum(1), Dsize(1)),
    ])
    .assert_clean_ignoring(SOFT);
}

#[test]
fn glwe_automorphism_key_compressed() {
    drive(&ATK_C, grid![GLWEAutomorphismKeyCompressed<Vec<u8>>;
        "n8 k24 r1 d2x1" => GLWEAutomorphismKeyCompressed::alloc(d(8), B2K, k(24), Rank(1), Dnum(2), Dsize(1)),
        "n8 k40 r2 d2x2" => GLWEAutomorphismKeyCompressed::alloc(d(8), B2K, k(40), Rank(2), Dnum(2), Dsize(2)),
        "n16 k16 r1 d1x1" => GLWEAutomorphismKeyCompressed::alloc(d(16), B2K, k(16), Rank(1), Dnum(1), Dsize(1)),
    ])
    .assert_clean_ignoring(SOFT);
}

#[test]
fn glwe_tensor_key_compressed() {
    drive(&TK_C, grid![GLWETensorKeyCompressed<Vec<u8>>;
        "n8 k24 r1 d2x1" => GLWETensorKeyCompressed::alloc(d(8), B2K, k(24), Rank(1), Dnum(2), Dsize(1)),
        "n8 k40 r2 d2x2" => GLWETensorKeyCompressed::alloc(d(8), B2K, k(40), Rank(2), Dnum(2), Dsize(2)),
        "n16 k16 r1 d1x1" => GLWETensorKeyCompressed::alloc(d(16), B2K, k(16), Rank(1), Dnum(1), Dsize(1)),
    ])
    .assert_clean_ignoring(SOFT);
}

#[test]
fn lwe_to_glwe_key_compressed() {
    drive(&L2G_C, grid![LWEToGLWEKeyCompressed<Vec<u8>>;
        "n8 k24 r1 d2" => LWEToGLWEKeyCompressed::alloc(d(8), B2K, k(24), Rank(1), Dnum(2)),
        "n8 k32 r2 d3" => LWEToGLWEKeyCompressed::alloc(d(8), B2K, k(32), Rank(2), Dnum(3)),
        "n16 k16 r1 d1" => LWEToGLWEKeyCompressed::alloc(d(16), B2K, k(16), Rank(1), Dnum(1)),
    ])
    .assert_clean_ignoring(SOFT);
}

#[test]
fn lwe_switching_key_compressed() {
    drive(&LKS_C, grid![LWESwitchingKeyCompressed<Vec<u8>>;
        "n8 k24 d2" => LWESwitchingKeyCompressed::alloc(d(8), B2K, k(24), Dnum(2)),
        "n8 k32 d3" => LWESwitchingKeyCompressed::alloc(d(8), B2K, k(32), Dnum(3)),
        "n16 k16 d1" => LWESwitchingKeyCompressed::alloc(d(16), B2K, k(16), Dnum(1)),
    ])
    .assert_clean_ignoring(SOFT);
}

#[test]
fn glwe_to_lwe_key_compressed() {
    drive(&G2L_C, grid![GLWEToLWESwitchingKeyCompressed<Vec<u8>>;
        "n8 k24 r1 d2" => GLWEToLWESwitchingKeyCompressed::alloc(d(8), B2K, k(24), Rank(1), Dnum(2)),
        "n8 k32 r2 d3" => GLWEToLWESwitchingKeyCompressed::alloc(d(8), B2K, k(32), Rank(2), Dnum(3)),
        "n16 k16 r1 d1" => GLWEToLWESwitchingKeyCompressed::alloc(d(16), B2K, k(16), Rank(1), Dnum(1)),
    ])
    .assert_clean_ignoring(SOFT);
}

#[test]
fn gglwe_to_ggsw_key_compressed() {
    drive(&TSK_C, grid![GGLWEToGGSWKeyCompressed<Vec<u8>>;
        "n8 k24 r1 d2x1" => GGLWEToGGSWKeyCompressed::alloc(d(8), B2K, k(24), Rank(1), Dnum(2), Dsize(1)),
        "n8 k40 r2 d2x2" => GGLWEToGGSWKeyCompressed::alloc(d(8), B2K, k(40), Rank(2), Dnum(2), Dsize(2)),
        "n8 k24 r2 d1x1" => GGLWEToGGSWKeyCompressed::alloc(d(8), B2K, k(24), Rank(2), Dnum(1), Dsize(1)),
        "n16 k16 r1 d1x1" => GGLWEToGGSWKeyCompressed::alloc(d(16), B2K, k(16), Rank(1), Dnum(1), Dsize(1)),
    ])
    .assert_clean_ignoring(SOFT);
}

// ------------------------------------------------------------------ Distribution

#[test]
fn distribution_word_round_trip() {
    use poulpy_core::Distribution::{self, *};
    let rt = |d: Distribution| -> Distribution {
        let mut v = Vec::new();
        d.write_to(&mut v).unwrap();
        assert_eq!(v.len(), 8);
        Distribution::read_from(&mut &v[..]).unwrap()
    };
    // exact variants, payloads up to the documented 56 bits
    for h in [0usize, 1, 2, 1 << 31, (1 << 56) - 1] {
        assert_eq!(rt(TernaryFixed(h)), TernaryFixed(h));
        assert_eq!(rt(BinaryFixed(h)), BinaryFixed(h));
        assert_eq!(rt(BinaryBlock(h)), BinaryBlock(h));
    }
    assert_eq!(rt(ZERO), ZERO);
    assert_eq!(rt(NONE), NONE);
    // probabilistic variants: documented loss of the 8 low mantissa bits
    for p in [0.0f64, 0.5, 1.0, 1.0 / 3.0, 0.1, f64::MIN_POSITIVE, -0.25] {
        for d in [TernaryProb(p), BinaryProb(p)] {
            let q = match rt(d) {
                TernaryProb(q) | BinaryProb(q) => q,
                o => panic!("variant changed: {o:?}"),
            };
            assert!((q - p).abs() <= p.abs() * 2f64.powi(-44), "{p} -> {q}");
            assert_eq!(std::mem::discriminant(&rt(d)), std::mem::discriminant(&d));
        }
    }
    // every tag byte, every truncation
    for tag in 0u16..256 {
        let w = ((tag as u64) << 56) | 0x1234;
        let r = Distribution::read_from(&mut &w.to_le_bytes()[..]);
        assert_eq!(r.is_ok(), tag <= 6, "tag {tag}");
    }
    for t in 0..8 {
        assert!(Distribution::read_from(&mut &[0u8; 8][..t]).is_err());
    }
}
