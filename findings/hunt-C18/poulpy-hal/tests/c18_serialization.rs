//! C18 audit: VecZnx / ScalarZnx / MatZnx serialisation round trips and damaged input.
mod c18_common;
use c18_common::*;

use poulpy_hal::{
    layouts::{FillUniform, MatZnx, ReaderFrom, ScalarZnx, VecZnx, WriterTo, ZnxInfos, ZnxView},
    source::Source,
};

// ---------------------------------------------------------------- probes

impl Probe for VecZnx<Vec<u8>> {
    fn meta(&self) -> String {
        format!("n={} cols={} size={} max_size={}", self.n, self.cols, self.size, self.max_size)
    }
    fn consistent(&self) -> Result<(), String> {
        vec_consistent(self.n, self.cols, self.size, self.max_size, self.data.len())
    }
    fn exercise(&self) {
        let _ = self.raw().len();
        for c in 0..self.cols.min(4) {
            for l in 0..self.size.min(4) {
                let _ = self.at(c, l).iter().fold(0i64, |a, b| a ^ *b);
            }
        }
    }
    fn same(&self, o: &Self) -> bool {
        self.n == o.n && self.cols == o.cols && self.size == o.size && self.raw() == o.raw()
    }
}

pub fn vec_consistent(n: usize, cols: usize, size: usize, max_size: usize, len: usize) -> Result<(), String> {
    match checked_product(&[n, cols, size, 8]) {
        Some(b) if b <= len => {}
        b => return Err(format!("n={n} cols={cols} size={size}: bytes {b:?} > buffer {len}")),
    }
    if size > max_size {
        return Err(format!("size={size} > max_size={max_size}"));
    }
    match checked_product(&[n, cols, max_size, 8]) {
        Some(b) if b <= len => {}
        b => return Err(format!("n={n} cols={cols} max_size={max_size}: capacity bytes {b:?} > buffer {len}")),
    }
    // the accessors compute n * (rows * cols * size) without the factor 8 and in another order
    if checked_product(&[cols, size]).and_then(|p| p.checked_mul(n)).is_none() {
        return Err(format!("n={n} cols={cols} size={size}: poly_count overflows"));
    }
    Ok(())
}

impl Probe for ScalarZnx<Vec<u8>> {
    fn meta(&self) -> String {
        format!("n={} cols={}", self.n, self.cols)
    }
    fn consistent(&self) -> Result<(), String> {
        match checked_product(&[self.n, self.cols, 8]) {
            Some(b) if b <= self.data.len() => Ok(()),
            b => Err(format!("n={} cols={}: bytes {b:?} > buffer {}", self.n, self.cols, self.data.len())),
        }
    }
    fn exercise(&self) {
        let _ = self.raw().len();
        for c in 0..self.cols.min(4) {
            let _ = self.at(c, 0).len();
        }
    }
    fn same(&self, o: &Self) -> bool {
        self.n == o.n && self.cols == o.cols && self.raw() == o.raw()
    }
}

impl Probe for MatZnx<Vec<u8>> {
    fn meta(&self) -> String {
        format!(
            "n={} rows={} cols_in={} cols_out={} size={}",
            self.n(),
            self.rows(),
            self.cols_in(),
            self.cols_out(),
            self.size()
        )
    }
    fn consistent(&self) -> Result<(), String> {
        let len = poulpy_hal::layouts::DataView::data(self).len();
        match checked_product(&[self.rows(), self.cols_in(), self.n(), self.cols_out(), self.size(), 8]) {
            Some(b) if b <= len => {}
            b => return Err(format!("{}: bytes {b:?} > buffer {len}", self.meta())),
        }
        if checked_product(&[self.rows(), self.cols_in(), self.cols_out(), self.size(), self.n()]).is_none() {
            return Err(format!("{}: poly_count overflows", self.meta()));
        }
        Ok(())
    }
    fn exercise(&self) {
        let _ = self.raw().len();
        for r in 0..self.rows().min(3) {
            for c in 0..self.cols_in().min(3) {
                let v = self.at(r, c);
                for co in 0..v.cols().min(3) {
                    for l in 0..v.size().min(3) {
                        let _ = v.at(co, l).len();
                    }
                }
            }
        }
    }
    fn same(&self, o: &Self) -> bool {
        self.meta() == o.meta() && self.raw() == o.raw()
    }
}

fn dirty_vec(n: usize, cols: usize, size: usize, seed: u8) -> VecZnx<Vec<u8>> {
    let mut v = VecZnx::alloc(n, cols, size);
    v.fill_uniform(64, &mut Source::new([seed; 32]));
    v
}
fn dirty_scalar(n: usize, cols: usize, seed: u8) -> ScalarZnx<Vec<u8>> {
    let mut v = ScalarZnx::alloc(n, cols);
    v.fill_uniform(64, &mut Source::new([seed; 32]));
    v
}
fn dirty_mat(n: usize, rows: usize, ci: usize, co: usize, size: usize, seed: u8) -> MatZnx<Vec<u8>> {
    let mut v = MatZnx::alloc(n, rows, ci, co, size);
    v.fill_uniform(64, &mut Source::new([seed; 32]));
    v
}

// ---------------------------------------------------------------- VecZnx

#[test]
fn vec_znx_roundtrip_grid() {
    let mut rep = Report::new("VecZnx roundtrip");
    for &n in &[1usize, 2, 3, 8, 16] {
        for cols in 0..4usize {
            for size in 0..4usize {
                let orig = dirty_vec(n, cols, size, 1);
                // same shape, dirty
                roundtrip(&mut rep, &format!("same n={n} cols={cols} size={size}"), &orig, &mut dirty_vec(n, cols, size, 2));
                // larger receivers (more limbs / more columns / larger n)
                roundtrip(&mut rep, &format!("more limbs n={n} cols={cols} size={size}"), &orig, &mut dirty_vec(n, cols, size + 2, 2));
                roundtrip(&mut rep, &format!("more cols n={n} cols={cols} size={size}"), &orig, &mut dirty_vec(n, cols + 1, size, 2));
                roundtrip(&mut rep, &format!("larger n n={n} cols={cols} size={size}"), &orig, &mut dirty_vec(2 * n, cols, size, 2));
                // different shape, same byte capacity
                roundtrip(&mut rep, &format!("transposed n={n} cols={cols} size={size}"), &orig, &mut dirty_vec(n, size, cols, 2));
                roundtrip(&mut rep, &format!("flat n={n} cols={cols} size={size}"), &orig, &mut dirty_vec(n * cols.max(1) * size.max(1), 1, 1, 2));
            }
        }
    }
    rep.assert_clean();
}

/// An object whose active size was reduced below its allocation (documented use: "`size` can be
/// reduced without reallocation") must round trip into any receiver that can hold its active limbs.
#[test]
fn vec_znx_roundtrip_shrunk_sender() {
    let mut rep = Report::new("VecZnx shrunk sender");
    for &(n, cols, max_size, size) in &[(8usize, 2usize, 4usize, 2usize), (8, 1, 3, 1), (4, 2, 2, 0), (16, 3, 5, 4)] {
        let mut orig = dirty_vec(n, cols, max_size, 1);
        orig.set_size(size);
        // receiver with the sender's capacity
        roundtrip(&mut rep, &format!("recv cap=max_size n={n} cols={cols} max={max_size} size={size}"), &orig, &mut dirty_vec(n, cols, max_size, 2));
        // receiver that holds exactly the active limbs
        roundtrip(&mut rep, &format!("recv cap=size n={n} cols={cols} max={max_size} size={size}"), &orig, &mut dirty_vec(n, cols, size, 2));
        // receiver in between
        roundtrip(&mut rep, &format!("recv cap=size+1 n={n} cols={cols} max={max_size} size={size}"), &orig, &mut dirty_vec(n, cols, size + 1, 2));
    }
    rep.assert_clean();
}

/// After a successful read into a larger receiver, the receiver can still take an object that
/// fits its buffer (capacity is a property of the buffer, not of the last object read).
#[test]
fn vec_znx_receiver_reuse() {
    let mut rep = Report::new("VecZnx receiver reuse");
    let small = dirty_vec(8, 2, 1, 1);
    let big = dirty_vec(8, 2, 4, 3);
    let mut recv = dirty_vec(8, 2, 4, 2);
    roundtrip(&mut rep, "small into big receiver", &small, &mut recv);
    roundtrip(&mut rep, "big into the same receiver", &big, &mut recv);
    roundtrip(&mut rep, "small again", &small, &mut recv);
    // set_size within max_size must stay inside the buffer
    let ms = recv.max_size();
    recv.set_size(ms);
    if let Err(e) = recv.consistent() {
        rep.fail("set_size(max_size) leaves the buffer", e);
    }
    rep.assert_clean();
}

#[test]
fn vec_znx_smaller_receiver_rejected() {
    silence_panics();
    let mut rep = Report::new("VecZnx smaller receiver");
    for &(n, cols, size) in &[(8usize, 2usize, 3usize), (16, 1, 1), (16, 3, 2)] {
        // NB: alloc pads the buffer to a multiple of 64 bytes, so shapes are chosen on 64-byte boundaries
        let orig = dirty_vec(n, cols, size, 1);
        let bytes = to_bytes(&orig);
        for (rn, rc, rs) in [(n, cols, size - 1), (n, cols - 1, size), (n / 2, cols, size), (0, 0, 0), (n, cols, 0)] {
            let mut recv = dirty_vec(rn, rc, rs, 2);
            read_damaged(&mut rep, &format!("obj {n}x{cols}x{size} into {rn}x{rc}x{rs}"), &bytes, &mut recv, true);
        }
    }
    rep.assert_clean();
}

#[test]
fn vec_znx_damaged_streams() {
    silence_panics();
    let mut rep = Report::new("VecZnx damaged");
    for &(n, cols, size, max) in &[
        (8usize, 2usize, 3usize, 3usize),
        (1, 1, 1, 1),
        (4, 3, 2, 4),
        (2, 1, 0, 0),
        (2, 0, 2, 2),
        (16, 2, 1, 2),
    ] {
        let mut orig = dirty_vec(n, cols, max, 1);
        orig.set_size(size);
        let payload = n * cols * size * 8;
        for (label, rn, rc, rs) in [("same", n, cols, max), ("larger", 2 * n, cols + 1, max + 2), ("smaller", n, cols, max.saturating_sub(1))] {
            let mk = move || dirty_vec(rn, rc, rs, 2);
            battery(&mut rep, &format!("obj {n}x{cols}x{size}/{max} recv {label}"), &orig, &[(40, payload)], &mk);
        }
    }
    rep.assert_clean();
}

/// Borrowed receivers (`&mut [u8]`) go through the same code; make sure the generic impl does.
#[test]
fn vec_znx_borrowed_receiver() {
    let orig = dirty_vec(8, 2, 3, 1);
    let bytes = to_bytes(&orig);
    let mut backing = dirty_vec(8, 2, 5, 2);
    {
        let mut view: VecZnx<&mut [u8]> = VecZnx {
            data: backing.data.as_mut_slice(),
            n: 8,
            cols: 2,
            size: 5,
            max_size: 5,
        };
        view.read_from(&mut &bytes[..]).unwrap();
        assert_eq!((view.n, view.cols, view.size, view.max_size), (8, 2, 3, 3));
        assert_eq!(view.raw(), orig.raw());
        let mut again = Vec::new();
        view.write_to(&mut again).unwrap();
        assert_eq!(again, bytes);
    }
}

// ---------------------------------------------------------------- ScalarZnx

#[test]
fn scalar_znx_roundtrip_grid() {
    let mut rep = Report::new("ScalarZnx roundtrip");
    for &n in &[1usize, 2, 3, 8, 16] {
        for cols in 0..4usize {
            let orig = dirty_scalar(n, cols, 1);
            roundtrip(&mut rep, &format!("same n={n} cols={cols}"), &orig, &mut dirty_scalar(n, cols, 2));
            roundtrip(&mut rep, &format!("more cols n={n} cols={cols}"), &orig, &mut dirty_scalar(n, cols + 2, 2));
            roundtrip(&mut rep, &format!("larger n n={n} cols={cols}"), &orig, &mut dirty_scalar(2 * n, cols, 2));
            roundtrip(&mut rep, &format!("flat n={n} cols={cols}"), &orig, &mut dirty_scalar(n * cols.max(1), 1, 2));
        }
    }
    rep.assert_clean();
}

#[test]
fn scalar_znx_damaged_streams() {
    silence_panics();
    let mut rep = Report::new("ScalarZnx damaged");
    for &(n, cols) in &[(8usize, 2usize), (1, 1), (4, 3), (2, 0), (16, 1)] {
        let orig = dirty_scalar(n, cols, 1);
        let payload = n * cols * 8;
        for (label, rn, rc) in [("same", n, cols), ("larger", 2 * n, cols + 1), ("smaller", n, cols.saturating_sub(1))] {
            let mk = move || dirty_scalar(rn, rc, 2);
            battery(&mut rep, &format!("obj {n}x{cols} recv {label}"), &orig, &[(24, payload)], &mk);
        }
    }
    rep.assert_clean();
}

// ---------------------------------------------------------------- MatZnx

#[test]
fn mat_znx_roundtrip_grid() {
    let mut rep = Report::new("MatZnx roundtrip");
    for &n in &[1usize, 2, 8] {
        for rows in 0..3usize {
            for ci in 0..3usize {
                for co in 0..3usize {
                    for size in 0..3usize {
                        let orig = dirty_mat(n, rows, ci, co, size, 1);
                        let w = format!("n={n} rows={rows} ci={ci} co={co} size={size}");
                        roundtrip(&mut rep, &format!("same {w}"), &orig, &mut dirty_mat(n, rows, ci, co, size, 2));
                        roundtrip(&mut rep, &format!("larger {w}"), &orig, &mut dirty_mat(2 * n, rows + 1, ci + 1, co + 1, size + 1, 2));
                        roundtrip(&mut rep, &format!("permuted {w}"), &orig, &mut dirty_mat(n, size, co, ci, rows, 2));
                    }
                }
            }
        }
    }
    rep.assert_clean();
}

#[test]
fn mat_znx_damaged_streams() {
    silence_panics();
    let mut rep = Report::new("MatZnx damaged");
    for &(n, rows, ci, co, size) in &[
        (8usize, 2usize, 2usize, 3usize, 2usize),
        (1, 1, 1, 1, 1),
        (4, 3, 1, 2, 2),
        (2, 0, 1, 2, 2),
        (2, 2, 1, 2, 0),
    ] {
        let orig = dirty_mat(n, rows, ci, co, size, 1);
        let payload = n * rows * ci * co * size * 8;
        for (label, f) in [("same", 0usize), ("larger", 1), ("smaller", 2)] {
            let mk = move || match f {
                0 => dirty_mat(n, rows, ci, co, size, 2),
                1 => dirty_mat(2 * n, rows + 1, ci, co + 1, size + 1, 2),
                _ => dirty_mat(n, rows.saturating_sub(1), ci, co, size, 2),
            };
            battery(&mut rep, &format!("obj {n}x{rows}x{ci}x{co}x{size} recv {label}"), &orig, &[(48, payload)], &mk);
        }
    }
    rep.assert_clean();
}

// ---------------------------------------------------------------- multi-field boundary headers

/// Hand-written headers whose fields are all taken from the boundary dictionary (several
/// fields at once), so that the length check alone cannot reject them.
#[test]
fn vec_znx_boundary_headers() {
    silence_panics();
    let mut rep = Report::new("VecZnx boundary headers");
    let dict: [u64; 12] = [0, 1, 2, 8, 1 << 31, 1 << 32, 1 << 60, 1 << 61, 1 << 62, 1 << 63, u64::MAX - 1, u64::MAX];
    for &n in &dict {
        for &cols in &dict {
            for &size in &dict {
                for &max in &[0u64, size, size.wrapping_add(1), u64::MAX] {
                    // the advertised byte length is the wrapped product so that a wrapping reader accepts it
                    let wrapped = n.wrapping_mul(cols).wrapping_mul(size).wrapping_mul(8);
                    for &len in &[wrapped, 0u64, 128] {
                        let mut bytes = Vec::new();
                        for w in [n, cols, size, max, len] {
                            bytes.extend_from_slice(&w.to_le_bytes());
                        }
                        bytes.extend_from_slice(&[0xabu8; 128]);
                        let mut recv = dirty_vec(8, 2, 1, 2); // 128 bytes
                        read_damaged(&mut rep, &format!("hdr n={n} cols={cols} size={size} max={max} len={len}"), &bytes, &mut recv, false);
                    }
                }
            }
        }
    }
    rep.assert_clean();
}

#[test]
fn mat_znx_boundary_headers() {
    silence_panics();
    let mut rep = Report::new("MatZnx boundary headers");
    let dict: [u64; 8] = [0, 1, 2, 1 << 32, 1 << 61, 1 << 63, u64::MAX - 1, u64::MAX];
    for &n in &dict {
        for &size in &dict {
            for &rows in &dict {
                for &ci in &dict {
                    for &co in &dict {
                        let wrapped = n.wrapping_mul(size).wrapping_mul(rows).wrapping_mul(ci).wrapping_mul(co).wrapping_mul(8);
                        for &len in &[wrapped, 0u64] {
                            let mut bytes = Vec::new();
                            for w in [n, size, rows, ci, co, len] {
                                bytes.extend_from_slice(&w.to_le_bytes());
                            }
                            bytes.extend_from_slice(&[0xabu8; 64]);
                            let mut recv = dirty_mat(2, 2, 1, 2, 1, 2); // 64 bytes
                            read_damaged(&mut rep, &format!("hdr n={n} size={size} rows={rows} ci={ci} co={co} len={len}"), &bytes, &mut recv, false);
                        }
                    }
                }
            }
        }
    }
    rep.assert_clean();
}

#[test]
fn scalar_znx_boundary_headers() {
    silence_panics();
    let mut rep = Report::new("ScalarZnx boundary headers");
    let dict: [u64; 12] = [0, 1, 2, 8, 1 << 31, 1 << 32, 1 << 60, 1 << 61, 1 << 62, 1 << 63, u64::MAX - 1, u64::MAX];
    for &n in &dict {
        for &cols in &dict {
            let wrapped = n.wrapping_mul(cols).wrapping_mul(8);
            for &len in &[wrapped, 0u64, 64] {
                let mut bytes = Vec::new();
                for w in [n, cols, len] {
                    bytes.extend_from_slice(&w.to_le_bytes());
                }
                bytes.extend_from_slice(&[0xabu8; 64]);
                let mut recv = dirty_scalar(8, 1, 2);
                read_damaged(&mut rep, &format!("hdr n={n} cols={cols} len={len}"), &bytes, &mut recv, false);
            }
        }
    }
    rep.assert_clean();
}
