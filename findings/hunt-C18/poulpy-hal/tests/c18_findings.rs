//! C18 audit: minimal reproductions (poulpy-hal).  Each test fails on the audited tree.
use poulpy_hal::{
    layouts::{FillUniform, ReaderFrom, VecZnx, WriterTo, ZnxView, ZnxViewMut},
    source::Source,
};

/// F1. `VecZnx::write_to` emits the *sender's allocation capacity* (`max_size`) and
/// `VecZnx::read_from` rejects the stream unless the receiver can hold `max_size` limbs, although
/// only `size` limbs are transmitted.  An object whose active size was reduced with `set_size`
/// ("`size` can be reduced without reallocation") therefore does not round trip into a receiver
/// that is exactly as large as the object.
#[test]
fn f1_vec_znx_with_reduced_size_does_not_round_trip() {
    let mut a: VecZnx<Vec<u8>> = VecZnx::alloc(8, 1, 2);
    a.fill_uniform(50, &mut Source::new([1u8; 32]));
    a.set_size(1); // 1 active limb, capacity 2

    let mut bytes = Vec::new();
    a.write_to(&mut bytes).unwrap();
    assert_eq!(bytes.len(), 40 + 8 * 8, "only the active limb is written");

    // a receiver that holds exactly the object (n=8, cols=1, size=1)
    let mut b: VecZnx<Vec<u8>> = VecZnx::alloc(8, 1, 1);
    let r = b.read_from(&mut &bytes[..]);
    assert!(r.is_ok(), "receiver of sufficient capacity rejected: {}", r.unwrap_err());
    assert_eq!((b.n, b.cols, b.size), (8, 1, 1));
    assert_eq!(b.at(0, 0), a.at(0, 0));
    assert!(b.max_size * b.n * b.cols * 8 <= b.data.len());
}

/// F6 (low). Equality of the layouts is the derived `PartialEq` over the whole backing buffer,
/// i.e. it also compares the alignment padding added by `alloc` and any spare capacity.  Reading
/// an object back into a dirty receiver of the *same shape* gives an object that is logically
/// identical but `!=` to the original.
#[test]
fn f6_round_trip_into_dirty_receiver_of_same_shape_is_not_eq() {
    // n=1, cols=1, size=1: 8 active bytes, buffer padded to 64 bytes by alloc
    let mut a: VecZnx<Vec<u8>> = VecZnx::alloc(1, 1, 1);
    a.at_mut(0, 0)[0] = 5;
    let mut bytes = Vec::new();
    a.write_to(&mut bytes).unwrap();

    let mut b: VecZnx<Vec<u8>> = VecZnx::alloc(1, 1, 1);
    b.fill_uniform(64, &mut Source::new([2u8; 32])); // log_bound = 64 fills the whole buffer
    b.read_from(&mut &bytes[..]).unwrap();
    assert_eq!((b.n, b.cols, b.size, b.max_size), (a.n, a.cols, a.size, a.max_size));
    assert_eq!(b.raw(), a.raw());
    assert!(a == b, "logically identical objects compare unequal (padding bytes differ)");
}

/// R1 (low, residual of the header validation). `checked_len` folds from the left, so a zero
/// early in the list hides the overflow of the remaining factors: n=0 makes any cols/size pass.
/// The accessors then overflow (`raw()` computes n * (rows * cols * size)).
#[test]
fn r1_zero_degree_header_with_huge_dims_is_accepted() {
    let mut bytes = Vec::new();
    for w in [0u64, 2, 1 << 63, 1 << 63, 0] {
        // n, cols, size, max_size, len
        bytes.extend_from_slice(&w.to_le_bytes());
    }
    let mut b: VecZnx<Vec<u8>> = VecZnx::alloc(8, 1, 1);
    let r = b.read_from(&mut &bytes[..]);
    assert!(r.is_err(), "accepted: n={} cols={} size={} max_size={}", b.n, b.cols, b.size, b.max_size);
}
