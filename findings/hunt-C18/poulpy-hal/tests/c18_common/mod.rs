//! Shared harness for the C18 (serialisation) audit tests.
//!
//! The harness is type agnostic: a `Probe` describes, for one serialisable type,
//! how to fingerprint the metadata, how to check the metadata against the buffer
//! and how to compare two objects logically (dimensions + active coefficients).
#![allow(dead_code)]

use std::{
    collections::BTreeMap,
    io::Cursor,
    panic::{AssertUnwindSafe, catch_unwind},
};

use poulpy_hal::layouts::{ReaderFrom, WriterTo};

pub trait Probe: WriterTo + ReaderFrom {
    /// Fingerprint of every field that is not the coefficient buffer.
    fn meta(&self) -> String;
    /// Ok if the dimensions are mutually consistent with the buffer.  Must not touch unsafe accessors.
    fn consistent(&self) -> Result<(), String>;
    /// Calls the public accessors of the type (only called once `consistent` passed).
    fn exercise(&self) {}
    /// Logical equality: same metadata and same active coefficients.
    fn same(&self, other: &Self) -> bool;
}

#[derive(Default)]
pub struct Report {
    pub name: String,
    pub failures: BTreeMap<String, (usize, String)>,
    pub reads: usize,
    pub ok_reads: usize,
}

impl Report {
    pub fn new(name: &str) -> Self {
        Self {
            name: name.to_string(),
            ..Default::default()
        }
    }

    pub fn fail(&mut self, class: &str, detail: String) {
        let e = self.failures.entry(class.to_string()).or_insert((0, detail));
        e.0 += 1;
    }

    pub fn merge(&mut self, other: Report) {
        for (k, (c, d)) in other.failures {
            let e = self.failures.entry(format!("{}: {}", other.name, k)).or_insert((0, d));
            e.0 += c;
        }
        self.reads += other.reads;
        self.ok_reads += other.ok_reads;
    }

    pub fn print(&self) {
        eprintln!(
            "[{}] reads={} accepted={} failure classes={}",
            self.name,
            self.reads,
            self.ok_reads,
            self.failures.len()
        );
        for (k, (c, d)) in &self.failures {
            eprintln!("  FAIL x{c}: {k}\n      first: {d}");
        }
    }

    /// Like `assert_clean`, but failure classes containing one of `soft` are only printed
    /// (they are asserted by dedicated tests in c18_findings.rs).
    pub fn assert_clean_ignoring(&self, soft: &[&str]) {
        self.print();
        let hard: Vec<&String> = self.failures.keys().filter(|k| !soft.iter().any(|s| k.contains(s))).collect();
        assert!(
            hard.is_empty(),
            "[{}] {} failure classes ({} more ignored here): {:?}",
            self.name,
            hard.len(),
            self.failures.len() - hard.len(),
            hard
        );
    }

    pub fn assert_clean(&self) {
        self.print();
        assert!(self.failures.is_empty(), "[{}] {} failure classes", self.name, self.failures.len());
    }
}

pub fn panic_msg(e: Box<dyn std::any::Any + Send>) -> String {
    if let Some(s) = e.downcast_ref::<String>() {
        s.clone()
    } else if let Some(s) = e.downcast_ref::<&str>() {
        s.to_string()
    } else {
        "<non-string panic>".to_string()
    }
}

/// Strips the digits so that panics differing only by values fall into one class.
pub fn classify(msg: &str) -> String {
    let mut out = String::new();
    let mut last_digit = false;
    for c in msg.chars().take(160) {
        if c.is_ascii_digit() {
            if !last_digit {
                out.push('#');
            }
            last_digit = true;
        } else {
            out.push(c);
            last_digit = false;
        }
    }
    out
}

thread_local! {
    static QUIET: std::cell::Cell<bool> = const { std::cell::Cell::new(false) };
}

/// Installs a hook that stays silent only while a probe is running under `quiet`.
pub fn silence_panics() {
    std::panic::set_hook(Box::new(|info| {
        if !QUIET.with(|q| q.get()) {
            eprintln!("{info}");
        }
    }));
}

pub fn quiet<R>(f: impl FnOnce() -> R) -> std::thread::Result<R> {
    let prev = QUIET.with(|q| q.replace(true));
    let r = catch_unwind(AssertUnwindSafe(f));
    QUIET.with(|q| q.set(prev));
    r
}

pub fn to_bytes<T: WriterTo>(x: &T) -> Vec<u8> {
    let mut v = Vec::new();
    x.write_to(&mut v).expect("write_to failed");
    v
}

/// Reads `bytes` into `recv` and checks the contract of a *damaged* stream:
/// no panic; on Err the metadata is unchanged; on Ok the object is consistent (and usable).
pub fn read_damaged<T: Probe>(rep: &mut Report, what: &str, bytes: &[u8], recv: &mut T, must_fail: bool) {
    let before = recv.meta();
    rep.reads += 1;
    let mut cur = Cursor::new(bytes);
    let r = quiet(|| recv.read_from(&mut cur));
    match r {
        Err(p) => {
            let m = panic_msg(p);
            rep.fail(&format!("read_from PANIC [{}]", classify(&m)), format!("{what}: {m}"));
        }
        Ok(Err(_)) => {
            let mc = quiet(|| recv.meta());
            match mc {
                Ok(after) => {
                    if after != before {
                        rep.fail(
                            "Err but metadata changed",
                            format!("{what}: before={before} after={after}"),
                        );
                    }
                }
                Err(p) => rep.fail("Err and meta() panics", format!("{what}: {}", panic_msg(p))),
            }
            if let Err(e) = recv.consistent() {
                rep.fail("Err and receiver inconsistent", format!("{what}: {e}"));
            }
        }
        Ok(Ok(())) => {
            rep.ok_reads += 1;
            if must_fail {
                rep.fail("damaged stream accepted", format!("{what}: meta={}", safe_meta(recv)));
            }
            match recv.consistent() {
                Err(e) => rep.fail(&format!("Ok but INCONSISTENT [{}]", classify(&e)), format!("{what}: {e}")),
                Ok(()) => {
                    if let Err(p) = quiet(|| recv.exercise()) {
                        let m = panic_msg(p);
                        rep.fail(
                            &format!("Ok but accessor panics [{}]", classify(&m)),
                            format!("{what}: {m}"),
                        );
                    }
                }
            }
        }
    }
}

pub fn safe_meta<T: Probe>(x: &T) -> String {
    quiet(|| x.meta()).unwrap_or_else(|p| format!("<meta panics: {}>", panic_msg(p)))
}

/// Round trip into a receiver that is expected to have sufficient capacity.
pub fn roundtrip<T: Probe>(rep: &mut Report, what: &str, orig: &T, recv: &mut T) {
    let bytes = to_bytes(orig);
    rep.reads += 1;
    let mut cur = Cursor::new(&bytes[..]);
    match quiet(|| recv.read_from(&mut cur)) {
        Err(p) => rep.fail("roundtrip PANIC", format!("{what}: {}", panic_msg(p))),
        Ok(Err(e)) => rep.fail(
            &format!("roundtrip rejected [{}]", classify(&e.to_string())),
            format!("{what}: {e}"),
        ),
        Ok(Ok(())) => {
            rep.ok_reads += 1;
            if cur.position() as usize != bytes.len() {
                rep.fail(
                    "roundtrip did not consume the stream",
                    format!("{what}: {} of {}", cur.position(), bytes.len()),
                );
            }
            if let Err(e) = recv.consistent() {
                rep.fail("roundtrip INCONSISTENT", format!("{what}: {e}"));
                return;
            }
            if !orig.same(recv) {
                rep.fail(
                    "roundtrip not equal",
                    format!("{what}: orig={} recv={}", safe_meta(orig), safe_meta(recv)),
                );
            }
            // Second write must reproduce the bytes.
            let again = to_bytes(recv);
            if again != bytes {
                rep.fail("rewrite differs", what.to_string());
            }
        }
    }
}

/// Every truncation point (all of the first `dense` bytes, then `stride`-spaced, then the last 9).
pub fn truncations<T: Probe>(rep: &mut Report, what: &str, bytes: &[u8], mk: &dyn Fn() -> T, dense: usize, stride: usize) {
    let n = bytes.len();
    let mut t = 0usize;
    while t < n {
        let mut recv = mk();
        read_damaged(rep, &format!("{what} truncated at {t}/{n}"), &bytes[..t], &mut recv, true);
        if t < dense || t + 9 >= n {
            t += 1;
        } else {
            t = (t + stride).min(n - 9);
        }
    }
}

pub const BYTE_DICT: [u8; 6] = [0x00, 0x01, 0x7f, 0x80, 0xfe, 0xff];

/// Every single-byte corruption of the positions in `positions`.
pub fn byte_corruptions<T: Probe>(rep: &mut Report, what: &str, bytes: &[u8], positions: &[usize], mk: &dyn Fn() -> T) {
    let mut buf = bytes.to_vec();
    for &pos in positions {
        let orig = buf[pos];
        let mut vals: Vec<u8> = BYTE_DICT.to_vec();
        vals.extend_from_slice(&[orig ^ 1, orig.wrapping_add(1), orig.wrapping_sub(1), orig ^ 0x80, !orig]);
        vals.sort();
        vals.dedup();
        for v in vals {
            if v == orig {
                continue;
            }
            buf[pos] = v;
            let mut recv = mk();
            read_damaged(rep, &format!("{what} byte[{pos}] {orig:#x}->{v:#x}"), &buf, &mut recv, false);
        }
        buf[pos] = orig;
    }
}

pub fn u64_dict(orig: u64) -> Vec<u64> {
    let mut v = vec![
        0,
        1,
        2,
        3,
        7,
        (1 << 31) - 1,
        1 << 31,
        (1 << 32) - 1,
        1 << 32,
        (1 << 32) + 1,
        1 << 60,
        (1 << 61) - 1,
        1 << 61,
        (1 << 61) + 1,
        1 << 62,
        (1 << 63) - 1,
        1 << 63,
        (1 << 63) + 1,
        u64::MAX - 1,
        u64::MAX,
        orig.wrapping_add(1),
        orig.wrapping_sub(1),
        orig.wrapping_mul(2),
        orig / 2,
        orig.wrapping_neg(),
    ];
    // products that overflow usize together with the other (small) dimensions
    for k in 50..64 {
        v.push(1u64 << k);
        v.push((1u64 << k).wrapping_add(orig));
    }
    // 2^64 / small
    for d in 1..=16u64 {
        v.push(u64::MAX / d);
        v.push((u64::MAX / d).wrapping_add(1));
        v.push((1u64 << 61) / d);
    }
    v.sort();
    v.dedup();
    v
}

pub fn u32_dict(orig: u32) -> Vec<u32> {
    let mut v = vec![
        0,
        1,
        2,
        3,
        63,
        64,
        65,
        (1 << 16) - 1,
        1 << 16,
        (1 << 31) - 1,
        1 << 31,
        (1 << 31) + 1,
        u32::MAX - 1,
        u32::MAX,
        orig.wrapping_add(1),
        orig.wrapping_sub(1),
        orig.wrapping_mul(2),
        orig / 2,
        orig.wrapping_neg(),
    ];
    v.sort();
    v.dedup();
    v
}

/// Replaces every 4-aligned u32 and u64 window of `header` positions by the boundary dictionary.
pub fn field_corruptions<T: Probe>(rep: &mut Report, what: &str, bytes: &[u8], windows: &[usize], mk: &dyn Fn() -> T) {
    let mut buf = bytes.to_vec();
    for &off in windows {
        if off + 8 <= buf.len() {
            let orig = u64::from_le_bytes(buf[off..off + 8].try_into().unwrap());
            for v in u64_dict(orig) {
                if v == orig {
                    continue;
                }
                buf[off..off + 8].copy_from_slice(&v.to_le_bytes());
                let mut recv = mk();
                read_damaged(rep, &format!("{what} u64@{off} {orig}->{v}"), &buf, &mut recv, false);
            }
            buf[off..off + 8].copy_from_slice(&orig.to_le_bytes());
        }
        if off + 4 <= buf.len() {
            let orig = u32::from_le_bytes(buf[off..off + 4].try_into().unwrap());
            for v in u32_dict(orig) {
                if v == orig {
                    continue;
                }
                buf[off..off + 4].copy_from_slice(&v.to_le_bytes());
                let mut recv = mk();
                read_damaged(rep, &format!("{what} u32@{off} {orig}->{v}"), &buf, &mut recv, false);
            }
            buf[off..off + 4].copy_from_slice(&orig.to_le_bytes());
        }
    }
}

/// Positions of the stream that do not belong to a raw coefficient payload: `payloads` lists
/// (start, len) of the payload ranges.
pub fn header_positions(total: usize, payloads: &[(usize, usize)]) -> Vec<usize> {
    (0..total)
        .filter(|p| !payloads.iter().any(|&(s, l)| *p >= s && *p < s + l))
        .collect()
}

/// The full damaged-input battery for one (object, receiver factory) pair.
pub fn battery<T: Probe>(rep: &mut Report, what: &str, orig: &T, payloads: &[(usize, usize)], mk: &dyn Fn() -> T) {
    let bytes = to_bytes(orig);
    let hdr = header_positions(bytes.len(), payloads);
    truncations(rep, what, &bytes, mk, 4096, 1);
    byte_corruptions(rep, what, &bytes, &hdr, mk);
    // windows: every header position that is 4-aligned relative to the start of a header run
    let mut windows: Vec<usize> = Vec::new();
    let mut run_start = 0usize;
    for (i, &p) in hdr.iter().enumerate() {
        if i == 0 || hdr[i - 1] + 1 != p {
            run_start = p;
        }
        if (p - run_start) % 4 == 0 {
            windows.push(p);
        }
    }
    field_corruptions(rep, what, &bytes, &windows, mk);
}

pub fn checked_product(dims: &[usize]) -> Option<usize> {
    dims.iter().try_fold(1usize, |a, &d| a.checked_mul(d))
}
