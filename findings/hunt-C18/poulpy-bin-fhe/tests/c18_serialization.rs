//! C18 audit: serialisation of the poulpy-bin-fhe key bundles
//! (BlindRotationKey, BlindRotationKeyCompressed, CircuitBootstrappingKey, BDDKey).
mod c18_common;
use c18_common::{schema::*, *};

use poulpy_bin_fhe::{
    bdd_arithmetic::{BDDKey, BDDKeyLayout},
    blind_rotation::{BlindRotationKey, BlindRotationKeyCompressed, BlindRotationKeyInfos, BlindRotationKeyLayout, CGGI},
    circuit_bootstrapping::{CircuitBootstrappingKey, CircuitBootstrappingKeyInfos, CircuitBootstrappingKeyLayout},
};
use poulpy_core::layouts::{
    Base2K, Degree, Dnum, Dsize, GGLWEToGGSWKeyLayout, GGSWInfos, GLWEAutomorphismKeyLayout, GLWEInfos, GLWESwitchingKeyLayout,
    GLWEToLWEKeyLayout, LWEInfos, Rank, TorusPrecision,
};
use poulpy_hal::layouts::{ReaderFrom, WriterTo};

const B2K: Base2K = Base2K(8);

/// Unvalidated scalar header words (base2k, dsize, rank, p): asserted in c18_findings.rs (F5) / reported separately.
const SOFT: &[&str] = &["wrapper invariant broken"];

// ------------------------------------------------------------------ schemas

fn s_ggsw() -> Vec<S> {
    vec![S::U32("base2k"), S::U32("dsize"), S::Mat]
}
fn s_ggsw_c() -> Vec<S> {
    vec![S::U32("k"), S::U32("base2k"), S::U32("dsize"), S::U32("rank"), S::SeedTable, S::Mat]
}
fn s_brk() -> Vec<S> {
    vec![S::U64("dist"), S::Many(s_ggsw())]
}
fn s_brk_c() -> Vec<S> {
    vec![S::U64("dist"), S::Many(s_ggsw_c())]
}
fn s_ksk() -> Vec<S> {
    let mut v = vec![S::U32("in_deg"), S::U32("out_deg")];
    v.extend(s_ggsw());
    v
}
fn s_cbt() -> Vec<S> {
    let mut v = s_brk();
    let mut atk = vec![S::U64("gal_el"), S::U64("p")];
    atk.extend(s_ggsw());
    v.push(S::Many(atk));
    v.push(S::Many(s_ggsw()));
    v
}
fn s_bdd() -> Vec<S> {
    let mut v = s_cbt();
    v.push(S::Opt(s_ksk()));
    v.extend(s_ksk());
    v
}

// ------------------------------------------------------------------ invariants

fn field(p: &Parsed, suffix: &str) -> Vec<u64> {
    p.fields.iter().filter(|f| f.0.ends_with(suffix)).map(|f| f.3).collect()
}

fn inv_common(p: &Parsed) -> Result<(), String> {
    for b in field(p, "base2k") {
        if b == 0 || b > 63 {
            return Err(format!("base2k={b} outside 1..=63"));
        }
    }
    for ds in field(p, "dsize") {
        if ds == 0 {
            return Err("dsize=0".into());
        }
    }
    for l in &p.leaves {
        if l.dims[0] == 0 {
            return Err("n=0".into());
        }
        if l.dims[4] == 0 {
            return Err("cols_out=0".into());
        }
    }
    Ok(())
}

/// The first `count` matrices are the GGSWs of the blind rotation key: the infos of the key are
/// those of keys[0], hence all of them must have one shape, and a GGSW is square.
fn inv_brk_n(p: &Parsed, compressed: bool) -> Result<(), String> {
    inv_common(p)?;
    let n_keys = p.counts[0] as usize;
    let first = p.leaves.first().map(|l| l.dims.clone());
    for (i, l) in p.leaves.iter().take(n_keys).enumerate() {
        if Some(&l.dims) != first.as_ref() {
            return Err(format!("brk.keys[{i}] has shape {:?} but keys[0] (the key's infos) {:?}", l.dims, first));
        }
        if !compressed && l.dims[3] != l.dims[4] {
            return Err(format!("brk.keys[{i}]: GGSW with cols_in={} != cols_out={}", l.dims[3], l.dims[4]));
        }
    }
    if compressed {
        let ranks = field(p, "rank");
        for (i, l) in p.leaves.iter().enumerate() {
            if l.dims[4] != 1 {
                return Err(format!("compressed GGSW with cols_out={}", l.dims[4]));
            }
            if l.dims[3] != ranks[i] + 1 {
                return Err(format!("brk.keys[{i}]: cols_in={} != rank+1={}", l.dims[3], ranks[i] + 1));
            }
            if l.dims[2].checked_mul(l.dims[3]) != Some(p.seed_tables[i] as u64) {
                return Err(format!("brk.keys[{i}]: seed table {} != rows*cols_in", p.seed_tables[i]));
            }
        }
    }
    Ok(())
}
fn inv_brk(p: &Parsed) -> Result<(), String> {
    inv_brk_n(p, false)
}
fn inv_brk_c(p: &Parsed) -> Result<(), String> {
    inv_brk_n(p, true)
}
fn inv_cbt(p: &Parsed) -> Result<(), String> {
    inv_brk_n(p, false)?;
    let gal = field(p, "gal_el");
    let ps = field(p, "].p");
    let mut sorted = gal.clone();
    sorted.sort();
    sorted.dedup();
    if sorted.len() != gal.len() {
        return Err(format!("duplicate Galois elements {gal:?}"));
    }
    for (g, q) in gal.iter().zip(ps.iter()) {
        if g != q {
            return Err(format!("atk[{}] holds a key for p={}", *g as i64, *q as i64));
        }
    }
    Ok(())
}

// ------------------------------------------------------------------ accessors

fn ex_brk(x: &BlindRotationKey<Vec<u8>, CGGI>) {
    let _ = (x.n(), x.base2k(), x.size(), x.max_k(), x.rank(), x.dnum(), x.dsize(), x.n_glwe(), x.n_lwe());
    let _ = x.ggsw_layout();
}
fn ex_brk_c(x: &BlindRotationKeyCompressed<Vec<u8>, CGGI>) {
    let _ = (x.n(), x.base2k(), x.size(), x.max_k(), x.rank(), x.dnum(), x.dsize(), x.n_glwe(), x.n_lwe());
    let _ = x.ggsw_layout();
}
fn ex_cbt(x: &CircuitBootstrappingKey<Vec<u8>, CGGI>) {
    let _ = x.brk_infos();
    let _ = x.atk_infos();
    let _ = x.tsk_infos();
}
fn ex_bdd(_x: &BDDKey<Vec<u8>, CGGI>) {}

static BRK_S: Spec<BlindRotationKey<Vec<u8>, CGGI>> = Spec {
    name: "BlindRotationKey",
    schema: s_brk,
    invariants: inv_brk,
    exercise: ex_brk,
};
static BRK_C: Spec<BlindRotationKeyCompressed<Vec<u8>, CGGI>> = Spec {
    name: "BlindRotationKeyCompressed",
    schema: s_brk_c,
    invariants: inv_brk_c,
    exercise: ex_brk_c,
};
static CBT_S: Spec<CircuitBootstrappingKey<Vec<u8>, CGGI>> = Spec {
    name: "CircuitBootstrappingKey",
    schema: s_cbt,
    invariants: inv_cbt,
    exercise: ex_cbt,
};
static BDD_S: Spec<BDDKey<Vec<u8>, CGGI>> = Spec {
    name: "BDDKey",
    schema: s_bdd,
    invariants: inv_cbt,
    exercise: ex_bdd,
};

// ------------------------------------------------------------------ driver (same as poulpy-core's)

fn dirty_edit(p: &Parsed, bytes: &mut Vec<u8>, salt: u8) {
    for (k, &(s, l)) in p.payloads().iter().enumerate() {
        for i in 0..l {
            bytes[s + i] = (i as u8).wrapping_mul(13).wrapping_add(salt).wrapping_add(k as u8).wrapping_mul(31) ^ 0x5a;
        }
    }
    randomise_seeds(p, bytes, salt);
    let mut last_gal: u64 = 0;
    for (name, off, w, val) in &p.fields {
        let v: Option<u64> = if name.ends_with("in_deg") {
            Some(100 + salt as u64)
        } else if name.ends_with("out_deg") {
            Some(200 + salt as u64)
        } else if name.ends_with("gal_el") {
            last_gal = *val;
            None
        } else if name.ends_with("].p") {
            Some(last_gal)
        } else if name.ends_with("dist") {
            Some(if salt % 2 == 1 { (1u64 << 56) | (0.5f64.to_bits() >> 8) } else { (4u64 << 56) | salt as u64 })
        } else {
            None
        };
        if let Some(v) = v {
            bytes[*off..*off + *w].copy_from_slice(&v.to_le_bytes()[..*w]);
        }
    }
}

fn make<T: WriterTo + ReaderFrom + 'static>(spec: &'static Spec<T>, alloc: &dyn Fn() -> T, salt: u8) -> W<T> {
    patched(W::fresh(alloc(), spec), |p, b| dirty_edit(p, b, salt))
}

fn fits<T: WriterTo + ReaderFrom + 'static>(orig: &W<T>, recv: &W<T>) -> bool {
    let (po, pr) = (orig.parsed().unwrap(), recv.parsed().unwrap());
    po.leaves.len() == pr.leaves.len()
        && po.counts == pr.counts
        && po.get("tag") == pr.get("tag")
        && po.seed_tables.iter().zip(pr.seed_tables.iter()).all(|(a, b)| a <= b)
        && po.leaves.iter().zip(recv.caps.iter()).all(|(l, &c)| l.capacity_bytes().unwrap() <= c)
}

type Grid<T> = Vec<(String, Box<dyn Fn() -> T>)>;

fn drive<T: WriterTo + ReaderFrom + 'static>(spec: &'static Spec<T>, grid: Grid<T>, dense: usize, stride: usize) -> Report {
    silence_panics();
    let mut rep = Report::new(spec.name);
    for (i, (ni, ai)) in grid.iter().enumerate() {
        let orig = make(spec, ai.as_ref(), 1);
        let bytes = to_bytes(&orig);
        let parsed = orig.parsed().unwrap();
        let mut skip = parsed.payloads();
        skip.extend(parsed.seeds.iter().map(|(o, _)| (*o, 32usize)));
        let hdr = header_positions(bytes.len(), &skip);
        let windows: Vec<usize> = parsed.fields.iter().map(|f| f.1).collect();

        let mut done_larger = false;
        let mut done_smaller = false;
        for (j, (nj, aj)) in grid.iter().enumerate() {
            let mut recv = make(spec, aj.as_ref(), 2);
            let what = format!("{ni} -> {nj}");
            let fit = fits(&orig, &recv);
            if fit {
                roundtrip(&mut rep, &what, &orig, &mut recv);
                let other = make(spec, ai.as_ref(), 3);
                roundtrip(&mut rep, &format!("{what} (2nd read)"), &other, &mut recv);
            } else {
                read_damaged(&mut rep, &format!("{what} (too small)"), &bytes, &mut recv, true);
            }
            let run_battery = j == i || (fit && j != i && !done_larger) || (!fit && !done_smaller);
            if run_battery {
                if j != i {
                    if fit {
                        done_larger = true
                    } else {
                        done_smaller = true
                    }
                }
                let mk = || make(spec, aj.as_ref(), 2);
                // every truncation point inside a header, strided inside payloads
                let mut t = 0usize;
                while t < bytes.len() {
                    let mut recv = mk();
                    read_damaged(&mut rep, &format!("{what} truncated at {t}/{}", bytes.len()), &bytes[..t], &mut recv, true);
                    let in_hdr = hdr.binary_search(&t).is_ok() || hdr.binary_search(&(t + 1)).is_ok();
                    t += if in_hdr || t < dense || t + 9 >= bytes.len() { 1 } else { stride };
                }
                byte_corruptions(&mut rep, &what, &bytes, &hdr, &mk);
                field_corruptions(&mut rep, &what, &bytes, &windows, &mk);
            }
        }
    }
    for (_, ai) in grid.iter() {
        for (_, aj) in grid.iter() {
            let big = make(spec, aj.as_ref(), 1);
            let small = make(spec, ai.as_ref(), 3);
            let mut recv = make(spec, aj.as_ref(), 2);
            if fits(&small, &recv) && small.parsed().unwrap().meta() != big.parsed().unwrap().meta() {
                roundtrip(&mut rep, "reuse: small object", &small, &mut recv);
                roundtrip(&mut rep, "reuse: then an object of the receiver's allocated shape", &big, &mut recv);
            }
        }
    }
    rep
}

// ------------------------------------------------------------------ layouts

fn brk_layout(n_glwe: u32, n_lwe: u32, k: u32, dnum: u32, rank: u32) -> BlindRotationKeyLayout {
    BlindRotationKeyLayout {
        n_glwe: Degree(n_glwe),
        n_lwe: Degree(n_lwe),
        base2k: B2K,
        k: TorusPrecision(k),
        dnum: Dnum(dnum),
        rank: Rank(rank),
    }
}

fn cbt_layout(n: u32, n_lwe: u32, k: u32, dnum: u32, rank: u32) -> CircuitBootstrappingKeyLayout {
    CircuitBootstrappingKeyLayout {
        brk_layout: brk_layout(n, n_lwe, k, dnum, rank),
        atk_layout: GLWEAutomorphismKeyLayout {
            n: Degree(n),
            base2k: B2K,
            k: TorusPrecision(k),
            rank: Rank(rank),
            dnum: Dnum(dnum),
            dsize: Dsize(1),
        },
        tsk_layout: GGLWEToGGSWKeyLayout {
            n: Degree(n),
            base2k: B2K,
            k: TorusPrecision(k),
            rank: Rank(rank),
            dnum: Dnum(dnum),
            dsize: Dsize(1),
        },
    }
}

fn bdd_layout(n: u32, n_lwe: u32, k: u32, dnum: u32, rank: u32, with_ks_glwe: bool) -> BDDKeyLayout {
    BDDKeyLayout {
        cbt_layout: cbt_layout(n, n_lwe, k, dnum, rank),
        ks_glwe_layout: with_ks_glwe.then_some(GLWESwitchingKeyLayout {
            n: Degree(n),
            base2k: B2K,
            k: TorusPrecision(k),
            rank_in: Rank(rank),
            rank_out: Rank(1),
            dnum: Dnum(dnum),
            dsize: Dsize(1),
        }),
        ks_lwe_layout: GLWEToLWEKeyLayout {
            n: Degree(n),
            base2k: B2K,
            k: TorusPrecision(k),
            rank_in: Rank(if with_ks_glwe { 1 } else { rank }),
            dnum: Dnum(dnum),
        },
    }
}

macro_rules! grid {
    ($t:ty; $( $label:expr => $e:expr ),+ $(,)?) => {{
        let g: Grid<$t> = vec![ $( ($label.to_string(), Box::new(move || $e) as Box<dyn Fn() -> $t>) ),+ ];
        g
    }};
}

#[test]
fn blind_rotation_key() {
    drive(
        &BRK_S,
        grid![BlindRotationKey<Vec<u8>, CGGI>;
            "n8 lwe3 k24 d2 r1" => BlindRotationKey::alloc(&brk_layout(8, 3, 24, 2, 1)),
            "n8 lwe3 k32 d3 r2" => BlindRotationKey::alloc(&brk_layout(8, 3, 32, 3, 2)),
            "n8 lwe2 k24 d2 r1" => BlindRotationKey::alloc(&brk_layout(8, 2, 24, 2, 1)),
            "n16 lwe3 k16 d1 r1" => BlindRotationKey::alloc(&brk_layout(16, 3, 16, 1, 1)),
        ],
        4096,
        1,
    )
    .assert_clean_ignoring(SOFT);
}

#[test]
fn blind_rotation_key_compressed() {
    drive(
        &BRK_C,
        grid![BlindRotationKeyCompressed<Vec<u8>, CGGI>;
            "n8 lwe3 k24 d2 r1" => BlindRotationKeyCompressed::alloc(&brk_layout(8, 3, 24, 2, 1)),
            "n8 lwe3 k32 d3 r2" => BlindRotationKeyCompressed::alloc(&brk_layout(8, 3, 32, 3, 2)),
            "n8 lwe2 k24 d2 r1" => BlindRotationKeyCompressed::alloc(&brk_layout(8, 2, 24, 2, 1)),
            "n16 lwe3 k16 d1 r1" => BlindRotationKeyCompressed::alloc(&brk_layout(16, 3, 16, 1, 1)),
        ],
        4096,
        1,
    )
    .assert_clean_ignoring(SOFT);
}

#[test]
fn circuit_bootstrapping_key() {
    drive(
        &CBT_S,
        grid![CircuitBootstrappingKey<Vec<u8>, CGGI>;
            "n8 lwe2 k24 d2 r1" => CircuitBootstrappingKey::alloc_from_infos(&cbt_layout(8, 2, 24, 2, 1)),
            "n8 lwe2 k32 d3 r1" => CircuitBootstrappingKey::alloc_from_infos(&cbt_layout(8, 2, 32, 3, 1)),
            "n8 lwe2 k16 d1 r1" => CircuitBootstrappingKey::alloc_from_infos(&cbt_layout(8, 2, 16, 1, 1)),
        ],
        64,
        37,
    )
    .assert_clean_ignoring(SOFT);
}

#[test]
fn bdd_key() {
    drive(
        &BDD_S,
        grid![BDDKey<Vec<u8>, CGGI>;
            "n8 lwe2 k24 d2 r1" => BDDKey::alloc_from_infos(&bdd_layout(8, 2, 24, 2, 1, false)),
            "n8 lwe2 k24 d2 r1 +ks_glwe" => BDDKey::alloc_from_infos(&bdd_layout(8, 2, 24, 2, 1, true)),
            "n8 lwe2 k32 d3 r1" => BDDKey::alloc_from_infos(&bdd_layout(8, 2, 32, 3, 1, false)),
        ],
        64,
        37,
    )
    .assert_clean_ignoring(SOFT);
}

// ------------------------------------------------------------------ targeted: Galois elements of the CBT key

/// The automorphism keys are addressed by the Galois element read from the stream.  A stream in
/// which one Galois element is replaced by another one of the receiver's set must be rejected:
/// otherwise one entry is read twice and another one silently keeps its previous content.
#[test]
fn circuit_bootstrapping_key_duplicate_galois_element() {
    silence_panics();
    let mut rep = Report::new("CBT duplicate gal_el");
    let alloc = || CircuitBootstrappingKey::<Vec<u8>, CGGI>::alloc_from_infos(&cbt_layout(8, 2, 24, 2, 1));
    let orig = make(&CBT_S, &alloc, 1);
    let bytes = to_bytes(&orig);
    let p = orig.parsed().unwrap();
    let gal: Vec<(usize, u64)> = p.fields.iter().filter(|f| f.0.ends_with("gal_el")).map(|f| (f.1, f.3)).collect();
    assert!(gal.len() >= 2);
    for a in 0..gal.len() {
        for b in 0..gal.len() {
            if a == b {
                continue;
            }
            let mut damaged = bytes.clone();
            damaged[gal[a].0..gal[a].0 + 8].copy_from_slice(&gal[b].1.to_le_bytes());
            let mut recv = make(&CBT_S, &alloc, 2);
            let before = recv.bytes().unwrap();
            read_damaged(
                &mut rep,
                &format!("gal_el {} replaced by {}", gal[a].1 as i64, gal[b].1 as i64),
                &damaged,
                &mut recv,
                true,
            );
            // which part of the receiver is stale?
            let after = recv.bytes().unwrap();
            let pa = recv.parsed().unwrap();
            let stale: Vec<usize> = pa
                .leaves
                .iter()
                .enumerate()
                .filter(|(_, l)| after[l.payload.0..l.payload.0 + l.payload.1] == before[l.payload.0..l.payload.0 + l.payload.1])
                .map(|(i, _)| i)
                .collect();
            if !stale.is_empty() {
                rep.fail("Ok but part of the receiver keeps its previous content", format!("leaves {stale:?} untouched"));
            }
        }
    }
    rep.assert_clean();
}

// ------------------------------------------------------------------ targeted: sequential sub-object reads

/// BlindRotationKey / BlindRotationKeyCompressed read their GGSWs in place one after the other:
/// when the stream ends inside keys[1], read_from returns Err but keys[0] has been replaced.
/// With a larger receiver the bundle is left with GGSWs of two different shapes, while the
/// infos of the key (n, size, rank, dnum) are those of keys[0] only.
#[test]
fn blind_rotation_key_failed_read_leaves_receiver_half_updated() {
    let src: BlindRotationKey<Vec<u8>, CGGI> = BlindRotationKey::alloc(&brk_layout(8, 3, 24, 2, 1));
    let bytes = to_bytes(&src);
    let mut recv: BlindRotationKey<Vec<u8>, CGGI> = BlindRotationKey::alloc(&brk_layout(8, 3, 32, 3, 2));
    let before = to_bytes(&recv);
    let (rank, dnum) = (recv.rank(), recv.dnum());
    assert!(recv.read_from(&mut &bytes[..bytes.len() - 1]).is_err());
    assert!(
        to_bytes(&recv) == before,
        "read_from returned Err but the receiver changed: rank {:?} -> {:?}, dnum {:?} -> {:?} (keys[2] still has the old shape)",
        rank,
        recv.rank(),
        dnum,
        recv.dnum()
    );
}

#[test]
fn blind_rotation_key_compressed_failed_read_leaves_receiver_half_updated() {
    let src: BlindRotationKeyCompressed<Vec<u8>, CGGI> = BlindRotationKeyCompressed::alloc(&brk_layout(8, 3, 24, 2, 1));
    let bytes = to_bytes(&src);
    let mut recv: BlindRotationKeyCompressed<Vec<u8>, CGGI> = BlindRotationKeyCompressed::alloc(&brk_layout(8, 3, 32, 3, 2));
    let before = to_bytes(&recv);
    assert!(recv.read_from(&mut &bytes[..bytes.len() - 1]).is_err());
    assert!(to_bytes(&recv) == before, "read_from returned Err but the receiver changed");
}
