//! C18 audit: the byte format does not depend on the backend.
//!
//! A ciphertext (standard and seed-compressed) is produced by backend A, serialised, read back
//! into a dirty receiver and checked (noise against the plaintext) by backend B.  The streams
//! produced by the two backends from the same seeds must have the same header and length, and
//! the compressed form must expand to the same mask on both.
use poulpy_core::{
    DEFAULT_SIGMA_XE, EncryptionLayout, GLWECompressedEncryptSk, GLWEEncryptSk, GLWENoise, GLWESub, ScratchTakeCore,
    layouts::{
        GLWE, GLWELayout, GLWEPlaintext, GLWEPlaintextLayout, GLWESecret, GLWESecretPreparedFactory,
        compressed::{GLWECompressed, GLWEDecompress},
        prepared::GLWESecretPrepared,
    },
    test_suite::TestBackend,
};
use poulpy_cpu_ref::{FFT64Ref, NTT120Ref};
use poulpy_hal::{
    api::{ModuleNew, ScratchAvailable, ScratchOwnedAlloc, ScratchOwnedBorrow, VecZnxFillUniform},
    layouts::{DeviceBuf, FillUniform, Module, ReaderFrom, Scratch, ScratchOwned, WriterTo},
    source::Source,
};

struct Produced {
    ct: Vec<u8>,
    ct_c: Vec<u8>,
    pt: GLWEPlaintext<Vec<u8>>,
    sk: GLWESecret<Vec<u8>>,
}

const BASE2K: usize = 12;
const K_CT: usize = 4 * BASE2K + 1;
const K_PT: usize = 2 * BASE2K + 1;

fn layout(n: usize, rank: usize) -> EncryptionLayout<GLWELayout> {
    EncryptionLayout::new_from_default_sigma(GLWELayout {
        n: n.into(),
        base2k: BASE2K.into(),
        k: K_CT.into(),
        rank: rank.into(),
    })
    .unwrap()
}

fn produce<BE: TestBackend>(n: usize, rank: usize) -> Produced
where
    Module<BE>: ModuleNew<BE>
        + GLWEEncryptSk<BE>
        + GLWECompressedEncryptSk<BE>
        + GLWENoise<BE>
        + GLWESecretPreparedFactory<BE>
        + VecZnxFillUniform
        + GLWESub,
    ScratchOwned<BE>: ScratchOwnedAlloc<BE> + ScratchOwnedBorrow<BE>,
    Scratch<BE>: ScratchAvailable + ScratchTakeCore<BE>,
{
    let module: Module<BE> = Module::<BE>::new(n as u64);
    let infos = layout(n, rank);
    let mut source_xs = Source::new([3u8; 32]);
    let mut source_xe = Source::new([4u8; 32]);
    let mut source_xa = Source::new([5u8; 32]);
    let mut scratch: ScratchOwned<BE> = ScratchOwned::alloc(
        module
            .glwe_encrypt_sk_tmp_bytes(&infos)
            .max(module.glwe_compressed_encrypt_sk_tmp_bytes(&infos))
            .max(module.glwe_noise_tmp_bytes(&infos)),
    );
    let mut sk: GLWESecret<Vec<u8>> = GLWESecret::alloc_from_infos(&infos);
    sk.fill_ternary_prob(0.5, &mut source_xs);
    let mut sk_prepared: GLWESecretPrepared<DeviceBuf<BE>, BE> = module.glwe_secret_prepared_alloc(rank.into());
    module.glwe_secret_prepare(&mut sk_prepared, &sk);

    let mut pt: GLWEPlaintext<Vec<u8>> = GLWEPlaintext::alloc_from_infos(&GLWEPlaintextLayout {
        n: n.into(),
        base2k: BASE2K.into(),
        k: K_PT.into(),
    });
    module.vec_znx_fill_uniform(BASE2K, &mut pt.data, 0, &mut source_xa);

    let mut ct: GLWE<Vec<u8>> = GLWE::alloc_from_infos(&infos);
    module.glwe_encrypt_sk(&mut ct, &pt, &sk_prepared, &infos, &mut source_xe, &mut source_xa, scratch.borrow());
    let mut ct_c: GLWECompressed<Vec<u8>> = GLWECompressed::alloc_from_infos(&infos);
    module.glwe_compressed_encrypt_sk(&mut ct_c, &pt, &sk_prepared, [9u8; 32], &infos, &mut source_xe, scratch.borrow());

    let (mut b, mut bc) = (Vec::new(), Vec::new());
    ct.write_to(&mut b).unwrap();
    ct_c.write_to(&mut bc).unwrap();
    Produced { ct: b, ct_c: bc, pt, sk }
}

/// Reads the streams with backend `BE` (dirty, larger receivers) and returns the log2 noise of
/// (standard, decompressed) ciphertexts.
fn consume<BE: TestBackend>(n: usize, rank: usize, p: &Produced) -> (f64, f64, Vec<u8>)
where
    Module<BE>: ModuleNew<BE> + GLWENoise<BE> + GLWESecretPreparedFactory<BE> + GLWEDecompress + GLWESub,
    ScratchOwned<BE>: ScratchOwnedAlloc<BE> + ScratchOwnedBorrow<BE>,
    Scratch<BE>: ScratchAvailable + ScratchTakeCore<BE>,
{
    let module: Module<BE> = Module::<BE>::new(n as u64);
    let infos = layout(n, rank);
    let mut scratch: ScratchOwned<BE> = ScratchOwned::alloc(module.glwe_noise_tmp_bytes(&infos));
    let mut sk_prepared: GLWESecretPrepared<DeviceBuf<BE>, BE> = module.glwe_secret_prepared_alloc(rank.into());
    module.glwe_secret_prepare(&mut sk_prepared, &p.sk);

    // dirty receiver with one spare limb
    let mut big = infos.layout;
    big.k = (K_CT + BASE2K).into();
    let mut ct: GLWE<Vec<u8>> = GLWE::alloc_from_infos(&big);
    ct.fill_uniform(50, &mut Source::new([7u8; 32]));
    ct.read_from(&mut &p.ct[..]).unwrap();
    let noise = module.glwe_noise(&ct, &p.pt, &sk_prepared, scratch.borrow()).std().log2();

    let mut ct_c: GLWECompressed<Vec<u8>> = GLWECompressed::alloc_from_infos(&big);
    ct_c.fill_uniform(50, &mut Source::new([8u8; 32]));
    ct_c.read_from(&mut &p.ct_c[..]).unwrap();
    let mut ct_d: GLWE<Vec<u8>> = GLWE::alloc_from_infos(&infos);
    ct_d.fill_uniform(50, &mut Source::new([6u8; 32]));
    module.decompress_glwe(&mut ct_d, &ct_c);
    let noise_c = module.glwe_noise(&ct_d, &p.pt, &sk_prepared, scratch.borrow()).std().log2();
    let mut expanded = Vec::new();
    ct_d.write_to(&mut expanded).unwrap();
    (noise, noise_c, expanded)
}

#[test]
fn glwe_streams_are_backend_independent() {
    let want = DEFAULT_SIGMA_XE.log2() - (K_CT as f64) + 0.5;
    for &n in &[16usize, 64] {
        for rank in 1..3usize {
            let a = produce::<FFT64Ref>(n, rank);
            let b = produce::<NTT120Ref>(n, rank);
            // same layout -> same header and same length whatever the backend
            assert_eq!(a.ct.len(), b.ct.len());
            assert_eq!(a.ct_c.len(), b.ct_c.len());
            assert_eq!(a.ct[..44], b.ct[..44], "GLWE header differs across backends");
            assert_eq!(a.ct_c[..80], b.ct_c[..80], "GLWECompressed header differs across backends");

            let (n_aa, c_aa, e_aa) = consume::<FFT64Ref>(n, rank, &a);
            let (n_ab, c_ab, e_ab) = consume::<NTT120Ref>(n, rank, &a);
            let (n_ba, c_ba, e_ba) = consume::<FFT64Ref>(n, rank, &b);
            let (n_bb, c_bb, e_bb) = consume::<NTT120Ref>(n, rank, &b);
            for (lbl, v) in [
                ("fft64->fft64", n_aa),
                ("fft64->ntt120", n_ab),
                ("ntt120->fft64", n_ba),
                ("ntt120->ntt120", n_bb),
                ("c fft64->fft64", c_aa),
                ("c fft64->ntt120", c_ab),
                ("c ntt120->fft64", c_ba),
                ("c ntt120->ntt120", c_bb),
            ] {
                assert!(v <= want, "n={n} rank={rank} {lbl}: noise {v} > {want}");
            }
            // the seed expands to the same mask on both backends
            assert_eq!(e_aa, e_ab, "decompression of one stream differs across backends");
            assert_eq!(e_ba, e_bb, "decompression of one stream differs across backends");
        }
    }
}
