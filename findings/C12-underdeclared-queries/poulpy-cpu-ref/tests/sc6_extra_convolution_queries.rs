//! SC-6 (extra, found while testing H3): the convolution based GLWE products run on a scratch buffer of
//! exactly their companion query:
//!
//! - `glwe_tensor_square_apply` / `glwe_tensor_square_apply_tmp_bytes`
//! - `glwe_tensor_apply` / `glwe_tensor_apply_tmp_bytes`
//! - `glwe_mul_plain` / `glwe_mul_plain_tmp_bytes`
//! - `glwe_mul_const` / `glwe_mul_const_tmp_bytes`
//!
//! Operands are zero-initialised: only the scratch behaviour is observed.

use std::panic::{AssertUnwindSafe, catch_unwind};

use poulpy_core::{
    GLWEMulConst, GLWEMulPlain, GLWETensoring,
    layouts::{Base2K, Degree, GLWE, GLWELayout, GLWEPlaintext, GLWETensor, LWEInfos, Rank, TorusPrecision},
};
use poulpy_cpu_ref::{FFT64Ref, NTT120Ref};
use poulpy_hal::{
    api::{ModuleNew, ScratchOwnedAlloc, ScratchOwnedBorrow},
    layouts::{Backend, Module, Scratch, ScratchOwned},
};

const N: usize = 64;

fn layout(base2k: u32, limbs: u32, rank: u32) -> GLWELayout {
    GLWELayout {
        n: Degree(N as u32),
        base2k: Base2K(base2k),
        k: TorusPrecision(limbs * base2k),
        rank: Rank(rank),
    }
}

fn panic_msg(e: Box<dyn std::any::Any + Send>) -> String {
    e.downcast_ref::<String>()
        .cloned()
        .or_else(|| e.downcast_ref::<&str>().map(|s| s.to_string()))
        .unwrap_or_else(|| "<non-string panic>".into())
}

fn quiet<R>(f: impl FnOnce() -> R) -> R {
    let prev = std::panic::take_hook();
    if std::env::var("SC6_VERBOSE").is_err() {
        std::panic::set_hook(Box::new(|_| {}));
    }
    let r = f();
    std::panic::set_hook(prev);
    r
}

/// Bit offsets handed to the products: `ckks` is what `poulpy-ckks` passes for aligned operands
/// (`max(a.effective_k, b.effective_k)`), the others exercise the remaining branches.
fn cnv_offsets(base2k: u32, a_limbs: u32, b_limbs: u32) -> Vec<(&'static str, usize)> {
    let ckks = (a_limbs.max(b_limbs) * base2k) as usize;
    vec![
        ("ckks", ckks),
        ("ckks+7", ckks + 7),
        ("ckks+base2k", ckks + base2k as usize),
        ("2*base2k", 2 * base2k as usize),
        ("base2k", base2k as usize),
        ("sub-limb", 5),
    ]
}

struct Tally {
    label: &'static str,
    total: usize,
    failures: Vec<(String, String)>,
}

impl Tally {
    fn new(label: &'static str) -> Self {
        Self {
            label,
            total: 0,
            failures: Vec::new(),
        }
    }
    fn record(&mut self, shape: String, r: std::thread::Result<()>) {
        self.total += 1;
        if let Err(e) = r {
            self.failures.push((shape, panic_msg(e)));
        }
    }
    fn report(&self) -> usize {
        eprintln!("{}: {} shapes, {} failing", self.label, self.total, self.failures.len());
        for kind in ["ckks ", "ckks+7", "ckks+base2k", "2*base2k", " base2k", "sub-limb"] {
            let n = self.failures.iter().filter(|(s, _)| s.ends_with(&format!("off={}", kind.trim()))).count();
            if n != 0 {
                let (s, m) = self
                    .failures
                    .iter()
                    .find(|(s, _)| s.ends_with(&format!("off={}", kind.trim())))
                    .unwrap();
                eprintln!("    off={}: {n} failing, first: {s} -> {m}", kind.trim());
            }
        }
        self.failures.len()
    }
}

fn sweep_square<BE: Backend>(module: &Module<BE>, base2k_in: u32, base2k_out: u32) -> Tally
where
    Module<BE>: GLWETensoring<BE>,
    ScratchOwned<BE>: ScratchOwnedAlloc<BE> + ScratchOwnedBorrow<BE>,
    Scratch<BE>: poulpy_core::ScratchTakeCore<BE>,
{
    let mut t = Tally::new("glwe_tensor_square_apply");
    for rank in 1..=2u32 {
        for a_limbs in 1..=8u32 {
            for res_limbs in 1..=10u32 {
                for (name, off) in cnv_offsets(base2k_in, a_limbs, a_limbs) {
                    let a: GLWE<Vec<u8>> = GLWE::alloc_from_infos(&layout(base2k_in, a_limbs, rank));
                    let mut res: GLWETensor<Vec<u8>> = GLWETensor::alloc_from_infos(&layout(base2k_out, res_limbs, rank));
                    let mut scratch: ScratchOwned<BE> = ScratchOwned::alloc(module.glwe_tensor_square_apply_tmp_bytes(&res, &a));
                    let r = catch_unwind(AssertUnwindSafe(|| {
                        module.glwe_tensor_square_apply(off, &mut res, &a, a.max_k().as_usize(), scratch.borrow());
                    }));
                    t.record(format!("rank={rank} a={a_limbs} res={res_limbs} off={name}"), r);
                }
            }
        }
    }
    t
}

fn sweep_apply<BE: Backend>(module: &Module<BE>, base2k_in: u32, base2k_out: u32) -> Tally
where
    Module<BE>: GLWETensoring<BE>,
    ScratchOwned<BE>: ScratchOwnedAlloc<BE> + ScratchOwnedBorrow<BE>,
    Scratch<BE>: poulpy_core::ScratchTakeCore<BE>,
{
    let mut t = Tally::new("glwe_tensor_apply");
    for rank in 1..=2u32 {
        for a_limbs in 1..=6u32 {
            for b_limbs in 1..=6u32 {
                for res_limbs in 1..=8u32 {
                    for (name, off) in cnv_offsets(base2k_in, a_limbs, b_limbs) {
                        let a: GLWE<Vec<u8>> = GLWE::alloc_from_infos(&layout(base2k_in, a_limbs, rank));
                        let b: GLWE<Vec<u8>> = GLWE::alloc_from_infos(&layout(base2k_in, b_limbs, rank));
                        let mut res: GLWETensor<Vec<u8>> = GLWETensor::alloc_from_infos(&layout(base2k_out, res_limbs, rank));
                        let mut scratch: ScratchOwned<BE> = ScratchOwned::alloc(module.glwe_tensor_apply_tmp_bytes(&res, &a, &b));
                        let r = catch_unwind(AssertUnwindSafe(|| {
                            module.glwe_tensor_apply(
                                off,
                                &mut res,
                                &a,
                                a.max_k().as_usize(),
                                &b,
                                b.max_k().as_usize(),
                                scratch.borrow(),
                            );
                        }));
                        t.record(format!("rank={rank} a={a_limbs} b={b_limbs} res={res_limbs} off={name}"), r);
                    }
                }
            }
        }
    }
    t
}

fn sweep_mul_plain<BE: Backend>(module: &Module<BE>, base2k_in: u32, base2k_out: u32) -> Tally
where
    Module<BE>: GLWEMulPlain<BE>,
    ScratchOwned<BE>: ScratchOwnedAlloc<BE> + ScratchOwnedBorrow<BE>,
    Scratch<BE>: poulpy_core::ScratchTakeCore<BE>,
{
    let mut t = Tally::new("glwe_mul_plain");
    for rank in 1..=2u32 {
        for a_limbs in 1..=6u32 {
            for b_limbs in 1..=4u32 {
                for res_limbs in 1..=8u32 {
                    for (name, off) in cnv_offsets(base2k_in, b_limbs, b_limbs) {
                        let a: GLWE<Vec<u8>> = GLWE::alloc_from_infos(&layout(base2k_in, a_limbs, rank));
                        let b: GLWEPlaintext<Vec<u8>> =
                            GLWEPlaintext::alloc(Degree(N as u32), Base2K(base2k_in), TorusPrecision(b_limbs * base2k_in));
                        let mut res: GLWE<Vec<u8>> = GLWE::alloc_from_infos(&layout(base2k_out, res_limbs, rank));
                        let mut scratch: ScratchOwned<BE> = ScratchOwned::alloc(module.glwe_mul_plain_tmp_bytes(&res, &a, &b));
                        let r = catch_unwind(AssertUnwindSafe(|| {
                            module.glwe_mul_plain(
                                off,
                                &mut res,
                                &a,
                                a.max_k().as_usize(),
                                &b,
                                b.max_k().as_usize(),
                                scratch.borrow(),
                            );
                        }));
                        t.record(format!("rank={rank} a={a_limbs} b={b_limbs} res={res_limbs} off={name}"), r);
                    }
                }
            }
        }
    }
    t
}

fn sweep_mul_const<BE: Backend>(module: &Module<BE>, base2k_in: u32, base2k_out: u32) -> Tally
where
    Module<BE>: GLWEMulConst<BE>,
    ScratchOwned<BE>: ScratchOwnedAlloc<BE> + ScratchOwnedBorrow<BE>,
    Scratch<BE>: poulpy_core::ScratchTakeCore<BE>,
{
    let mut t = Tally::new("glwe_mul_const");
    for rank in 1..=2u32 {
        for a_limbs in 1..=6u32 {
            for b_limbs in 1..=4u32 {
                for res_limbs in 1..=8u32 {
                    for (name, off) in cnv_offsets(base2k_in, b_limbs, b_limbs) {
                        let a: GLWE<Vec<u8>> = GLWE::alloc_from_infos(&layout(base2k_in, a_limbs, rank));
                        let b: Vec<i64> = vec![0i64; b_limbs as usize];
                        let mut res: GLWE<Vec<u8>> = GLWE::alloc_from_infos(&layout(base2k_out, res_limbs, rank));
                        let mut scratch: ScratchOwned<BE> = ScratchOwned::alloc(module.glwe_mul_const_tmp_bytes(&res, &a, b.len()));
                        let r = catch_unwind(AssertUnwindSafe(|| {
                            module.glwe_mul_const(off, &mut res, &a, &b, scratch.borrow());
                        }));
                        t.record(format!("rank={rank} a={a_limbs} b={b_limbs} res={res_limbs} off={name}"), r);
                    }
                }
            }
        }
    }
    t
}

#[test]
fn sc6_extra_tensor_square_apply_fft64_ref() {
    let module: Module<FFT64Ref> = Module::<FFT64Ref>::new(N as u64);
    let same = quiet(|| sweep_square(&module, 19, 19));
    let cross = quiet(|| sweep_square(&module, 18, 17));
    let failing = same.report() + cross.report();
    assert_eq!(failing, 0);
}

#[test]
fn sc6_extra_tensor_square_apply_ntt120_ref() {
    let module: Module<NTT120Ref> = Module::<NTT120Ref>::new(N as u64);
    let same = quiet(|| sweep_square(&module, 52, 52));
    let failing = same.report();
    assert_eq!(failing, 0);
}

#[test]
fn sc6_extra_tensor_apply_fft64_ref() {
    let module: Module<FFT64Ref> = Module::<FFT64Ref>::new(N as u64);
    let same = quiet(|| sweep_apply(&module, 19, 19));
    let cross = quiet(|| sweep_apply(&module, 18, 17));
    let failing = same.report() + cross.report();
    assert_eq!(failing, 0);
}

#[test]
fn sc6_extra_mul_plain_fft64_ref() {
    let module: Module<FFT64Ref> = Module::<FFT64Ref>::new(N as u64);
    let same = quiet(|| sweep_mul_plain(&module, 19, 19));
    let cross = quiet(|| sweep_mul_plain(&module, 18, 17));
    let failing = same.report() + cross.report();
    assert_eq!(failing, 0);
}

#[test]
fn sc6_extra_mul_const_fft64_ref() {
    let module: Module<FFT64Ref> = Module::<FFT64Ref>::new(N as u64);
    let same = quiet(|| sweep_mul_const(&module, 19, 19));
    let cross = quiet(|| sweep_mul_const(&module, 18, 17));
    let failing = same.report() + cross.report();
    assert_eq!(failing, 0);
}
