//! SC-6 / H1: `glwe_from_lwe` run on a scratch buffer of exactly
//! `glwe_from_lwe_tmp_bytes(res, lwe, ksk)` bytes.
//!
//! The operation key-switches a temporary GLWE `{base2k: ksk.base2k(), k: lwe.max_k(), rank: 1}`
//! whereas the size query evaluates the nested key-switch query on the *result* layout.

use std::panic::{AssertUnwindSafe, catch_unwind};

use poulpy_core::{
    EncryptionLayout, GLWEDecrypt, GLWEFromLWE, LWEEncryptSk, LWEToGLWESwitchingKeyEncryptSk,
    layouts::{
        Base2K, Degree, Dnum, GLWE, GLWELayout, GLWEPlaintext, GLWESecret, GLWESecretPreparedFactory, LWE, LWEInfos, LWELayout,
        LWEPlaintext, LWESecret, LWEToGLWEKey, LWEToGLWEKeyLayout, LWEToGLWEKeyPrepared, LWEToGLWEKeyPreparedFactory, Rank,
        TorusPrecision, prepared::GLWESecretPrepared,
    },
};
use poulpy_cpu_ref::{FFT64Ref, NTT120Ref};
use poulpy_hal::{
    api::{ModuleNew, ScratchOwnedAlloc, ScratchOwnedBorrow, VecZnxNormalize},
    layouts::{Backend, DeviceBuf, Module, ScratchOwned, ZnxView},
    source::Source,
};

const N: usize = 64;

#[derive(Clone, Copy, Debug)]
struct Shape {
    base2k_key: u32,
    base2k_glwe: u32,
    base2k_lwe: u32,
    size_key: u32,
    size_glwe: u32,
    size_lwe: u32,
    dnum: u32,
    rank: u32,
}

impl Shape {
    fn layouts(&self) -> (LWEToGLWEKeyLayout, GLWELayout, LWELayout) {
        (
            LWEToGLWEKeyLayout {
                n: Degree(N as u32),
                base2k: Base2K(self.base2k_key),
                k: TorusPrecision(self.size_key * self.base2k_key),
                dnum: Dnum(self.dnum),
                rank_out: Rank(self.rank),
            },
            GLWELayout {
                n: Degree(N as u32),
                base2k: Base2K(self.base2k_glwe),
                k: TorusPrecision(self.size_glwe * self.base2k_glwe),
                rank: Rank(self.rank),
            },
            LWELayout {
                n: Degree(22),
                base2k: Base2K(self.base2k_lwe),
                k: TorusPrecision(self.size_lwe * self.base2k_lwe),
            },
        )
    }
}

/// Runs `glwe_from_lwe` on zero-initialised operands with an exact-size scratch buffer.
/// Only the scratch behaviour is observed here (no encryption).
fn run_exact<BE: Backend>(module: &Module<BE>, s: &Shape) -> Result<usize, String>
where
    Module<BE>: GLWEFromLWE<BE> + LWEToGLWEKeyPreparedFactory<BE>,
    ScratchOwned<BE>: ScratchOwnedAlloc<BE> + ScratchOwnedBorrow<BE>,
{
    let (key_infos, glwe_infos, lwe_infos) = s.layouts();
    let ksk: LWEToGLWEKeyPrepared<DeviceBuf<BE>, BE> = module.lwe_to_glwe_key_prepared_alloc_from_infos(&key_infos);
    let lwe: LWE<Vec<u8>> = LWE::alloc_from_infos(&lwe_infos);
    let mut glwe: GLWE<Vec<u8>> = GLWE::alloc_from_infos(&glwe_infos);

    let declared: usize = module.glwe_from_lwe_tmp_bytes(&glwe_infos, &lwe_infos, &key_infos);
    let mut scratch: ScratchOwned<BE> = ScratchOwned::alloc(declared);

    catch_unwind(AssertUnwindSafe(|| {
        module.glwe_from_lwe(&mut glwe, &lwe, &ksk, scratch.borrow());
    }))
    .map(|_| declared)
    .map_err(|e| {
        e.downcast_ref::<String>()
            .cloned()
            .or_else(|| e.downcast_ref::<&str>().map(|s| s.to_string()))
            .unwrap_or_else(|| "<non-string panic>".into())
    })
}

fn sweep<BE: Backend>(module: &Module<BE>, base2k_key: u32) -> Vec<(Shape, String)>
where
    Module<BE>: GLWEFromLWE<BE> + LWEToGLWEKeyPreparedFactory<BE>,
    ScratchOwned<BE>: ScratchOwnedAlloc<BE> + ScratchOwnedBorrow<BE>,
{
    let mut failures: Vec<(Shape, String)> = Vec::new();
    let mut total = 0usize;
    for rank in 1..=3u32 {
        for size_key in 2..=5u32 {
            for dnum in 1..=size_key {
                for base2k_glwe in [base2k_key, base2k_key - 1] {
                    for base2k_lwe in [base2k_key, base2k_key - 2] {
                        for size_glwe in 1..=5u32 {
                            for size_lwe in 1..=6u32 {
                                let s = Shape {
                                    base2k_key,
                                    base2k_glwe,
                                    base2k_lwe,
                                    size_key,
                                    size_glwe,
                                    size_lwe,
                                    dnum,
                                    rank,
                                };
                                total += 1;
                                if let Err(msg) = run_exact(module, &s) {
                                    failures.push((s, msg));
                                }
                            }
                        }
                    }
                }
            }
        }
    }
    eprintln!("swept {total} shapes, {} failing", failures.len());
    failures
}

fn report(failures: &[(Shape, String)]) {
    // "smallest": fewest total limbs, then rank
    let mut sorted: Vec<&(Shape, String)> = failures.iter().collect();
    sorted.sort_by_key(|(s, _)| (s.size_lwe + s.size_glwe + s.size_key + s.dnum + s.rank, s.rank, s.size_lwe));
    for (s, msg) in sorted.iter().take(8) {
        eprintln!("FAIL {s:?}\n     {msg}");
    }
    let same_radix = failures
        .iter()
        .filter(|(s, _)| s.base2k_glwe == s.base2k_key && s.base2k_lwe == s.base2k_key)
        .count();
    let res_other_radix = failures.iter().filter(|(s, _)| s.base2k_glwe != s.base2k_key).count();
    let lwe_le_glwe = failures
        .iter()
        .filter(|(s, _)| s.size_lwe * s.base2k_lwe <= s.size_glwe * s.base2k_glwe)
        .count();
    eprintln!(
        "failures: all-same-radix={same_radix} res-in-other-radix={res_other_radix} with lwe.max_k<=glwe.max_k={lwe_le_glwe}"
    );
}

#[test]
fn sc6_h1_sweep_fft64_ref() {
    let prev = std::panic::take_hook();
    if std::env::var("SC6_VERBOSE").is_err() { std::panic::set_hook(Box::new(|_| {})); }
    let module: Module<FFT64Ref> = Module::<FFT64Ref>::new(N as u64);
    let failures = sweep(&module, 17);
    std::panic::set_hook(prev);
    report(&failures);
    assert!(failures.is_empty(), "{} shapes under-declared", failures.len());
}

#[test]
fn sc6_h1_sweep_ntt120_ref() {
    let prev = std::panic::take_hook();
    if std::env::var("SC6_VERBOSE").is_err() { std::panic::set_hook(Box::new(|_| {})); }
    let module: Module<NTT120Ref> = Module::<NTT120Ref>::new(N as u64);
    let failures = sweep(&module, 52);
    std::panic::set_hook(prev);
    report(&failures);
    assert!(failures.is_empty(), "{} shapes under-declared", failures.len());
}

/// End-to-end (real encryption / decryption) on one small shape where the LWE carries more limbs
/// than the GLWE it is converted into: a high precision LWE packed into a lower precision GLWE.
#[test]
fn sc6_h1_end_to_end_fft64_ref() {
    let module: Module<FFT64Ref> = Module::<FFT64Ref>::new(N as u64);
    let s = Shape {
        base2k_key: 17,
        base2k_glwe: 17,
        base2k_lwe: 17,
        size_key: 3,
        size_glwe: 2,
        size_lwe: 3,
        dnum: 3,
        rank: 1,
    };
    let (key_layout, glwe_infos, lwe_layout) = s.layouts();
    let key_infos = EncryptionLayout::new_from_default_sigma(key_layout).unwrap();
    let lwe_infos = EncryptionLayout::new_from_default_sigma(lwe_layout).unwrap();

    let mut source_xs: Source = Source::new([0u8; 32]);
    let mut source_xa: Source = Source::new([1u8; 32]);
    let mut source_xe: Source = Source::new([2u8; 32]);

    // Generous scratch for everything that is *not* under test.
    let mut setup: ScratchOwned<FFT64Ref> = ScratchOwned::alloc(1 << 22);

    let mut sk_glwe: GLWESecret<Vec<u8>> = GLWESecret::alloc_from_infos(&glwe_infos);
    sk_glwe.fill_ternary_prob(0.5, &mut source_xs);
    let mut sk_glwe_prepared: GLWESecretPrepared<DeviceBuf<FFT64Ref>, FFT64Ref> =
        module.glwe_secret_prepared_alloc_from_infos(&sk_glwe);
    module.glwe_secret_prepare(&mut sk_glwe_prepared, &sk_glwe);

    let mut sk_lwe: LWESecret<Vec<u8>> = LWESecret::alloc(Degree(22));
    sk_lwe.fill_ternary_prob(0.5, &mut source_xs);

    let k_lwe_pt = TorusPrecision(8);
    let mut lwe_pt: LWEPlaintext<Vec<u8>> = LWEPlaintext::alloc_from_infos(&lwe_infos);
    lwe_pt.encode_i64(17, k_lwe_pt);

    let mut lwe_ct: LWE<Vec<u8>> = LWE::alloc_from_infos(&lwe_infos);
    module.lwe_encrypt_sk(
        &mut lwe_ct,
        &lwe_pt,
        &sk_lwe,
        &lwe_infos,
        &mut source_xe,
        &mut source_xa,
        setup.borrow(),
    );

    let mut ksk: LWEToGLWEKey<Vec<u8>> = LWEToGLWEKey::alloc_from_infos(&key_infos);
    module.lwe_to_glwe_key_encrypt_sk(
        &mut ksk,
        &sk_lwe,
        &sk_glwe_prepared,
        &key_infos,
        &mut source_xe,
        &mut source_xa,
        setup.borrow(),
    );
    let mut ksk_prepared: LWEToGLWEKeyPrepared<DeviceBuf<FFT64Ref>, FFT64Ref> =
        module.lwe_to_glwe_key_prepared_alloc_from_infos(&ksk);
    module.lwe_to_glwe_key_prepare(&mut ksk_prepared, &ksk, setup.borrow());

    let mut glwe_ct: GLWE<Vec<u8>> = GLWE::alloc_from_infos(&glwe_infos);

    // The call under test: scratch of exactly the companion query.
    let declared = module.glwe_from_lwe_tmp_bytes(&glwe_infos, &lwe_infos, &key_infos);
    let mut exact: ScratchOwned<FFT64Ref> = ScratchOwned::alloc(declared);
    module.glwe_from_lwe(&mut glwe_ct, &lwe_ct, &ksk_prepared, exact.borrow());

    let mut glwe_pt: GLWEPlaintext<Vec<u8>> = GLWEPlaintext::alloc_from_infos(&glwe_infos);
    module.glwe_decrypt(&glwe_ct, &mut glwe_pt, &sk_glwe_prepared, setup.borrow());

    let mut lwe_pt_conv = LWEPlaintext::alloc(glwe_pt.base2k(), lwe_pt.max_k());
    module.vec_znx_normalize(
        lwe_pt_conv.data_mut(),
        glwe_pt.base2k().as_usize(),
        0,
        0,
        lwe_pt.data(),
        lwe_pt.base2k().as_usize(),
        0,
        setup.borrow(),
    );
    assert_eq!(glwe_pt.data().at(0, 0)[0], lwe_pt_conv.data().at(0, 0)[0]);
}
