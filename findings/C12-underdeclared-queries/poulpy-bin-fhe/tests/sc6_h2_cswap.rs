//! SC-6 / H2: `Cswap::cswap` run on a scratch buffer of exactly
//! `cswap_tmp_bytes(res_a, res_b, s)` bytes.
//!
//! The operation feeds a temporary `{base2k: s.base2k(), k: max(res_a.max_k(), res_b.max_k()), rank: s.rank()}`
//! to `glwe_external_product_internal`, whereas the size query evaluates the nested query with
//! `a_infos = res_b_infos` only.

use std::panic::{AssertUnwindSafe, catch_unwind};

use poulpy_bin_fhe::bdd_arithmetic::Cswap;
use poulpy_core::{
    EncryptionLayout, GGSWEncryptSk, GLWEDecrypt, GLWEEncryptSk,
    layouts::{
        Base2K, Degree, Dnum, Dsize, GGSW, GGSWLayout, GGSWPrepared, GGSWPreparedFactory, GLWE, GLWELayout, GLWEPlaintext,
        GLWESecret, GLWESecretPreparedFactory, Rank, TorusPrecision, prepared::GLWESecretPrepared,
    },
};
use poulpy_cpu_ref::{FFT64Ref, NTT120Ref};
use poulpy_hal::{
    api::{ModuleNew, ScratchOwnedAlloc, ScratchOwnedBorrow},
    layouts::{Backend, DeviceBuf, Module, ScalarZnx, Scratch, ScratchOwned, ZnxViewMut},
    source::Source,
};

const N: usize = 64;

#[derive(Clone, Copy, Debug)]
struct Shape {
    base2k_s: u32,
    base2k_res: u32,
    size_s: u32,
    dnum: u32,
    dsize: u32,
    size_a: u32,
    size_b: u32,
    rank: u32,
}

impl Shape {
    fn layouts(&self) -> (GGSWLayout, GLWELayout, GLWELayout) {
        (
            GGSWLayout {
                n: Degree(N as u32),
                base2k: Base2K(self.base2k_s),
                k: TorusPrecision(self.size_s * self.base2k_s),
                rank: Rank(self.rank),
                dnum: Dnum(self.dnum),
                dsize: Dsize(self.dsize),
            },
            GLWELayout {
                n: Degree(N as u32),
                base2k: Base2K(self.base2k_res),
                k: TorusPrecision(self.size_a * self.base2k_res),
                rank: Rank(self.rank),
            },
            GLWELayout {
                n: Degree(N as u32),
                base2k: Base2K(self.base2k_res),
                k: TorusPrecision(self.size_b * self.base2k_res),
                rank: Rank(self.rank),
            },
        )
    }
}

fn panic_msg(e: Box<dyn std::any::Any + Send>) -> String {
    e.downcast_ref::<String>()
        .cloned()
        .or_else(|| e.downcast_ref::<&str>().map(|s| s.to_string()))
        .unwrap_or_else(|| "<non-string panic>".into())
}

/// Runs `cswap` on zero-initialised operands with an exact-size scratch buffer (scratch behaviour only).
fn run_exact<BE: Backend>(module: &Module<BE>, s: &Shape) -> Result<usize, String>
where
    Module<BE>: Cswap<BE> + GGSWPreparedFactory<BE>,
    ScratchOwned<BE>: ScratchOwnedAlloc<BE> + ScratchOwnedBorrow<BE>,
    Scratch<BE>: poulpy_core::ScratchTakeCore<BE>,
{
    let (s_infos, a_infos, b_infos) = s.layouts();
    let sel: GGSWPrepared<DeviceBuf<BE>, BE> = module.ggsw_prepared_alloc_from_infos(&s_infos);
    let mut a: GLWE<Vec<u8>> = GLWE::alloc_from_infos(&a_infos);
    let mut b: GLWE<Vec<u8>> = GLWE::alloc_from_infos(&b_infos);

    let declared: usize = module.cswap_tmp_bytes(&a_infos, &b_infos, &s_infos);
    let mut scratch: ScratchOwned<BE> = ScratchOwned::alloc(declared);

    catch_unwind(AssertUnwindSafe(|| {
        module.cswap(&mut a, &mut b, &sel, scratch.borrow());
    }))
    .map(|_| declared)
    .map_err(panic_msg)
}

fn sweep<BE: Backend>(module: &Module<BE>, base2k_s: u32, base2k_res: u32) -> (usize, Vec<(Shape, String)>)
where
    Module<BE>: Cswap<BE> + GGSWPreparedFactory<BE>,
    ScratchOwned<BE>: ScratchOwnedAlloc<BE> + ScratchOwnedBorrow<BE>,
    Scratch<BE>: poulpy_core::ScratchTakeCore<BE>,
{
    let mut failures: Vec<(Shape, String)> = Vec::new();
    let mut total = 0usize;
    for rank in 1..=3u32 {
        for dsize in 1..=2u32 {
            for size_s in (dsize + 1)..=5u32 {
                for dnum in 1..=(size_s / dsize) {
                    for size_a in 1..=6u32 {
                        for size_b in 1..=6u32 {
                            let s = Shape {
                                base2k_s,
                                base2k_res,
                                size_s,
                                dnum,
                                dsize,
                                size_a,
                                size_b,
                                rank,
                            };
                            total += 1;
                            if let Err(msg) = run_exact(module, &s) {
                                failures.push((s, msg));
                            }
                        }
                    }
                }
            }
        }
    }
    (total, failures)
}

fn report(total: usize, failures: &[(Shape, String)]) {
    eprintln!("swept {total} shapes, {} failing", failures.len());
    let mut sorted: Vec<&(Shape, String)> = failures.iter().collect();
    sorted.sort_by_key(|(s, _)| (s.size_a + s.size_b + s.size_s + s.dnum + s.rank + s.dsize, s.rank, s.size_a));
    for (s, msg) in sorted.iter().take(8) {
        eprintln!("FAIL {s:?}\n     {msg}");
    }
    let a_le_b = failures.iter().filter(|(s, _)| s.size_a <= s.size_b).count();
    eprintln!("failures with res_a.max_k <= res_b.max_k: {a_le_b}");
}

fn quiet<R>(f: impl FnOnce() -> R) -> R {
    let prev = std::panic::take_hook();
    if std::env::var("SC6_VERBOSE").is_err() {
        std::panic::set_hook(Box::new(|_| {}));
    }
    let r = f();
    std::panic::set_hook(prev);
    r
}

#[test]
fn sc6_h2_sweep_same_radix_fft64_ref() {
    let module: Module<FFT64Ref> = Module::<FFT64Ref>::new(N as u64);
    let (total, failures) = quiet(|| sweep(&module, 17, 17));
    report(total, &failures);
    assert!(failures.is_empty(), "{} shapes under-declared", failures.len());
}

#[test]
fn sc6_h2_sweep_same_radix_ntt120_ref() {
    let module: Module<NTT120Ref> = Module::<NTT120Ref>::new(N as u64);
    let (total, failures) = quiet(|| sweep(&module, 52, 52));
    report(total, &failures);
    assert!(failures.is_empty(), "{} shapes under-declared", failures.len());
}

/// Informative: the cross-radix branch (`res.base2k() != s.base2k()`).
///
/// Every shape panics, but not for lack of scratch: the branch calls
/// `glwe_sub(&mut tmp_c, res_b, res_a)` with `tmp_c` in the selector radix and `res_a`/`res_b` in the
/// result radix, which trips `assert_eq!(a.base2k(), res.base2k())` in `glwe_sub`
/// (`tmp_b`/`tmp_a` were meant). With that operand fix, and the size-query repair, all shapes pass.
#[test]
#[ignore = "separate defect: cswap cross-radix branch subtracts the un-normalised operands and always panics"]
fn sc6_h2_sweep_cross_radix_fft64_ref() {
    let module: Module<FFT64Ref> = Module::<FFT64Ref>::new(N as u64);
    let (total, failures) = quiet(|| sweep(&module, 17, 15));
    report(total, &failures);
    assert!(failures.is_empty(), "{} shapes panicked", failures.len());
}

/// End-to-end (real encryption / decryption): `res_a` carries one more limb than `res_b`.
#[test]
fn sc6_h2_end_to_end_fft64_ref() {
    let module: Module<FFT64Ref> = Module::<FFT64Ref>::new(N as u64);
    let shape = Shape {
        base2k_s: 17,
        base2k_res: 17,
        size_s: 3,
        dnum: 3,
        dsize: 1,
        size_a: 3,
        size_b: 1,
        rank: 1,
    };
    let (s_infos, a_infos, b_infos) = shape.layouts();

    let mut source_xs: Source = Source::new([1u8; 32]);
    let mut source_xa: Source = Source::new([2u8; 32]);
    let mut source_xe: Source = Source::new([3u8; 32]);

    let mut setup: ScratchOwned<FFT64Ref> = ScratchOwned::alloc(1 << 22);

    let mut sk: GLWESecret<Vec<u8>> = GLWESecret::alloc(Degree(N as u32), Rank(shape.rank));
    sk.fill_ternary_prob(0.5, &mut source_xs);
    let mut sk_prep: GLWESecretPrepared<DeviceBuf<FFT64Ref>, FFT64Ref> = module.glwe_secret_prepared_alloc(Rank(shape.rank));
    module.glwe_secret_prepare(&mut sk_prep, &sk);

    let a_enc_infos = EncryptionLayout::new_from_default_sigma(a_infos).unwrap();
    let b_enc_infos = EncryptionLayout::new_from_default_sigma(b_infos).unwrap();
    let s_enc_infos = EncryptionLayout::new_from_default_sigma(s_infos).unwrap();

    let k_pt = TorusPrecision(4);
    let data_a: Vec<i64> = (0..N as i64).map(|i| (i % 7) - 3).collect();
    let data_b: Vec<i64> = (0..N as i64).map(|i| ((i * 3) % 7) - 3).collect();

    for bit in [0i64, 1] {
        let mut pt_a: GLWEPlaintext<Vec<u8>> = GLWEPlaintext::alloc_from_infos(&a_infos);
        let mut pt_b: GLWEPlaintext<Vec<u8>> = GLWEPlaintext::alloc_from_infos(&b_infos);
        pt_a.encode_vec_i64(&data_a, k_pt);
        pt_b.encode_vec_i64(&data_b, k_pt);

        let mut ct_a: GLWE<Vec<u8>> = GLWE::alloc_from_infos(&a_infos);
        let mut ct_b: GLWE<Vec<u8>> = GLWE::alloc_from_infos(&b_infos);
        module.glwe_encrypt_sk(
            &mut ct_a,
            &pt_a,
            &sk_prep,
            &a_enc_infos,
            &mut source_xe,
            &mut source_xa,
            setup.borrow(),
        );
        module.glwe_encrypt_sk(
            &mut ct_b,
            &pt_b,
            &sk_prep,
            &b_enc_infos,
            &mut source_xe,
            &mut source_xa,
            setup.borrow(),
        );

        let mut sel: GGSW<Vec<u8>> = GGSW::alloc_from_infos(&s_infos);
        let mut sel_prep: GGSWPrepared<DeviceBuf<FFT64Ref>, FFT64Ref> = module.ggsw_prepared_alloc_from_infos(&s_infos);
        let mut pt_s: ScalarZnx<Vec<u8>> = ScalarZnx::alloc(N, 1);
        pt_s.raw_mut()[0] = bit;
        module.ggsw_encrypt_sk(
            &mut sel,
            &pt_s,
            &sk_prep,
            &s_enc_infos,
            &mut source_xe,
            &mut source_xa,
            setup.borrow(),
        );
        module.ggsw_prepare(&mut sel_prep, &sel, setup.borrow());

        // The call under test: scratch of exactly the companion query.
        let declared = module.cswap_tmp_bytes(&a_infos, &b_infos, &s_infos);
        let mut exact: ScratchOwned<FFT64Ref> = ScratchOwned::alloc(declared);
        module.cswap(&mut ct_a, &mut ct_b, &sel_prep, exact.borrow());

        module.glwe_decrypt(&ct_a, &mut pt_a, &sk_prep, setup.borrow());
        module.glwe_decrypt(&ct_b, &mut pt_b, &sk_prep, setup.borrow());
        let mut have_a = vec![0i64; N];
        let mut have_b = vec![0i64; N];
        pt_a.decode_vec_i64(&mut have_a, k_pt);
        pt_b.decode_vec_i64(&mut have_b, k_pt);

        let (want_a, want_b) = if bit == 0 { (&data_a, &data_b) } else { (&data_b, &data_a) };
        assert_eq!(&have_a, want_a, "res_a, bit={bit}");
        assert_eq!(&have_b, want_b, "res_b, bit={bit}");
    }
}
