//! SC-6 / H3: `ckks_mul_into`, `ckks_mul_assign`, `ckks_square_into` and `ckks_dot_product_ct` run on a
//! scratch buffer of exactly `ckks_{mul,square,dot_product_ct}_tmp_bytes(<the destination>, tsk)` bytes.
//!
//! The operations take a tensor temporary with `k = max(a.max_k(), b.max_k())` (in `dst`'s radix and rank)
//! whereas the original size queries only saw one layout (`res`).
//!
//! This file targets the repaired API, where the queries also receive the operand layouts. Passing the
//! destination for every role (`Query::DstOnly`) yields byte-for-byte the value of the original
//! `ckks_*_tmp_bytes(&dst, tsk)`; `Query::Operands` passes the real operands. The version of this file
//! written against the original API is kept next to it as `sc6_h3_ckks_mul.pre-repair-api.rs.txt`.

use std::panic::{AssertUnwindSafe, catch_unwind};

use poulpy_ckks::{
    CKKSInfos, CKKSMeta,
    encoding::Encoder,
    layouts::{CKKSCiphertext, CKKSPlaintextConversion, CKKSPlaintextVecRnx, CKKSPlaintextVecZnx},
    leveled::api::{CKKSAllOpsTmpBytes, CKKSDecrypt, CKKSDotProductOps, CKKSEncrypt, CKKSMulOps},
};
use poulpy_core::{
    EncryptionLayout, GLWETensorKeyEncryptSk,
    layouts::{
        GLWELayout, GLWESecret, GLWETensorKey, GLWETensorKeyLayout, GLWETensorKeyPreparedFactory, LWEInfos, Rank,
        prepared::{GLWESecretPrepared, GLWESecretPreparedFactory, GLWETensorKeyPrepared},
    },
};
use poulpy_cpu_ref::FFT64Ref;
use poulpy_hal::{
    api::{ModuleNew, ScratchOwnedAlloc, ScratchOwnedBorrow},
    layouts::{DeviceBuf, Module, ScratchOwned},
    source::Source,
};

type BE = FFT64Ref;

const N: usize = 64;
const M: usize = N / 2;
const BASE2K: usize = 19;
const MAX_LIMBS: usize = 8;
const CT_K: usize = MAX_LIMBS * BASE2K;
const HW: usize = 32;
const DSIZE: usize = 1;
const PREC: CKKSMeta = CKKSMeta {
    log_delta: 30,
    log_budget: 10,
};

fn glwe_layout(k: usize) -> EncryptionLayout<GLWELayout> {
    EncryptionLayout::new_from_default_sigma(GLWELayout {
        n: N.into(),
        base2k: BASE2K.into(),
        k: k.into(),
        rank: Rank(1),
    })
    .unwrap()
}

fn tsk_layout() -> EncryptionLayout<GLWETensorKeyLayout> {
    let k = CT_K + DSIZE * BASE2K;
    let dnum = k.div_ceil(DSIZE * BASE2K);
    EncryptionLayout::new_from_default_sigma(GLWETensorKeyLayout {
        n: N.into(),
        base2k: BASE2K.into(),
        k: k.into(),
        rank: Rank(1),
        dsize: DSIZE.into(),
        dnum: dnum.into(),
    })
    .unwrap()
}

struct Ctx {
    module: Module<BE>,
    encoder: Encoder<f64>,
    sk: GLWESecretPrepared<DeviceBuf<BE>, BE>,
    tsk: GLWETensorKeyPrepared<DeviceBuf<BE>, BE>,
    /// Generously sized scratch for everything that is *not* under test.
    setup: ScratchOwned<BE>,
    re1: Vec<f64>,
    im1: Vec<f64>,
    re2: Vec<f64>,
    im2: Vec<f64>,
}

impl Ctx {
    fn new() -> Self {
        let module = Module::<BE>::new(N as u64);
        let encoder = Encoder::<f64>::new(M).unwrap();

        let mut source_xs = Source::new([0u8; 32]);
        let mut source_xa = Source::new([1u8; 32]);
        let mut source_xe = Source::new([2u8; 32]);

        let mut sk_raw = GLWESecret::alloc_from_infos(&glwe_layout(CT_K));
        sk_raw.fill_ternary_hw(HW, &mut source_xs);
        let mut sk = module.glwe_secret_prepared_alloc_from_infos(&glwe_layout(CT_K));
        module.glwe_secret_prepare(&mut sk, &sk_raw);

        let mut setup = ScratchOwned::<BE>::alloc(4 * module.ckks_all_ops_tmp_bytes(&glwe_layout(CT_K), &tsk_layout(), &PREC));

        let mut tsk = GLWETensorKey::alloc_from_infos(&tsk_layout());
        module.glwe_tensor_key_encrypt_sk(
            &mut tsk,
            &sk_raw,
            &tsk_layout(),
            &mut source_xa,
            &mut source_xe,
            setup.borrow(),
        );
        let mut tsk_prepared = module.alloc_tensor_key_prepared_from_infos(&tsk_layout());
        module.prepare_tensor_key(&mut tsk_prepared, &tsk, setup.borrow());

        let tau = std::f64::consts::TAU;
        let m = M as f64;
        Self {
            module,
            encoder,
            sk,
            tsk: tsk_prepared,
            setup,
            re1: (0..M).map(|i| (tau * (i as f64 + 0.25) / m).cos()).collect(),
            im1: (0..M).map(|i| (tau * (i as f64 + 0.25) / m).sin()).collect(),
            re2: (0..M).map(|i| (tau * (5.0 * i as f64 + 3.0) / (2.0 * m)).cos()).collect(),
            im2: (0..M).map(|i| (tau * (5.0 * i as f64 + 3.0) / (2.0 * m)).sin()).collect(),
        }
    }

    fn encrypt(&mut self, k: usize, re: &[f64], im: &[f64]) -> CKKSCiphertext<Vec<u8>> {
        let mut pt_rnx = CKKSPlaintextVecRnx::<f64>::alloc(N).unwrap();
        self.encoder.encode_reim(&mut pt_rnx, re, im).unwrap();
        let mut pt_znx = CKKSPlaintextVecZnx::alloc(N.into(), BASE2K.into(), PREC);
        pt_rnx.to_znx(&mut pt_znx).unwrap();

        let mut ct = CKKSCiphertext::alloc(N.into(), k.into(), BASE2K.into());
        let mut xa = Source::new([3u8; 32]);
        let mut xe = Source::new([4u8; 32]);
        self.module
            .ckks_encrypt_sk(&mut ct, &pt_znx, &self.sk, &glwe_layout(k), &mut xa, &mut xe, self.setup.borrow())
            .unwrap();
        ct
    }

    fn decrypt_decode(&mut self, ct: &CKKSCiphertext<Vec<u8>>) -> (Vec<f64>, Vec<f64>) {
        let mut pt_znx = CKKSPlaintextVecZnx::alloc_from_infos(ct);
        self.module
            .ckks_decrypt(&mut pt_znx, ct, &self.sk, self.setup.borrow())
            .unwrap();
        let mut pt_rnx = CKKSPlaintextVecRnx::<f64>::alloc(N).unwrap();
        pt_rnx.decode_from_znx(&pt_znx).unwrap();
        let mut re = vec![0.0; M];
        let mut im = vec![0.0; M];
        self.encoder.decode_reim(&pt_rnx, &mut re, &mut im).unwrap();
        (re, im)
    }

    fn want_mul(&self) -> (Vec<f64>, Vec<f64>) {
        let re = (0..M).map(|i| self.re1[i] * self.re2[i] - self.im1[i] * self.im2[i]).collect();
        let im = (0..M).map(|i| self.re1[i] * self.im2[i] + self.re2[i] * self.im1[i]).collect();
        (re, im)
    }

    fn want_square(&self) -> (Vec<f64>, Vec<f64>) {
        let re = (0..M).map(|i| self.re1[i] * self.re1[i] - self.im1[i] * self.im1[i]).collect();
        let im = (0..M).map(|i| 2.0 * self.re1[i] * self.im1[i]).collect();
        (re, im)
    }
}

fn max_err(a: &[f64], b: &[f64]) -> f64 {
    a.iter().zip(b).map(|(x, y)| (x - y).abs()).fold(0.0_f64, f64::max)
}

fn panic_msg(e: Box<dyn std::any::Any + Send>) -> String {
    e.downcast_ref::<String>()
        .cloned()
        .or_else(|| e.downcast_ref::<&str>().map(|s| s.to_string()))
        .unwrap_or_else(|| "<non-string panic>".into())
}

fn quiet<R>(f: impl FnOnce() -> R) -> R {
    let prev = std::panic::take_hook();
    if std::env::var("SC6_VERBOSE").is_err() {
        std::panic::set_hook(Box::new(|_| {}));
    }
    let r = f();
    std::panic::set_hook(prev);
    r
}

/// Which layouts are handed to the size query.
#[derive(Clone, Copy, Debug)]
enum Query {
    /// The destination in every role: the value of the original single-layout query.
    DstOnly,
    /// The destination and the real operands.
    Operands,
}

#[derive(Debug)]
#[allow(dead_code)]
enum Outcome {
    Ok,
    /// The operation rejected the operands with an `Err` (not an admissible shape).
    Rejected(String),
    Panicked(String),
}

fn outcome(r: std::thread::Result<anyhow::Result<()>>) -> Outcome {
    match r {
        Ok(Ok(())) => Outcome::Ok,
        Ok(Err(e)) => Outcome::Rejected(e.to_string()),
        Err(e) => Outcome::Panicked(panic_msg(e)),
    }
}

/// `ckks_mul_into(dst, a, b)` with scratch = `ckks_mul_tmp_bytes(&dst, tsk)`.
fn mul_exact(ctx: &mut Ctx, q: Query, limbs_a: usize, limbs_b: usize, limbs_dst: usize) -> (Outcome, CKKSCiphertext<Vec<u8>>) {
    let (re1, im1, re2, im2) = (ctx.re1.clone(), ctx.im1.clone(), ctx.re2.clone(), ctx.im2.clone());
    let a = ctx.encrypt(limbs_a * BASE2K, &re1, &im1);
    let b = ctx.encrypt(limbs_b * BASE2K, &re2, &im2);
    let mut dst = CKKSCiphertext::alloc(N.into(), (limbs_dst * BASE2K).into(), BASE2K.into());
    let declared = match q {
        Query::DstOnly => ctx.module.ckks_mul_tmp_bytes(&dst, &dst, &dst, &tsk_layout()),
        Query::Operands => ctx.module.ckks_mul_tmp_bytes(&dst, &a, &b, &tsk_layout()),
    };
    let mut exact = ScratchOwned::<BE>::alloc(declared);
    let r = catch_unwind(AssertUnwindSafe(|| {
        ctx.module.ckks_mul_into(&mut dst, &a, &b, &ctx.tsk, exact.borrow())
    }));
    (outcome(r), dst)
}

/// `ckks_mul_assign(dst, a)` with scratch = `ckks_mul_tmp_bytes(&dst, tsk)`.
fn mul_assign_exact(ctx: &mut Ctx, q: Query, limbs_dst: usize, limbs_a: usize) -> (Outcome, CKKSCiphertext<Vec<u8>>) {
    let (re1, im1, re2, im2) = (ctx.re1.clone(), ctx.im1.clone(), ctx.re2.clone(), ctx.im2.clone());
    let mut dst = ctx.encrypt(limbs_dst * BASE2K, &re1, &im1);
    let a = ctx.encrypt(limbs_a * BASE2K, &re2, &im2);
    let declared = match q {
        Query::DstOnly => ctx.module.ckks_mul_tmp_bytes(&dst, &dst, &dst, &tsk_layout()),
        Query::Operands => ctx.module.ckks_mul_tmp_bytes(&dst, &dst, &a, &tsk_layout()),
    };
    let mut exact = ScratchOwned::<BE>::alloc(declared);
    let r = catch_unwind(AssertUnwindSafe(|| {
        ctx.module.ckks_mul_assign(&mut dst, &a, &ctx.tsk, exact.borrow())
    }));
    (outcome(r), dst)
}

/// `ckks_square_into(dst, a)` with scratch = `ckks_square_tmp_bytes(&dst, tsk)`.
fn square_exact(ctx: &mut Ctx, q: Query, limbs_a: usize, limbs_dst: usize) -> (Outcome, CKKSCiphertext<Vec<u8>>) {
    let (re1, im1) = (ctx.re1.clone(), ctx.im1.clone());
    let a = ctx.encrypt(limbs_a * BASE2K, &re1, &im1);
    let mut dst = CKKSCiphertext::alloc(N.into(), (limbs_dst * BASE2K).into(), BASE2K.into());
    let declared = match q {
        Query::DstOnly => ctx.module.ckks_square_tmp_bytes(&dst, &dst, &tsk_layout()),
        Query::Operands => ctx.module.ckks_square_tmp_bytes(&dst, &a, &tsk_layout()),
    };
    let mut exact = ScratchOwned::<BE>::alloc(declared);
    let r = catch_unwind(AssertUnwindSafe(|| {
        ctx.module.ckks_square_into(&mut dst, &a, &ctx.tsk, exact.borrow())
    }));
    (outcome(r), dst)
}

/// `ckks_dot_product_ct(dst, [a, a], [b, b])` with scratch = `ckks_dot_product_ct_tmp_bytes(2, &dst, tsk)`.
fn dot_exact(ctx: &mut Ctx, q: Query, limbs_in: usize, limbs_dst: usize) -> (Outcome, CKKSCiphertext<Vec<u8>>) {
    let (re1, im1, re2, im2) = (ctx.re1.clone(), ctx.im1.clone(), ctx.re2.clone(), ctx.im2.clone());
    let a = ctx.encrypt(limbs_in * BASE2K, &re1, &im1);
    let b = ctx.encrypt(limbs_in * BASE2K, &re2, &im2);
    let mut dst = CKKSCiphertext::alloc(N.into(), (limbs_dst * BASE2K).into(), BASE2K.into());
    let declared = match q {
        Query::DstOnly => ctx.module.ckks_dot_product_ct_tmp_bytes(2, &dst, &dst, &dst, &tsk_layout()),
        Query::Operands => ctx.module.ckks_dot_product_ct_tmp_bytes(2, &dst, &a, &b, &tsk_layout()),
    };
    let mut exact = ScratchOwned::<BE>::alloc(declared);
    let r = catch_unwind(AssertUnwindSafe(|| {
        ctx.module
            .ckks_dot_product_ct(&mut dst, &[&a, &a], &[&b, &b], &ctx.tsk, exact.borrow())
    }));
    (outcome(r), dst)
}

fn summarize(label: &str, results: &[(String, Outcome)]) -> usize {
    let ok = results.iter().filter(|(_, o)| matches!(o, Outcome::Ok)).count();
    let rejected = results.iter().filter(|(_, o)| matches!(o, Outcome::Rejected(_))).count();
    let panicked: Vec<&(String, Outcome)> = results.iter().filter(|(_, o)| matches!(o, Outcome::Panicked(_))).collect();
    eprintln!(
        "{label}: {} shapes, ok={ok} rejected(Err)={rejected} panicked={}",
        results.len(),
        panicked.len()
    );
    for (shape, o) in panicked.iter().take(6) {
        eprintln!("  FAIL {shape}: {o:?}");
    }
    if let Some((shape, o)) = results.iter().find(|(_, o)| matches!(o, Outcome::Rejected(_))) {
        eprintln!("  (first rejected: {shape}: {o:?})");
    }
    panicked.len()
}

#[test]
fn sc6_h3_mul_into_sweep() {
    let mut ctx = Ctx::new();
    let mut results = Vec::new();
    let mut dst_is_largest = 0usize;
    quiet(|| {
        for limbs_dst in 3..=MAX_LIMBS {
            for limbs_a in 3..=MAX_LIMBS {
                for limbs_b in 3..=MAX_LIMBS {
                    let (o, _) = mul_exact(&mut ctx, Query::Operands, limbs_a, limbs_b, limbs_dst);
                    if matches!(o, Outcome::Panicked(_)) && limbs_dst >= limbs_a.max(limbs_b) {
                        dst_is_largest += 1;
                    }
                    results.push((format!("dst={limbs_dst} a={limbs_a} b={limbs_b} limbs"), o));
                }
            }
        }
    });
    let failing = summarize("ckks_mul_into", &results);
    eprintln!("  panics with dst.max_k >= max(a.max_k, b.max_k): {dst_is_largest}");
    assert_eq!(failing, 0, "{failing} shapes panicked with exact-size scratch");
}

#[test]
fn sc6_h3_mul_assign_sweep() {
    let mut ctx = Ctx::new();
    let mut results = Vec::new();
    quiet(|| {
        for limbs_dst in 3..=MAX_LIMBS {
            for limbs_a in 3..=MAX_LIMBS {
                let (o, _) = mul_assign_exact(&mut ctx, Query::Operands, limbs_dst, limbs_a);
                results.push((format!("dst={limbs_dst} a={limbs_a} limbs"), o));
            }
        }
    });
    let failing = summarize("ckks_mul_assign", &results);
    assert_eq!(failing, 0, "{failing} shapes panicked with exact-size scratch");
}

#[test]
fn sc6_h3_square_into_sweep() {
    let mut ctx = Ctx::new();
    let mut results = Vec::new();
    quiet(|| {
        for limbs_dst in 3..=MAX_LIMBS {
            for limbs_a in 3..=MAX_LIMBS {
                let (o, _) = square_exact(&mut ctx, Query::Operands, limbs_a, limbs_dst);
                results.push((format!("dst={limbs_dst} a={limbs_a} limbs"), o));
            }
        }
    });
    let failing = summarize("ckks_square_into", &results);
    assert_eq!(failing, 0, "{failing} shapes panicked with exact-size scratch");
}

#[test]
fn sc6_h3_dot_product_ct_sweep() {
    let mut ctx = Ctx::new();
    let mut results = Vec::new();
    quiet(|| {
        for limbs_dst in 3..=MAX_LIMBS {
            for limbs_in in 3..=MAX_LIMBS {
                let (o, _) = dot_exact(&mut ctx, Query::Operands, limbs_in, limbs_dst);
                results.push((format!("dst={limbs_dst} in={limbs_in} limbs"), o));
            }
        }
    });
    let failing = summarize("ckks_dot_product_ct", &results);
    assert_eq!(failing, 0, "{failing} shapes panicked with exact-size scratch");
}

/// The shape of the crate's own `test_mul_ct_smaller_output` / `test_square_smaller_output`
/// (inputs at the full precision, output one limb shorter), but with scratch sized from the destination.
#[test]
fn sc6_h3_smaller_output_end_to_end() {
    let mut ctx = Ctx::new();

    let (o, dst) = mul_exact(&mut ctx, Query::Operands, MAX_LIMBS, MAX_LIMBS, MAX_LIMBS - 1);
    assert!(matches!(o, Outcome::Ok), "ckks_mul_into: {o:?}");
    let (re, im) = ctx.decrypt_decode(&dst);
    let (want_re, want_im) = ctx.want_mul();
    let err = max_err(&re, &want_re).max(max_err(&im, &want_im));
    eprintln!("mul smaller output: log_delta={} max_err=2^{:.1}", dst.log_delta(), err.log2());
    assert!(err < 2f64.powi(-16), "mul: max_err {err}");

    let (o, dst) = square_exact(&mut ctx, Query::Operands, MAX_LIMBS, MAX_LIMBS - 1);
    assert!(matches!(o, Outcome::Ok), "ckks_square_into: {o:?}");
    let (re, im) = ctx.decrypt_decode(&dst);
    let (want_re, want_im) = ctx.want_square();
    let err = max_err(&re, &want_re).max(max_err(&im, &want_im));
    eprintln!("square smaller output: max_err=2^{:.1}", err.log2());
    assert!(err < 2f64.powi(-16), "square: max_err {err}");

    let _ = dst.max_k();
}

/// Documents the original defect on the repaired tree: the single-layout value (destination in every role,
/// identical to the original `ckks_*_tmp_bytes(&dst, tsk)`) is too small as soon as an operand is wider
/// than the destination, and sufficient otherwise.
#[test]
fn sc6_h3_dst_only_query_underdeclares() {
    let mut ctx = Ctx::new();
    quiet(|| {
        let (o, _) = mul_exact(&mut ctx, Query::DstOnly, 4, 4, 3);
        assert!(matches!(o, Outcome::Panicked(_)), "mul dst=3 a=4 b=4: {o:?}");
        let (o, _) = mul_exact(&mut ctx, Query::DstOnly, MAX_LIMBS, MAX_LIMBS, MAX_LIMBS - 1);
        assert!(matches!(o, Outcome::Panicked(_)), "mul dst=7 a=8 b=8: {o:?}");
        let (o, _) = mul_assign_exact(&mut ctx, Query::DstOnly, 4, 5);
        assert!(matches!(o, Outcome::Panicked(_)), "mul_assign dst=4 a=5: {o:?}");
        let (o, _) = square_exact(&mut ctx, Query::DstOnly, 4, 3);
        assert!(matches!(o, Outcome::Panicked(_)), "square dst=3 a=4: {o:?}");
        let (o, _) = dot_exact(&mut ctx, Query::DstOnly, 6, 3);
        assert!(matches!(o, Outcome::Panicked(_)), "dot dst=3 in=6: {o:?}");

        // Destination at least as wide as the operands: the single-layout value is enough.
        let (o, _) = mul_exact(&mut ctx, Query::DstOnly, MAX_LIMBS - 1, MAX_LIMBS, MAX_LIMBS);
        assert!(matches!(o, Outcome::Ok), "mul dst=8 a=7 b=8: {o:?}");
        let (o, _) = square_exact(&mut ctx, Query::DstOnly, MAX_LIMBS, MAX_LIMBS);
        assert!(matches!(o, Outcome::Ok), "square dst=8 a=8: {o:?}");
    });
}
