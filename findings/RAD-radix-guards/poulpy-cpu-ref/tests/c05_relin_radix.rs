//! C05 demonstration: exact plaintext model for the GLWE tensor product / relinearisation.
//!
//! Two small integer polynomials m_a, m_b are encoded at torus positions 2^-sa and 2^-sb, encrypted with
//! *different* precisions a_k != b_k, multiplied with `glwe_tensor_apply(cnv_offset, ..)`, and the result is
//! decrypted with the tensor secret (and, after `glwe_tensor_relinearize`, with the ordinary secret).
//! The decryption must equal the exact negacyclic product m_a * m_b in Z[X]/(X^N+1) placed at torus position
//! 2^-(sa + sb - cnv_offset), within the predicted noise.
//!
//! Run with:
//!   cargo test --offline -p poulpy-cpu-ref --test c05_tensor_exact -- --nocapture

use poulpy_core::{
    EncryptionLayout, GLWEDecrypt, GLWEEncryptSk, GLWETensorDecrypt, GLWETensorKeyEncryptSk, GLWETensoring, ScratchTakeCore,
    layouts::{
        Dsize, GLWE, GLWELayout, GLWEPlaintext, GLWESecret, GLWESecretPreparedFactory, GLWESecretTensor, GLWESecretTensorFactory,
        GLWESecretTensorPrepared, GLWESecretTensorPreparedFactory, GLWETensor, GLWETensorKey, GLWETensorKeyLayout,
        GLWETensorKeyPrepared, GLWETensorKeyPreparedFactory, LWEInfos, TorusPrecision, prepared::GLWESecretPrepared,
    },
    test_suite::TestBackend,
};
use poulpy_cpu_ref::{FFT64Ref, NTT120Ref};
use poulpy_hal::{
    api::{ModuleNew, ScratchAvailable, ScratchOwnedAlloc, ScratchOwnedBorrow},
    layouts::{DeviceBuf, Module, Scratch, ScratchOwned, ZnxView},
    source::Source,
};

#[derive(Clone, Copy, Debug)]
struct Case {
    in_base2k: usize,
    out_base2k: usize,
    tsk_base2k: usize,
    a_k: usize,
    b_k: usize,
    res_k: usize,
    sa: usize,
    sb: usize,
    cnv_offset: usize,
    rank: usize,
    dsize: usize,
}

/// Exact product of a and b in Z[X]/(X^N+1).
fn negacyclic_product(a: &[i64], b: &[i64]) -> Vec<i128> {
    let n = a.len();
    let mut c = vec![0i128; n];
    for i in 0..n {
        for j in 0..n {
            let v = a[i] as i128 * b[j] as i128;
            if i + j < n {
                c[i + j] += v;
            } else {
                c[i + j - n] -= v;
            }
        }
    }
    c
}

/// Error (as a real number of the torus, centred) between the decrypted plaintext and `want * 2^-p`.
fn torus_errors<D: poulpy_hal::layouts::DataRef>(pt: &GLWEPlaintext<D>, want: &[i128], p: usize) -> Vec<f64> {
    let base2k: usize = pt.base2k().as_usize();
    let limbs: usize = pt.size().min(120 / base2k);
    let bits: usize = limbs * base2k;
    assert!(bits >= p + 8, "not enough limbs ({bits} bits) to read position {p}");
    let modulus: i128 = 1i128 << bits;
    let n = want.len();
    let mut err = vec![0f64; n];
    for i in 0..n {
        let mut v: i128 = 0;
        for j in 0..limbs {
            v = (v << base2k) + pt.data().at(0, j)[i] as i128;
        }
        let w: i128 = (want[i] << (bits - p)).rem_euclid(modulus);
        let mut d: i128 = (v - w).rem_euclid(modulus);
        if d >= modulus / 2 {
            d -= modulus;
        }
        err[i] = d as f64 / modulus as f64;
    }
    err
}

fn log2_std(err: &[f64]) -> f64 {
    let n = err.len() as f64;
    let mean = err.iter().sum::<f64>() / n;
    let var = err.iter().map(|x| (x - mean) * (x - mean)).sum::<f64>() / n;
    (var.sqrt() + f64::MIN_POSITIVE).log2()
}

fn max_abs(err: &[f64]) -> f64 {
    err.iter().fold(0f64, |m, x| m.max(x.abs()))
}

/// Returns a description of the first violation, if any.
fn check(label: &str, case: &Case, err: &[f64], p: usize, predicted_log2: f64) -> Option<String> {
    let have = log2_std(err);
    let worst = max_abs(err);
    if std::env::var("C05_VERBOSE").is_ok() {
        println!(
            "{label}: log2(std)={have:.1} predicted<={predicted_log2:.1} log2(max)={:.1} p={p} {case:?}",
            worst.log2()
        );
    }
    if worst >= 0.5 * (2f64).powi(-(p as i32)) {
        return Some(format!(
            "{label}: WRONG PLAINTEXT max|err|=2^{:.1} >= 2^-{} (half a unit at the expected position), log2(std)={have:.1} predicted<={predicted_log2:.1} {case:?}",
            worst.log2(),
            p + 1
        ));
    }
    if have > predicted_log2 {
        return Some(format!(
            "{label}: NOISE log2(std)={have:.1} > predicted {predicted_log2:.1} {case:?}"
        ));
    }
    None
}

fn run_case<BE: TestBackend>(module: &Module<BE>, case: &Case) -> Vec<String>
where
    Module<BE>: GLWETensoring<BE>
        + GLWEEncryptSk<BE>
        + GLWEDecrypt<BE>
        + GLWETensorDecrypt<BE>
        + GLWESecretPreparedFactory<BE>
        + GLWESecretTensorFactory<BE>
        + GLWESecretTensorPreparedFactory<BE>
        + GLWETensorKeyEncryptSk<BE>
        + GLWETensorKeyPreparedFactory<BE>,
    ScratchOwned<BE>: ScratchOwnedAlloc<BE> + ScratchOwnedBorrow<BE>,
    Scratch<BE>: ScratchAvailable + ScratchTakeCore<BE>,
{
    let n: usize = module.n();
    let log_n: f64 = (n as f64).log2();
    let Case {
        in_base2k,
        out_base2k,
        tsk_base2k,
        a_k,
        b_k,
        res_k,
        sa,
        sb,
        cnv_offset,
        rank,
        dsize,
    } = *case;

    assert!(cnv_offset >= sa.max(sb) && cnv_offset <= sa + sb);
    let p: usize = sa + sb - cnv_offset;

    let a_layout = GLWELayout {
        n: n.into(),
        base2k: in_base2k.into(),
        k: a_k.into(),
        rank: rank.into(),
    };
    let b_layout = GLWELayout {
        n: n.into(),
        base2k: in_base2k.into(),
        k: b_k.into(),
        rank: rank.into(),
    };
    let out_layout = GLWELayout {
        n: n.into(),
        base2k: out_base2k.into(),
        k: res_k.into(),
        rank: rank.into(),
    };
    let k_tsk: usize = res_k + dsize * tsk_base2k;
    let tsk_layout = GLWETensorKeyLayout {
        n: n.into(),
        base2k: tsk_base2k.into(),
        k: k_tsk.into(),
        rank: rank.into(),
        dnum: res_k.div_ceil(dsize * tsk_base2k).into(),
        dsize: Dsize(dsize as u32),
    };

    let a_enc = EncryptionLayout::new_from_default_sigma(a_layout).unwrap();
    let b_enc = EncryptionLayout::new_from_default_sigma(b_layout).unwrap();
    let tsk_enc = EncryptionLayout::new_from_default_sigma(tsk_layout).unwrap();

    let mut a: GLWE<Vec<u8>> = GLWE::alloc_from_infos(&a_layout);
    let mut b: GLWE<Vec<u8>> = GLWE::alloc_from_infos(&b_layout);
    let mut res_tensor: GLWETensor<Vec<u8>> = GLWETensor::alloc_from_infos(&out_layout);
    let relin_layout = GLWELayout {
        n: n.into(),
        base2k: tsk_base2k.into(),
        k: res_k.into(),
        rank: rank.into(),
    };
    let mut res_relin: GLWE<Vec<u8>> = GLWE::alloc_from_infos(&relin_layout);
    let mut pt_a: GLWEPlaintext<Vec<u8>> = GLWEPlaintext::alloc_from_infos(&a_layout);
    let mut pt_b: GLWEPlaintext<Vec<u8>> = GLWEPlaintext::alloc_from_infos(&b_layout);
    let mut pt_have: GLWEPlaintext<Vec<u8>> = GLWEPlaintext::alloc_from_infos(&out_layout);

    let mut scratch: ScratchOwned<BE> = ScratchOwned::alloc(
        module
            .glwe_encrypt_sk_tmp_bytes(&a_layout)
            .max(module.glwe_encrypt_sk_tmp_bytes(&b_layout))
            .max(module.glwe_decrypt_tmp_bytes(&out_layout)).max(module.glwe_decrypt_tmp_bytes(&relin_layout))
            .max(module.glwe_tensor_decrypt_tmp_bytes(&res_tensor))
            .max(module.glwe_tensor_apply_tmp_bytes(&res_tensor, &a, &b))
            .max(module.glwe_secret_tensor_prepare_tmp_bytes(rank.into()))
            .max(module.glwe_tensor_key_encrypt_sk_tmp_bytes(&tsk_layout))
            .max(module.prepare_tensor_key_tmp_bytes(&tsk_layout))
            .max(module.glwe_tensor_relinearize_tmp_bytes(&res_relin, &res_tensor, &tsk_layout))
            + (1 << 16),
    );

    let seed = (case.cnv_offset as u8).wrapping_mul(31) ^ (case.a_k as u8) ^ ((case.rank as u8) << 6);
    let mut source_xs: Source = Source::new([seed; 32]);
    let mut source_xe: Source = Source::new([seed.wrapping_add(1); 32]);
    let mut source_xa: Source = Source::new([seed.wrapping_add(2); 32]);

    let mut sk: GLWESecret<Vec<u8>> = GLWESecret::alloc(n.into(), rank.into());
    sk.fill_ternary_prob(0.5, &mut source_xs);

    let mut sk_dft: GLWESecretPrepared<DeviceBuf<BE>, BE> = module.glwe_secret_prepared_alloc_from_infos(&sk);
    module.glwe_secret_prepare(&mut sk_dft, &sk);

    let mut sk_tensor: GLWESecretTensor<Vec<u8>> = GLWESecretTensor::alloc(n.into(), rank.into());
    module.glwe_secret_tensor_prepare(&mut sk_tensor, &sk, scratch.borrow());
    let mut sk_tensor_prep: GLWESecretTensorPrepared<DeviceBuf<BE>, BE> = module.glwe_secret_tensor_prepared_alloc(rank.into());
    module.glwe_secret_tensor_prepared_prepare(&mut sk_tensor_prep, &sk_tensor);

    let mut tsk: GLWETensorKey<Vec<u8>> = GLWETensorKey::alloc_from_infos(&tsk_layout);
    module.glwe_tensor_key_encrypt_sk(&mut tsk, &sk, &tsk_enc, &mut source_xe, &mut source_xa, scratch.borrow());
    let mut tsk_prep: GLWETensorKeyPrepared<DeviceBuf<BE>, BE> = module.alloc_tensor_key_prepared_from_infos(&tsk_layout);
    module.prepare_tensor_key(&mut tsk_prep, &tsk, scratch.borrow());

    // Messages: 4-bit signed digits, including the extreme value -8.
    let mut m_a = vec![0i64; n];
    let mut m_b = vec![0i64; n];
    for x in m_a.iter_mut() {
        *x = (source_xa.next_i64() & 15) - 8;
    }
    for x in m_b.iter_mut() {
        *x = (source_xa.next_i64() & 15) - 8;
    }
    let want: Vec<i128> = negacyclic_product(&m_a, &m_b);

    pt_a.encode_vec_i64(&m_a, TorusPrecision(sa as u32));
    pt_b.encode_vec_i64(&m_b, TorusPrecision(sb as u32));

    module.glwe_encrypt_sk(&mut a, &pt_a, &sk_dft, &a_enc, &mut source_xe, &mut source_xa, scratch.borrow());
    module.glwe_encrypt_sk(&mut b, &pt_b, &sk_dft, &b_enc, &mut source_xe, &mut source_xa, scratch.borrow());

    // Predicted noise of the product (log2 of the standard deviation, torus units):
    //  * each operand's encryption noise (sigma 2^-k) multiplied by the (integer-wrapped) phase of the other operand,
    //    i.e. ~ 2^(cnv_offset - min(a_k, b_k)) * N * small constant;
    //  * the truncation of the bivariate product / of the result to res_size limbs.
    let res_bits: f64 = (res_k.div_ceil(out_base2k) * out_base2k) as f64;
    let enc_noise: f64 = cnv_offset as f64 - (a_k.min(b_k) as f64) + log_n + 0.5 * (rank as f64 - 1.0) + 2.0;
    let trunc_noise: f64 = -res_bits + in_base2k as f64 + log_n + 4.0;
    let predicted_tensor: f64 = enc_noise.max(trunc_noise) + 2.0;
    // Relinearisation adds the key-switching noise ~ 2^-res_k * sqrt(N * rows).
    let predicted_relin: f64 = predicted_tensor.max(-(res_k as f64) + 10.0) + 1.0;

    let mut failures: Vec<String> = Vec::new();

    module.glwe_tensor_apply(cnv_offset, &mut res_tensor, &a, a_k, &b, b_k, scratch.borrow());
    module.glwe_tensor_decrypt(&res_tensor, &mut pt_have, &sk_dft, &sk_tensor_prep, scratch.borrow());
    let err = torus_errors(&pt_have, &want, p);
    if let Some(f) = check("tensor", case, &err, p, predicted_tensor) {
        failures.push(f);
    }

    module.glwe_tensor_relinearize(&mut res_relin, &res_tensor, &tsk_prep, tsk_prep.size(), scratch.borrow());
    let mut pt_relin: GLWEPlaintext<Vec<u8>> = GLWEPlaintext::alloc_from_infos(&relin_layout);
    module.glwe_decrypt(&res_relin, &mut pt_relin, &sk_dft, scratch.borrow());
    let err = torus_errors(&pt_relin, &want, p);
    if let Some(f) = check("relin ", case, &err, p, predicted_relin) {
        failures.push(f);
    }

    // b * a has to give the same plaintext as a * b.
    module.glwe_tensor_apply(cnv_offset, &mut res_tensor, &b, b_k, &a, a_k, scratch.borrow());
    module.glwe_tensor_decrypt(&res_tensor, &mut pt_have, &sk_dft, &sk_tensor_prep, scratch.borrow());
    let err = torus_errors(&pt_have, &want, p);
    if let Some(f) = check("tensor(b,a)", case, &err, p, predicted_tensor) {
        failures.push(f);
    }

    // Accumulate variant: res_tensor holds b * a; adding a * b to it has to give exactly twice the product.
    module.glwe_tensor_apply_add_assign(cnv_offset, &mut res_tensor, &a, a_k, &b, b_k, scratch.borrow());
    module.glwe_tensor_decrypt(&res_tensor, &mut pt_have, &sk_dft, &sk_tensor_prep, scratch.borrow());
    let want2: Vec<i128> = want.iter().map(|x| 2 * x).collect();
    let err = torus_errors(&pt_have, &want2, p);
    if let Some(f) = check("tensor(b,a) += a*b", case, &err, p, predicted_tensor + 1.0) {
        failures.push(f);
    }

    failures
}

/// Cases as a function of the input radix K: unequal precisions, offsets below one limb, exactly one limb,
/// not a multiple of K, a multiple of K; rank 1..2; relinearisation dsize 1..3.
fn cases(k: usize, out_base2k: usize, tsk_base2k: usize) -> Vec<Case> {
    let mut v = Vec::new();
    // (a_k, b_k) in limbs and bits: partially used top limb on one or both sides.
    let precisions: [(usize, usize); 5] = [
        (3 * k + 1, 4 * k),
        (4 * k, 3 * k + 1),
        (3 * k + 5, 2 * k + k / 2 + 3),
        (3 * k, 5 * k - 2),
        (4 * k + 1, 3 * k),
    ];
    // small positions: sa + sb < 2K so that offsets around one limb are reachable.
    let sa = k / 2 + 2;
    let sb = k - 3;
    let offsets_small = [sb, k - 1, k, k + 1, k + k / 4 + 1];
    // larger positions: offsets of two limbs and more.
    let sa2 = k + 3;
    let sb2 = k + k / 2;
    let offsets_large = [2 * k - 1, 2 * k, 2 * k + 3];
    for rank in 1..=2usize {
        for (i, &(a_k, b_k)) in precisions.iter().enumerate() {
            let dsize = 1 + (i + rank) % 3;
            for &cnv_offset in offsets_small.iter() {
                if cnv_offset < sa.max(sb) || cnv_offset + 5 > sa + sb {
                    continue;
                }
                v.push(Case {
                    in_base2k: k,
                    out_base2k,
                    tsk_base2k,
                    a_k,
                    b_k,
                    res_k: a_k.max(b_k) + (i % 2) * k,
                    sa,
                    sb,
                    cnv_offset,
                    rank,
                    dsize,
                });
            }
            for &cnv_offset in offsets_large.iter() {
                if cnv_offset < sa2.max(sb2) || cnv_offset + 5 > sa2 + sb2 {
                    continue;
                }
                v.push(Case {
                    in_base2k: k,
                    out_base2k,
                    tsk_base2k,
                    a_k: a_k + k,
                    b_k: b_k + k,
                    res_k: a_k.min(b_k) + k - (i % 2) * (k / 2),
                    sa: sa2,
                    sb: sb2,
                    cnv_offset,
                    rank,
                    dsize,
                });
            }
        }
    }
    v
}

fn run_all<BE: TestBackend>(name: &str, module: &Module<BE>, list: &[Case])
where
    Module<BE>: GLWETensoring<BE>
        + GLWEEncryptSk<BE>
        + GLWEDecrypt<BE>
        + GLWETensorDecrypt<BE>
        + GLWESecretPreparedFactory<BE>
        + GLWESecretTensorFactory<BE>
        + GLWESecretTensorPreparedFactory<BE>
        + GLWETensorKeyEncryptSk<BE>
        + GLWETensorKeyPreparedFactory<BE>,
    ScratchOwned<BE>: ScratchOwnedAlloc<BE> + ScratchOwnedBorrow<BE>,
    Scratch<BE>: ScratchAvailable + ScratchTakeCore<BE>,
{
    let mut failures: Vec<String> = Vec::new();
    let mut by_shape: std::collections::BTreeMap<(usize, usize, bool), (usize, usize)> = std::collections::BTreeMap::new();
    for case in list {
        let f = run_case(module, case);
        let e = by_shape
            .entry((case.cnv_offset, case.rank, case.a_k.div_ceil(case.in_base2k) != case.b_k.div_ceil(case.in_base2k)))
            .or_insert((0, 0));
        e.0 += 1;
        e.1 += !f.is_empty() as usize;
        failures.extend(f);
    }
    println!("{name}: {} cases, {} violations", list.len(), failures.len());
    println!("  failing cases by (cnv_offset, rank, a.size() != b.size()) [in_base2k = {}]:", list[0].in_base2k);
    for ((off, rank, uneq), (tot, bad)) in by_shape.iter() {
        println!("    cnv_offset={off:3} rank={rank} unequal_limbs={uneq:5}: {bad}/{tot} cases fail");
    }
    for f in failures.iter().take(6) {
        println!("  {f}");
    }
    assert!(failures.is_empty(), "{name}: {} violations of C05 (first: {})", failures.len(), failures[0]);
}

#[test]
fn c05_relin_result_radix_equals_key_radix_fft64_ref() {
    let module: Module<FFT64Ref> = Module::<FFT64Ref>::new(256);
    run_all("FFT64Ref", &module, &cases(16, 15, 17));
}

#[test]
fn c05_relin_result_radix_equals_key_radix_ntt120_ref() {
    let module: Module<NTT120Ref> = Module::<NTT120Ref>::new(256);
    run_all("NTT120Ref", &module, &cases(40, 38, 42));
}
