//! RAD-2: `Cswap::cswap` with operands whose limb radix differs from the selector's (the cross-radix branch).
//! The swap must return (a, b) for a selector bit 0 and (b, a) for a bit 1, whatever the radices.

use poulpy_bin_fhe::bdd_arithmetic::Cswap;
use poulpy_core::{
    EncryptionLayout, GGSWEncryptSk, GLWEDecrypt, GLWEEncryptSk,
    layouts::{
        Base2K, Degree, Dnum, Dsize, GGSW, GGSWLayout, GGSWPrepared, GGSWPreparedFactory, GLWE, GLWELayout, GLWEPlaintext,
        GLWESecret, GLWESecretPreparedFactory, Rank, TorusPrecision, prepared::GLWESecretPrepared,
    },
};
use poulpy_cpu_ref::{FFT64Ref, NTT120Ref};
use poulpy_hal::{
    api::{ModuleNew, ScratchOwnedAlloc, ScratchOwnedBorrow},
    layouts::{Backend, DeviceBuf, Module, ScalarZnx, Scratch, ScratchOwned, ZnxViewMut},
    source::Source,
};

const N: usize = 64;

#[derive(Clone, Copy, Debug)]
struct Shape {
    base2k_s: u32,
    base2k_res: u32,
    size_s: u32,
    dnum: u32,
    dsize: u32,
    size_a: u32,
    size_b: u32,
    rank: u32,
}

impl Shape {
    fn layouts(&self) -> (GGSWLayout, GLWELayout, GLWELayout) {
        (
            GGSWLayout {
                n: Degree(N as u32),
                base2k: Base2K(self.base2k_s),
                k: TorusPrecision(self.size_s * self.base2k_s),
                rank: Rank(self.rank),
                dnum: Dnum(self.dnum),
                dsize: Dsize(self.dsize),
            },
            GLWELayout {
                n: Degree(N as u32),
                base2k: Base2K(self.base2k_res),
                k: TorusPrecision(self.size_a * self.base2k_res),
                rank: Rank(self.rank),
            },
            GLWELayout {
                n: Degree(N as u32),
                base2k: Base2K(self.base2k_res),
                k: TorusPrecision(self.size_b * self.base2k_res),
                rank: Rank(self.rank),
            },
        )
    }
}

/// End-to-end (real encryption / decryption): operands in radix 2^15, selector in radix 2^17.
#[test]
fn c04_cswap_cross_radix_fft64_ref() {
    let module: Module<FFT64Ref> = Module::<FFT64Ref>::new(N as u64);
    let shape = Shape {
        base2k_s: 17,
        base2k_res: 15,
        size_s: 3,
        dnum: 3,
        dsize: 1,
        size_a: 3,
        size_b: 3,
        rank: 1,
    };
    let (s_infos, a_infos, b_infos) = shape.layouts();

    let mut source_xs: Source = Source::new([1u8; 32]);
    let mut source_xa: Source = Source::new([2u8; 32]);
    let mut source_xe: Source = Source::new([3u8; 32]);

    let mut setup: ScratchOwned<FFT64Ref> = ScratchOwned::alloc(1 << 22);

    let mut sk: GLWESecret<Vec<u8>> = GLWESecret::alloc(Degree(N as u32), Rank(shape.rank));
    sk.fill_ternary_prob(0.5, &mut source_xs);
    let mut sk_prep: GLWESecretPrepared<DeviceBuf<FFT64Ref>, FFT64Ref> = module.glwe_secret_prepared_alloc(Rank(shape.rank));
    module.glwe_secret_prepare(&mut sk_prep, &sk);

    let a_enc_infos = EncryptionLayout::new_from_default_sigma(a_infos).unwrap();
    let b_enc_infos = EncryptionLayout::new_from_default_sigma(b_infos).unwrap();
    let s_enc_infos = EncryptionLayout::new_from_default_sigma(s_infos).unwrap();

    let k_pt = TorusPrecision(4);
    let data_a: Vec<i64> = (0..N as i64).map(|i| (i % 7) - 3).collect();
    let data_b: Vec<i64> = (0..N as i64).map(|i| ((i * 3) % 7) - 3).collect();

    for bit in [0i64, 1] {
        let mut pt_a: GLWEPlaintext<Vec<u8>> = GLWEPlaintext::alloc_from_infos(&a_infos);
        let mut pt_b: GLWEPlaintext<Vec<u8>> = GLWEPlaintext::alloc_from_infos(&b_infos);
        pt_a.encode_vec_i64(&data_a, k_pt);
        pt_b.encode_vec_i64(&data_b, k_pt);

        let mut ct_a: GLWE<Vec<u8>> = GLWE::alloc_from_infos(&a_infos);
        let mut ct_b: GLWE<Vec<u8>> = GLWE::alloc_from_infos(&b_infos);
        module.glwe_encrypt_sk(
            &mut ct_a,
            &pt_a,
            &sk_prep,
            &a_enc_infos,
            &mut source_xe,
            &mut source_xa,
            setup.borrow(),
        );
        module.glwe_encrypt_sk(
            &mut ct_b,
            &pt_b,
            &sk_prep,
            &b_enc_infos,
            &mut source_xe,
            &mut source_xa,
            setup.borrow(),
        );

        let mut sel: GGSW<Vec<u8>> = GGSW::alloc_from_infos(&s_infos);
        let mut sel_prep: GGSWPrepared<DeviceBuf<FFT64Ref>, FFT64Ref> = module.ggsw_prepared_alloc_from_infos(&s_infos);
        let mut pt_s: ScalarZnx<Vec<u8>> = ScalarZnx::alloc(N, 1);
        pt_s.raw_mut()[0] = bit;
        module.ggsw_encrypt_sk(
            &mut sel,
            &pt_s,
            &sk_prep,
            &s_enc_infos,
            &mut source_xe,
            &mut source_xa,
            setup.borrow(),
        );
        module.ggsw_prepare(&mut sel_prep, &sel, setup.borrow());

        // The call under test: scratch of exactly the companion query.
        let declared = module.cswap_tmp_bytes(&a_infos, &b_infos, &s_infos);
        let mut exact: ScratchOwned<FFT64Ref> = ScratchOwned::alloc(declared);
        module.cswap(&mut ct_a, &mut ct_b, &sel_prep, exact.borrow());

        module.glwe_decrypt(&ct_a, &mut pt_a, &sk_prep, setup.borrow());
        module.glwe_decrypt(&ct_b, &mut pt_b, &sk_prep, setup.borrow());
        let mut have_a = vec![0i64; N];
        let mut have_b = vec![0i64; N];
        pt_a.decode_vec_i64(&mut have_a, k_pt);
        pt_b.decode_vec_i64(&mut have_b, k_pt);

        let (want_a, want_b) = if bit == 0 { (&data_a, &data_b) } else { (&data_b, &data_a) };
        assert_eq!(&have_a, want_a, "res_a, bit={bit}");
        assert_eq!(&have_b, want_b, "res_b, bit={bit}");
    }
}
