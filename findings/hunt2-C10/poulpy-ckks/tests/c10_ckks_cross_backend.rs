//! C10 second-pass audit: a CKKS pipeline (tensor key, encode, encrypt, square, mul-by-const, add-const,
//! normalize, ct-ct mul, compact, mul-add, decrypt) under identical seeds on two backends of the same family;
//! every ciphertext / key / decryption is serialised and compared byte-for-byte.
//!
//!   RUSTFLAGS="-C target-feature=+avx2,+fma" cargo test --offline --release -p poulpy-ckks \
//!       --features enable-avx --test c10_ckks_cross_backend -- --nocapture
#![cfg(feature = "enable-avx")]

use anyhow::Result;
use poulpy_ckks::{
    CKKSInfos, CKKSMeta,
    encoding::Encoder,
    layouts::{CKKSCiphertext, CKKSMaintainOps, CKKSPlaintextConversion, CKKSPlaintextCstRnx, CKKSPlaintextVecRnx, CKKSPlaintextVecZnx},
    leveled::api::{CKKSAddOpsUnsafe, CKKSAllOpsTmpBytes, CKKSDecrypt, CKKSEncrypt, CKKSMulAddOps, CKKSMulOps},
};
use poulpy_core::{
    EncryptionLayout, GLWENormalize, GLWETensorKeyEncryptSk,
    layouts::{
        GLWE, GLWELayout, GLWESecret, GLWETensorKey, GLWETensorKeyLayout, GLWETensorKeyPreparedFactory, Rank,
        prepared::GLWESecretPreparedFactory,
    },
};
use poulpy_hal::{
    api::{ModuleNew, ScratchOwnedAlloc, ScratchOwnedBorrow},
    layouts::{Module, ScratchOwned, WriterTo},
    source::Source,
};

type Trace = Vec<(String, Vec<u8>)>;

fn ser_glwe(ct: &CKKSCiphertext<Vec<u8>>) -> Vec<u8> {
    let g: &GLWE<Vec<u8>> = ct;
    let mut v = Vec::new();
    g.write_to(&mut v).unwrap();
    v
}

const PREC_PT: CKKSMeta = CKKSMeta { log_delta: 4, log_budget: 0 };

macro_rules! ckks_prog {
    ($name:ident, $be:ty) => {
        fn $name(n: usize, base2k: usize, ct_k: usize, log_delta: usize) -> Result<Trace> {
            type B = $be;
            let mut tr: Trace = vec![];
            let m = n / 2;
            let prec_ct = CKKSMeta { log_delta, log_budget: 5 };
            let glwe_layout = EncryptionLayout::new_from_default_sigma(GLWELayout {
                n: n.into(),
                base2k: base2k.into(),
                k: ct_k.into(),
                rank: Rank(1),
            })
            .unwrap();
            let tsk_layout = EncryptionLayout::new_from_default_sigma(GLWETensorKeyLayout {
                n: n.into(),
                base2k: base2k.into(),
                k: (ct_k + base2k).into(),
                rank: Rank(1),
                dsize: 1usize.into(),
                dnum: ct_k.div_ceil(base2k).into(),
            })
            .unwrap();

            let module = Module::<B>::new(n as u64);
            let encoder = Encoder::<f64>::new(m)?;
            let mut source_xs = Source::new([0u8; 32]);
            let mut source_xa = Source::new([1u8; 32]);
            let mut source_xe = Source::new([2u8; 32]);

            let mut sk_raw = GLWESecret::alloc_from_infos(&glwe_layout);
            sk_raw.fill_ternary_hw(n / 4, &mut source_xs);
            let mut sk = module.glwe_secret_prepared_alloc_from_infos(&glwe_layout);
            module.glwe_secret_prepare(&mut sk, &sk_raw);
            let scratch_bytes = module
                .ckks_all_ops_tmp_bytes(&glwe_layout, &tsk_layout, &PREC_PT)
                .max(module.glwe_normalize_tmp_bytes());
            let mut scratch = ScratchOwned::<B>::alloc(scratch_bytes);

            let mut tsk = GLWETensorKey::alloc_from_infos(&tsk_layout);
            module.glwe_tensor_key_encrypt_sk(&mut tsk, &sk_raw, &tsk_layout, &mut source_xa, &mut source_xe, scratch.borrow());
            let mut tsk_prepared = module.alloc_tensor_key_prepared_from_infos(&tsk_layout);
            module.prepare_tensor_key(&mut tsk_prepared, &tsk, scratch.borrow());

            // encoding
            let x_re: Vec<f64> = (0..m).map(|i| (2.0 * std::f64::consts::PI * i as f64 / m as f64).cos()).collect();
            let x_im: Vec<f64> = (0..m).map(|i| (2.0 * std::f64::consts::PI * i as f64 / m as f64).sin()).collect();
            let cst_a = CKKSPlaintextCstRnx::new(Some(0.125), Some(-0.625));
            let cst_b = CKKSPlaintextCstRnx::new(Some(0.625), Some(-0.125));
            let cst_c = CKKSPlaintextCstRnx::new(Some(-0.375), Some(0.25));
            let cst_d = CKKSPlaintextCstRnx::new(Some(0.3125), Some(-0.1875));
            let mut pt_rnx = CKKSPlaintextVecRnx::<f64>::alloc(n)?;
            encoder.encode_reim(&mut pt_rnx, &x_re, &x_im)?;
            let mut pt_znx = CKKSPlaintextVecZnx::alloc(n.into(), base2k.into(), prec_ct);
            pt_rnx.to_znx(&mut pt_znx)?;

            // encryption
            let mut ct_x = CKKSCiphertext::alloc(n.into(), ct_k.into(), base2k.into());
            let mut source_xa = Source::new([3u8; 32]);
            let mut source_xe = Source::new([4u8; 32]);
            module.ckks_encrypt_sk(&mut ct_x, &pt_znx, &sk, &glwe_layout, &mut source_xa, &mut source_xe, scratch.borrow())?;
            tr.push(("ct_x".into(), ser_glwe(&ct_x)));

            // evaluation
            let mut ct_x2 = CKKSCiphertext::alloc(n.into(), ct_x.log_budget().into(), base2k.into());
            module.ckks_square_into(&mut ct_x2, &ct_x, &tsk_prepared, scratch.borrow())?;
            tr.push(("x^2".into(), ser_glwe(&ct_x2)));
            module.ckks_compact_limbs(&mut ct_x2)?;
            tr.push(("x^2 compact".into(), ser_glwe(&ct_x2)));

            let linear_k = ct_x.effective_k() - PREC_PT.log_delta;
            let mut right_linear = CKKSCiphertext::alloc(n.into(), linear_k.into(), base2k.into());
            module.ckks_mul_pt_const_rnx_into(&mut right_linear, &ct_x, &cst_d, PREC_PT, scratch.borrow())?;
            tr.push(("d*x".into(), ser_glwe(&right_linear)));
            unsafe {
                module.ckks_add_pt_const_rnx_assign_unsafe(&mut right_linear, &cst_c, PREC_PT, scratch.borrow())?;
            }
            tr.push(("c+d*x".into(), ser_glwe(&right_linear)));
            module.glwe_normalize_assign(&mut right_linear, scratch.borrow());
            tr.push(("c+d*x normalized".into(), ser_glwe(&right_linear)));

            let right_branch_k = ct_x2.effective_k() - ct_x2.log_delta();
            let mut right_branch = CKKSCiphertext::alloc(n.into(), right_branch_k.into(), base2k.into());
            module.ckks_mul_into(&mut right_branch, &right_linear, &ct_x2, &tsk_prepared, scratch.borrow())?;
            tr.push(("(c+d*x)*x^2".into(), ser_glwe(&right_branch)));
            module.ckks_compact_limbs(&mut right_branch)?;

            let mut poly = CKKSCiphertext::alloc(n.into(), right_branch.effective_k().into(), base2k.into());
            unsafe {
                module.ckks_add_pt_const_rnx_into_unsafe(&mut poly, &right_branch, &cst_a, PREC_PT, scratch.borrow())?;
            }
            module.ckks_mul_add_pt_const_rnx_into(&mut poly, &ct_x, &cst_b, PREC_PT, scratch.borrow())?;
            tr.push(("poly".into(), ser_glwe(&poly)));

            // decryption
            let mut pt_out = CKKSPlaintextVecZnx::alloc_from_infos(&poly);
            module.ckks_decrypt(&mut pt_out, &poly, &sk, scratch.borrow())?;
            let mut pt_rnx = CKKSPlaintextVecRnx::<f64>::alloc(n)?;
            pt_rnx.decode_from_znx(&pt_out)?;
            let mut have_re = vec![0.0; m];
            let mut have_im = vec![0.0; m];
            encoder.decode_reim(&pt_rnx, &mut have_re, &mut have_im)?;
            tr.push((
                "decoded".into(),
                have_re.iter().chain(have_im.iter()).flat_map(|x| x.to_bits().to_le_bytes()).collect(),
            ));
            Ok(tr)
        }
    };
}

ckks_prog!(prog_ntt_ref, poulpy_cpu_ref::NTT120Ref);
ckks_prog!(prog_ntt_avx, poulpy_cpu_avx::NTT120Avx);
ckks_prog!(prog_fft_ref, poulpy_cpu_ref::FFT64Ref);
ckks_prog!(prog_fft_avx, poulpy_cpu_avx::FFT64Avx);

fn cmp(tag: &str, a: &Result<Trace>, b: &Result<Trace>, fails: &mut Vec<String>) {
    match (a, b) {
        (Ok(a), Ok(b)) => {
            assert_eq!(a.len(), b.len());
            for ((la, va), (_, vb)) in a.iter().zip(b.iter()) {
                if va != vb {
                    let ndiff = va.iter().zip(vb.iter()).filter(|(x, y)| x != y).count();
                    fails.push(format!("{tag}: [{la}] differs ({ndiff} of {} bytes)", va.len()));
                }
            }
            eprintln!("{tag}: compared {} artefacts", a.len());
        }
        (Err(x), Err(y)) => eprintln!("note: {tag}: both returned Err: {x} / {y}"),
        (Err(x), Ok(_)) | (Ok(_), Err(x)) => fails.push(format!("{tag}: only one backend failed: {x}")),
    }
}

#[test]
fn ckks_pipeline_ref_vs_avx() {
    let mut fails = vec![];
    for n in [64usize, 256, 1024] {
        cmp(&format!("NTT120 n{n} k52"), &prog_ntt_ref(n, 52, 95, 30), &prog_ntt_avx(n, 52, 95, 30), &mut fails);
        cmp(&format!("NTT120 n{n} k40"), &prog_ntt_ref(n, 40, 100, 30), &prog_ntt_avx(n, 40, 100, 30), &mut fails);
        cmp(&format!("FFT64 n{n} k16"), &prog_fft_ref(n, 16, 96, 30), &prog_fft_avx(n, 16, 96, 30), &mut fails);
        // both families, same (FFT64-safe) radix
        cmp(&format!("FFT64|NTT120 n{n} k16"), &prog_fft_ref(n, 16, 96, 30), &prog_ntt_ref(n, 16, 96, 30), &mut fails);
    }
    for f in &fails {
        eprintln!("{f}");
    }
    assert!(fails.is_empty(), "{} failures", fails.len());
}
