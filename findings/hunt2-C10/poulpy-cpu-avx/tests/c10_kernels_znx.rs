//! C10 second-pass audit: kernel-level differential tests FFT64Avx / NTT120Avx vs FFT64Ref
//! on the integer (`Znx*`, `I64Ops`, `I128*`) kernel traits.
//!
//! Run in release mode (so the scalar reference wraps instead of panicking on `+`):
//!   RUSTFLAGS="-C target-feature=+avx2,+fma" cargo test --offline --release -p poulpy-cpu-avx \
//!       --features enable-avx --test c10_kernels_znx
#![cfg(feature = "enable-avx")]

use std::panic::{AssertUnwindSafe, catch_unwind};

use poulpy_cpu_avx::{FFT64Avx, NTT120Avx};
use poulpy_cpu_ref::{
    FFT64Ref, NTT120Ref,
    reference::{
        fft64::convolution::I64Ops,
        ntt120::{I128BigOps, I128NormalizeOps},
        znx::*,
    },
};

struct Rng(u64);
impl Rng {
    fn next(&mut self) -> u64 {
        // splitmix64
        self.0 = self.0.wrapping_add(0x9E3779B97F4A7C15);
        let mut z = self.0;
        z = (z ^ (z >> 30)).wrapping_mul(0xBF58476D1CE4E5B9);
        z = (z ^ (z >> 27)).wrapping_mul(0x94D049BB133111EB);
        z ^ (z >> 31)
    }
}

const LENS: &[usize] = &[0, 1, 2, 3, 4, 5, 6, 7, 8, 9, 11, 12, 13, 15, 16, 17, 31, 32, 33, 64];

fn boundary_values(k: usize) -> Vec<i64> {
    let mut v: Vec<i64> = vec![
        0,
        1,
        -1,
        2,
        -2,
        i64::MAX,
        i64::MIN,
        i64::MAX - 1,
        i64::MIN + 1,
        i64::MAX / 2,
        i64::MIN / 2,
        (1i64 << 62),
        -(1i64 << 62),
        (1i64 << 62) - 1,
        0x5555_5555_5555_5555,
        0xAAAA_AAAA_AAAA_AAAAu64 as i64,
    ];
    for kk in [k.saturating_sub(1).max(1), k, (k + 1).min(63)] {
        if kk <= 62 {
            let h = 1i64 << (kk - 1).min(62);
            let f = 1i64 << kk;
            v.extend_from_slice(&[h, -h, h - 1, -h - 1, h + 1, -h + 1, f, -f, f - 1, -f + 1, f + 1, -f - 1]);
            v.push(i64::MAX - h);
            v.push(i64::MIN + h);
            v.push(i64::MAX - f + 1);
            v.push(i64::MIN + f);
        }
    }
    v
}

fn fill(rng: &mut Rng, len: usize, k: usize, mode: usize) -> Vec<i64> {
    let b = boundary_values(k);
    (0..len)
        .map(|i| match mode % 4 {
            0 => b[(rng.next() as usize) % b.len()],
            1 => rng.next() as i64,
            2 => {
                if i % 2 == 0 {
                    b[(rng.next() as usize) % b.len()]
                } else {
                    rng.next() as i64
                }
            }
            _ => {
                // small magnitudes around 2^k
                let sh = 63 - (k.min(62) as u32);
                (rng.next() as i64) >> sh.saturating_sub(2)
            }
        })
        .collect()
}

/// Runs `f` and returns Ok(result) or Err(()) if it panicked.
fn guarded<T>(f: impl FnOnce() -> T) -> Result<T, ()> {
    catch_unwind(AssertUnwindSafe(f)).map_err(|_| ())
}

fn quiet_panics() {
    std::panic::set_hook(Box::new(|_| {}));
}

macro_rules! cmp {
    ($name:expr, $ctx:expr, $r:expr, $t:expr, $fails:expr, $refpanics:expr) => {
        match ($r, $t) {
            (Ok(r), Ok(t)) => {
                if r != t {
                    $fails.push(format!("{} {} \n  ref={:?}\n  avx={:?}", $name, $ctx, r, t));
                }
            }
            (Err(()), Ok(_)) => {
                $refpanics += 1;
            }
            (Ok(_), Err(())) => {
                $fails.push(format!("{} {} avx panicked, ref did not", $name, $ctx));
            }
            (Err(()), Err(())) => {}
        }
    };
}

#[test]
fn znx_arith_kernels() {
    quiet_panics();
    let mut rng = Rng(1);
    let mut fails: Vec<String> = vec![];
    let mut refpanics = 0usize;
    for &len in LENS {
        for mode in 0..8 {
            let a = fill(&mut rng, len, 12, mode);
            let b = fill(&mut rng, len, 12, mode + 1);
            let dirty = fill(&mut rng, len, 12, 1);
            let ctx = format!("len={len} mode={mode} a={a:?} b={b:?}");

            // add
            let r = guarded(|| {
                let mut o = dirty.clone();
                <FFT64Ref as ZnxAdd>::znx_add(&mut o, &a, &b);
                o
            });
            let t = guarded(|| {
                let mut o = dirty.clone();
                <FFT64Avx as ZnxAdd>::znx_add(&mut o, &a, &b);
                o
            });
            cmp!("znx_add", ctx, r, t, fails, refpanics);
            let r = guarded(|| {
                let mut o = a.clone();
                <FFT64Ref as ZnxAddAssign>::znx_add_assign(&mut o, &b);
                o
            });
            let t = guarded(|| {
                let mut o = a.clone();
                <NTT120Avx as ZnxAddAssign>::znx_add_assign(&mut o, &b);
                o
            });
            cmp!("znx_add_assign", ctx, r, t, fails, refpanics);
            // sub
            let r = guarded(|| {
                let mut o = dirty.clone();
                <FFT64Ref as ZnxSub>::znx_sub(&mut o, &a, &b);
                o
            });
            let t = guarded(|| {
                let mut o = dirty.clone();
                <FFT64Avx as ZnxSub>::znx_sub(&mut o, &a, &b);
                o
            });
            cmp!("znx_sub", ctx, r, t, fails, refpanics);
            let r = guarded(|| {
                let mut o = a.clone();
                <FFT64Ref as ZnxSubAssign>::znx_sub_assign(&mut o, &b);
                o
            });
            let t = guarded(|| {
                let mut o = a.clone();
                <FFT64Avx as ZnxSubAssign>::znx_sub_assign(&mut o, &b);
                o
            });
            cmp!("znx_sub_assign", ctx, r, t, fails, refpanics);
            let r = guarded(|| {
                let mut o = a.clone();
                <FFT64Ref as ZnxSubNegateAssign>::znx_sub_negate_assign(&mut o, &b);
                o
            });
            let t = guarded(|| {
                let mut o = a.clone();
                <FFT64Avx as ZnxSubNegateAssign>::znx_sub_negate_assign(&mut o, &b);
                o
            });
            cmp!("znx_sub_negate_assign", ctx, r, t, fails, refpanics);
            // negate
            let r = guarded(|| {
                let mut o = dirty.clone();
                <FFT64Ref as ZnxNegate>::znx_negate(&mut o, &a);
                o
            });
            let t = guarded(|| {
                let mut o = dirty.clone();
                <FFT64Avx as ZnxNegate>::znx_negate(&mut o, &a);
                o
            });
            cmp!("znx_negate", ctx, r, t, fails, refpanics);
            let r = guarded(|| {
                let mut o = a.clone();
                <FFT64Ref as ZnxNegateAssign>::znx_negate_assign(&mut o);
                o
            });
            let t = guarded(|| {
                let mut o = a.clone();
                <FFT64Avx as ZnxNegateAssign>::znx_negate_assign(&mut o);
                o
            });
            cmp!("znx_negate_assign", ctx, r, t, fails, refpanics);
            // copy / zero
            let r = guarded(|| {
                let mut o = dirty.clone();
                <FFT64Ref as ZnxCopy>::znx_copy(&mut o, &a);
                o
            });
            let t = guarded(|| {
                let mut o = dirty.clone();
                <FFT64Avx as ZnxCopy>::znx_copy(&mut o, &a);
                o
            });
            cmp!("znx_copy", ctx, r, t, fails, refpanics);
            let r = guarded(|| {
                let mut o = dirty.clone();
                <FFT64Ref as ZnxZero>::znx_zero(&mut o);
                o
            });
            let t = guarded(|| {
                let mut o = dirty.clone();
                <FFT64Avx as ZnxZero>::znx_zero(&mut o);
                o
            });
            cmp!("znx_zero", ctx, r, t, fails, refpanics);

            // mul power of two: k in -63..=63
            for k in -63i64..=63 {
                let ctxk = format!("k={k} {ctx}");
                let r = guarded(|| {
                    let mut o = dirty.clone();
                    <FFT64Ref as ZnxMulPowerOfTwo>::znx_mul_power_of_two(k, &mut o, &a);
                    o
                });
                let t = guarded(|| {
                    let mut o = dirty.clone();
                    <FFT64Avx as ZnxMulPowerOfTwo>::znx_mul_power_of_two(k, &mut o, &a);
                    o
                });
                cmp!("znx_mul_power_of_two", ctxk, r, t, fails, refpanics);
                let r = guarded(|| {
                    let mut o = a.clone();
                    <FFT64Ref as ZnxMulPowerOfTwoAssign>::znx_mul_power_of_two_assign(k, &mut o);
                    o
                });
                let t = guarded(|| {
                    let mut o = a.clone();
                    <FFT64Avx as ZnxMulPowerOfTwoAssign>::znx_mul_power_of_two_assign(k, &mut o);
                    o
                });
                cmp!("znx_mul_power_of_two_assign", ctxk, r, t, fails, refpanics);
                let r = guarded(|| {
                    let mut o = b.clone();
                    <FFT64Ref as ZnxMulAddPowerOfTwo>::znx_muladd_power_of_two(k, &mut o, &a);
                    o
                });
                let t = guarded(|| {
                    let mut o = b.clone();
                    <FFT64Avx as ZnxMulAddPowerOfTwo>::znx_muladd_power_of_two(k, &mut o, &a);
                    o
                });
                cmp!("znx_muladd_power_of_two", ctxk, r, t, fails, refpanics);
            }
        }
    }
    eprintln!("znx_arith_kernels: ref-only panics (debug overflow checks) = {refpanics}");
    for f in fails.iter().take(20) {
        eprintln!("{f}");
    }
    assert!(fails.is_empty(), "{} mismatches", fails.len());
}

#[test]
fn znx_permutation_kernels() {
    quiet_panics();
    let mut rng = Rng(2);
    let mut fails: Vec<String> = vec![];
    let mut refpanics = 0usize;
    for logn in 0..=7 {
        let n = 1usize << logn;
        for mode in 0..4 {
            let a = fill(&mut rng, n, 17, mode);
            let dirty = fill(&mut rng, n, 17, 1);
            // automorphism over all odd p in (-4n, 4n) plus extremes
            let mut ps: Vec<i64> = (-(4 * n as i64)..(4 * n as i64)).filter(|p| p & 1 == 1).collect();
            ps.extend_from_slice(&[i64::MAX, i64::MIN + 1, (1i64 << 40) + 1, -(1i64 << 40) - 1]);
            for &p in &ps {
                let ctx = format!("n={n} p={p} a={a:?}");
                let r = guarded(|| {
                    let mut o = dirty.clone();
                    <FFT64Ref as ZnxAutomorphism>::znx_automorphism(p, &mut o, &a);
                    o
                });
                let t = guarded(|| {
                    let mut o = dirty.clone();
                    <FFT64Avx as ZnxAutomorphism>::znx_automorphism(p, &mut o, &a);
                    o
                });
                cmp!("znx_automorphism", ctx, r, t, fails, refpanics);
            }
            // rotate over all p
            let mut ps: Vec<i64> = (-(4 * n as i64)..=(4 * n as i64)).collect();
            ps.extend_from_slice(&[i64::MAX, i64::MIN, i64::MIN + 1, (1i64 << 40) + 1]);
            for &p in &ps {
                let ctx = format!("n={n} p={p} a={a:?}");
                let r = guarded(|| {
                    let mut o = dirty.clone();
                    <FFT64Ref as ZnxRotate>::znx_rotate(p, &mut o, &a);
                    o
                });
                let t = guarded(|| {
                    let mut o = dirty.clone();
                    <FFT64Avx as ZnxRotate>::znx_rotate(p, &mut o, &a);
                    o
                });
                cmp!("znx_rotate", ctx, r, t, fails, refpanics);
            }
            // switch ring
            for logm in 0..=7 {
                let m = 1usize << logm;
                let dirty_m = fill(&mut rng, m, 17, 1);
                let ctx = format!("n_in={n} n_out={m} a={a:?}");
                let r = guarded(|| {
                    let mut o = dirty_m.clone();
                    <FFT64Ref as ZnxSwitchRing>::znx_switch_ring(&mut o, &a);
                    o
                });
                let t = guarded(|| {
                    let mut o = dirty_m.clone();
                    <FFT64Avx as ZnxSwitchRing>::znx_switch_ring(&mut o, &a);
                    o
                });
                cmp!("znx_switch_ring", ctx, r, t, fails, refpanics);
            }
        }
    }
    eprintln!("znx_permutation_kernels: ref-only panics = {refpanics}");
    for f in fails.iter().take(20) {
        eprintln!("{f}");
    }
    assert!(fails.is_empty(), "{} mismatches", fails.len());
}

#[test]
fn znx_normalization_kernels() {
    quiet_panics();
    let mut rng = Rng(3);
    let mut fails: Vec<String> = vec![];
    let mut refpanics = 0usize;
    for base2k in 1usize..=63 {
        let mut lshs = vec![0usize, 1, base2k / 2, base2k.saturating_sub(2), base2k - 1];
        lshs.retain(|&l| l < base2k);
        lshs.sort();
        lshs.dedup();
        for &lsh in &lshs {
            for &len in &[1usize, 2, 3, 4, 5, 7, 8, 9, 16, 19] {
                for mode in 0..6 {
                    let a = fill(&mut rng, len, base2k, mode);
                    let x0 = fill(&mut rng, len, base2k, mode + 1);
                    let c0 = fill(&mut rng, len + (mode % 2), base2k, mode + 2);
                    let ctx = format!("base2k={base2k} lsh={lsh} len={len} mode={mode}\n  a={a:?}\n  x={x0:?}\n  c={c0:?}");

                    macro_rules! xac {
                        ($name:expr, $tr:ident, $f:ident $(, $ow:tt)?) => {{
                            let r = guarded(|| {
                                let (mut x, mut c) = (x0.clone(), c0.clone());
                                <FFT64Ref as $tr>::$f$(::<$ow>)?(base2k, lsh, &mut x, &a, &mut c);
                                (x, c)
                            });
                            let t = guarded(|| {
                                let (mut x, mut c) = (x0.clone(), c0.clone());
                                <FFT64Avx as $tr>::$f$(::<$ow>)?(base2k, lsh, &mut x, &a, &mut c);
                                (x, c)
                            });
                            cmp!($name, ctx, r, t, fails, refpanics);
                        }};
                    }
                    macro_rules! xc {
                        ($name:expr, $tr:ident, $f:ident) => {{
                            let r = guarded(|| {
                                let (mut x, mut c) = (a.clone(), c0.clone());
                                <FFT64Ref as $tr>::$f(base2k, lsh, &mut x, &mut c);
                                (x, c)
                            });
                            let t = guarded(|| {
                                let (mut x, mut c) = (a.clone(), c0.clone());
                                <FFT64Avx as $tr>::$f(base2k, lsh, &mut x, &mut c);
                                (x, c)
                            });
                            cmp!($name, ctx, r, t, fails, refpanics);
                        }};
                    }
                    macro_rules! co {
                        ($name:expr, $tr:ident, $f:ident) => {{
                            let r = guarded(|| {
                                let mut c = c0.clone();
                                <FFT64Ref as $tr>::$f(base2k, lsh, &a, &mut c);
                                c
                            });
                            let t = guarded(|| {
                                let mut c = c0.clone();
                                <FFT64Avx as $tr>::$f(base2k, lsh, &a, &mut c);
                                c
                            });
                            cmp!($name, ctx, r, t, fails, refpanics);
                        }};
                    }

                    xac!("first_step<true>", ZnxNormalizeFirstStep, znx_normalize_first_step, true);
                    xac!("first_step<false>", ZnxNormalizeFirstStep, znx_normalize_first_step, false);
                    xac!("middle_step<true>", ZnxNormalizeMiddleStep, znx_normalize_middle_step, true);
                    xac!("middle_step<false>", ZnxNormalizeMiddleStep, znx_normalize_middle_step, false);
                    xac!("final_step<true>", ZnxNormalizeFinalStep, znx_normalize_final_step, true);
                    xac!("final_step<false>", ZnxNormalizeFinalStep, znx_normalize_final_step, false);
                    xac!("middle_step_sub", ZnxNormalizeMiddleStepSub, znx_normalize_middle_step_sub);
                    xac!("final_step_sub", ZnxNormalizeFinalStepSub, znx_normalize_final_step_sub);
                    xc!("first_step_assign", ZnxNormalizeFirstStepAssign, znx_normalize_first_step_assign);
                    xc!("middle_step_assign", ZnxNormalizeMiddleStepAssign, znx_normalize_middle_step_assign);
                    xc!("final_step_assign", ZnxNormalizeFinalStepAssign, znx_normalize_final_step_assign);
                    co!("first_step_carry_only", ZnxNormalizeFirstStepCarryOnly, znx_normalize_first_step_carry_only);
                    co!("middle_step_carry_only", ZnxNormalizeMiddleStepCarryOnly, znx_normalize_middle_step_carry_only);

                    // extract_digit_addmul / normalize_digit (equal-length slices)
                    let s0 = fill(&mut rng, len, base2k, mode + 3);
                    for l in [lsh, base2k, 63usize.min(base2k + 7)] {
                        let r = guarded(|| {
                            let (mut x, mut s) = (x0.clone(), s0.clone());
                            <FFT64Ref as ZnxExtractDigitAddMul>::znx_extract_digit_addmul(base2k, l, &mut x, &mut s);
                            (x, s)
                        });
                        let t = guarded(|| {
                            let (mut x, mut s) = (x0.clone(), s0.clone());
                            <FFT64Avx as ZnxExtractDigitAddMul>::znx_extract_digit_addmul(base2k, l, &mut x, &mut s);
                            (x, s)
                        });
                        cmp!(format!("extract_digit_addmul(lsh={l})"), ctx, r, t, fails, refpanics);
                    }
                    let r = guarded(|| {
                        let (mut x, mut s) = (x0.clone(), s0.clone());
                        <FFT64Ref as ZnxNormalizeDigit>::znx_normalize_digit(base2k, &mut x, &mut s);
                        (x, s)
                    });
                    let t = guarded(|| {
                        let (mut x, mut s) = (x0.clone(), s0.clone());
                        <FFT64Avx as ZnxNormalizeDigit>::znx_normalize_digit(base2k, &mut x, &mut s);
                        (x, s)
                    });
                    cmp!("normalize_digit", ctx, r, t, fails, refpanics);
                }
            }
        }
    }
    eprintln!("znx_normalization_kernels: ref-only panics = {refpanics}");
    for f in fails.iter().take(20) {
        eprintln!("{f}");
    }
    assert!(fails.is_empty(), "{} mismatches", fails.len());
}

#[test]
fn i64_ops_kernels() {
    quiet_panics();
    let mut rng = Rng(4);
    let mut fails: Vec<String> = vec![];
    let mut refpanics = 0usize;
    for a_size in 1usize..=5 {
        for b_size in 1usize..=5 {
            for mode in 0..4 {
                let a = fill(&mut rng, 8 * a_size, 20, mode);
                let b = fill(&mut rng, b_size, 20, mode + 1);
                for k in 0..(a_size + b_size + 3) {
                    let ctx = format!("k={k} a_size={a_size} b_size={b_size} a={a:?} b={b:?}");
                    let r = guarded(|| {
                        let mut d = [7i64; 8];
                        <FFT64Ref as I64Ops>::i64_convolution_by_const_1coeff(k, &mut d, &a, a_size, &b);
                        d
                    });
                    let t = guarded(|| {
                        let mut d = [7i64; 8];
                        <FFT64Avx as I64Ops>::i64_convolution_by_const_1coeff(k, &mut d, &a, a_size, &b);
                        d
                    });
                    cmp!("i64_conv_1coeff", ctx, r, t, fails, refpanics);
                    let r = guarded(|| {
                        let mut d = [7i64; 16];
                        <FFT64Ref as I64Ops>::i64_convolution_by_const_2coeffs(k, &mut d, &a, a_size, &b);
                        d
                    });
                    let t = guarded(|| {
                        let mut d = [7i64; 16];
                        <FFT64Avx as I64Ops>::i64_convolution_by_const_2coeffs(k, &mut d, &a, a_size, &b);
                        d
                    });
                    cmp!("i64_conv_2coeffs", ctx, r, t, fails, refpanics);
                }
                for dst_size in 0..(a_size + b_size + 3) {
                    for offset in 0..4 {
                        let ctx = format!("dst_size={dst_size} off={offset} a_size={a_size} b_size={b_size} a={a:?} b={b:?}");
                        let r = guarded(|| {
                            let mut d = vec![7i64; 8 * dst_size.max(1)];
                            <FFT64Ref as I64Ops>::i64_convolution_by_const(&mut d, dst_size, offset, &a, a_size, &b);
                            d
                        });
                        let t = guarded(|| {
                            let mut d = vec![7i64; 8 * dst_size.max(1)];
                            <FFT64Avx as I64Ops>::i64_convolution_by_const(&mut d, dst_size, offset, &a, a_size, &b);
                            d
                        });
                        cmp!("i64_conv", ctx, r, t, fails, refpanics);
                    }
                }
            }
        }
    }
    // extract / save blk: `n` is the row stride (ring degree * cols), `offset` = ring degree * col.
    for logn in 3..=6 {
        let ring_n = 1usize << logn;
        for cols in 1..=3usize {
            let n = ring_n * cols;
            for rows in 1..=4 {
                for col in 0..cols {
                    let src = fill(&mut rng, n * rows, 20, 1);
                    for blk in 0..(ring_n >> 3) {
                        let offset = col * ring_n;
                        let ctx = format!("stride={n} rows={rows} blk={blk} offset={offset}");
                        let r = guarded(|| {
                            let mut d = vec![7i64; 8 * rows];
                            <FFT64Ref as I64Ops>::i64_extract_1blk_contiguous(n, offset, rows, blk, &mut d, &src);
                            d
                        });
                        let t = guarded(|| {
                            let mut d = vec![7i64; 8 * rows];
                            <FFT64Avx as I64Ops>::i64_extract_1blk_contiguous(n, offset, rows, blk, &mut d, &src);
                            d
                        });
                        cmp!("i64_extract", ctx, r, t, fails, refpanics);
                        let s8 = fill(&mut rng, 8 * rows, 20, 1);
                        let r = guarded(|| {
                            let mut d = src.clone();
                            <FFT64Ref as I64Ops>::i64_save_1blk_contiguous(n, offset, rows, blk, &mut d, &s8);
                            d
                        });
                        let t = guarded(|| {
                            let mut d = src.clone();
                            <FFT64Avx as I64Ops>::i64_save_1blk_contiguous(n, offset, rows, blk, &mut d, &s8);
                            d
                        });
                        cmp!("i64_save", ctx, r, t, fails, refpanics);
                    }
                }
            }
        }
    }
    eprintln!("i64_ops_kernels: ref-only panics = {refpanics}");
    for f in fails.iter().take(20) {
        eprintln!("{f}");
    }
    assert!(fails.is_empty(), "{} mismatches", fails.len());
}

fn fill128(rng: &mut Rng, len: usize, k: usize, mode: usize) -> Vec<i128> {
    let lo = fill(rng, len, k, mode);
    let hi = fill(rng, len, k, mode + 1);
    (0..len)
        .map(|i| match (mode + i) % 5 {
            0 => lo[i] as i128,
            1 => ((hi[i] as i128) << 64) | (lo[i] as u64 as i128),
            2 => (lo[i] as i128) << (k % 60),
            3 => ((hi[i] >> 40) as i128) << 64 | (lo[i] as u64 as i128),
            _ => {
                let b: [i128; 8] = [
                    i128::MAX,
                    i128::MIN,
                    u64::MAX as i128,
                    -(u64::MAX as i128),
                    (1i128 << 64),
                    -(1i128 << 64),
                    (1i128 << 64) - 1,
                    -(1i128 << 64) - 1,
                ];
                b[(rng.next() % 8) as usize]
            }
        })
        .collect()
}

#[test]
fn i128_big_ops_kernels() {
    quiet_panics();
    let mut rng = Rng(5);
    let mut fails: Vec<String> = vec![];
    let mut refpanics = 0usize;
    for &len in LENS {
        for mode in 0..10 {
            let a = fill128(&mut rng, len, 30, mode);
            let b = fill128(&mut rng, len, 30, mode + 1);
            let sa = fill(&mut rng, len, 30, mode);
            let sb = fill(&mut rng, len, 30, mode + 1);
            let dirty = fill128(&mut rng, len, 30, 1);
            let ctx = format!("len={len} mode={mode} a={a:?} b={b:?} sa={sa:?} sb={sb:?}");
            macro_rules! t3 {
                ($f:ident, $x:expr, $y:expr) => {{
                    let r = guarded(|| {
                        let mut o = dirty.clone();
                        <NTT120Ref as I128BigOps>::$f(&mut o, $x, $y);
                        o
                    });
                    let t = guarded(|| {
                        let mut o = dirty.clone();
                        <NTT120Avx as I128BigOps>::$f(&mut o, $x, $y);
                        o
                    });
                    cmp!(stringify!($f), ctx, r, t, fails, refpanics);
                }};
            }
            macro_rules! t2 {
                ($f:ident, $init:expr, $x:expr) => {{
                    let r = guarded(|| {
                        let mut o = $init.clone();
                        <NTT120Ref as I128BigOps>::$f(&mut o, $x);
                        o
                    });
                    let t = guarded(|| {
                        let mut o = $init.clone();
                        <NTT120Avx as I128BigOps>::$f(&mut o, $x);
                        o
                    });
                    cmp!(stringify!($f), ctx, r, t, fails, refpanics);
                }};
            }
            t3!(i128_add, &a, &b);
            t3!(i128_sub, &a, &b);
            t3!(i128_add_small, &a, &sb);
            t3!(i128_sub_small_a, &sa, &b);
            t3!(i128_sub_small_b, &a, &sb);
            t2!(i128_add_assign, a, &b);
            t2!(i128_sub_assign, a, &b);
            t2!(i128_sub_negate_assign, a, &b);
            t2!(i128_add_small_assign, a, &sb);
            t2!(i128_sub_small_assign, a, &sb);
            t2!(i128_sub_small_negate_assign, a, &sb);
            t2!(i128_negate, dirty, &a);
            t2!(i128_neg_from_small, dirty, &sa);
            t2!(i128_from_small, dirty, &sa);
            let r = guarded(|| {
                let mut o = a.clone();
                <NTT120Ref as I128BigOps>::i128_negate_assign(&mut o);
                o
            });
            let t = guarded(|| {
                let mut o = a.clone();
                <NTT120Avx as I128BigOps>::i128_negate_assign(&mut o);
                o
            });
            cmp!("i128_negate_assign", ctx, r, t, fails, refpanics);
        }
    }
    eprintln!("i128_big_ops_kernels: ref-only panics = {refpanics}");
    for f in fails.iter().take(20) {
        eprintln!("{f}");
    }
    assert!(fails.is_empty(), "{} mismatches", fails.len());
}

#[test]
fn i128_normalize_kernels() {
    use poulpy_cpu_ref::reference::ntt120::vec_znx_big::{AddOp, SubOp};
    quiet_panics();
    let mut rng = Rng(6);
    let mut fails: Vec<String> = vec![];
    let mut refpanics = 0usize;
    for base2k in 1usize..=64 {
        let mut lshs = vec![0usize, 1, base2k / 2, base2k.saturating_sub(2), base2k - 1];
        lshs.retain(|&l| l < base2k);
        lshs.sort();
        lshs.dedup();
        for &lsh in &lshs {
            for &len in &[1usize, 3, 4, 5, 8, 9, 16, 19] {
                for mode in 0..10 {
                    let a = fill128(&mut rng, len, base2k.min(62), mode);
                    // carries: realistic (< 2^70) and wild
                    let c0: Vec<i128> = if mode % 2 == 0 {
                        fill128(&mut rng, len, base2k.min(62), mode + 1)
                            .iter()
                            .map(|c| c >> 50)
                            .collect()
                    } else {
                        fill128(&mut rng, len, base2k.min(62), mode + 1)
                    };
                    let r0 = fill(&mut rng, len, base2k.min(62), mode + 2);
                    let ctx = format!("base2k={base2k} lsh={lsh} len={len} mode={mode}\n  a={a:?}\n  c={c0:?}\n  r={r0:?}");

                    let r = guarded(|| {
                        let (mut x, mut c) = (r0.clone(), c0.clone());
                        <NTT120Ref as I128NormalizeOps>::nfc_middle_step(base2k, lsh, &mut x, &a, &mut c);
                        (x, c)
                    });
                    let t = guarded(|| {
                        let (mut x, mut c) = (r0.clone(), c0.clone());
                        <NTT120Avx as I128NormalizeOps>::nfc_middle_step(base2k, lsh, &mut x, &a, &mut c);
                        (x, c)
                    });
                    cmp!("nfc_middle_step", ctx, r, t, fails, refpanics);

                    let r = guarded(|| {
                        let (mut x, mut c) = (r0.clone(), c0.clone());
                        <NTT120Ref as I128NormalizeOps>::nfc_middle_step_into::<AddOp>(base2k, lsh, &mut x, &a, &mut c);
                        (x, c)
                    });
                    let t = guarded(|| {
                        let (mut x, mut c) = (r0.clone(), c0.clone());
                        <NTT120Avx as I128NormalizeOps>::nfc_middle_step_into::<AddOp>(base2k, lsh, &mut x, &a, &mut c);
                        (x, c)
                    });
                    cmp!("nfc_middle_step_into<Add>", ctx, r, t, fails, refpanics);
                    let r = guarded(|| {
                        let (mut x, mut c) = (r0.clone(), c0.clone());
                        <NTT120Ref as I128NormalizeOps>::nfc_middle_step_into::<SubOp>(base2k, lsh, &mut x, &a, &mut c);
                        (x, c)
                    });
                    let t = guarded(|| {
                        let (mut x, mut c) = (r0.clone(), c0.clone());
                        <NTT120Avx as I128NormalizeOps>::nfc_middle_step_into::<SubOp>(base2k, lsh, &mut x, &a, &mut c);
                        (x, c)
                    });
                    cmp!("nfc_middle_step_into<Sub>", ctx, r, t, fails, refpanics);

                    let r = guarded(|| {
                        let (mut x, mut c) = (r0.clone(), c0.clone());
                        <NTT120Ref as I128NormalizeOps>::nfc_middle_step_assign(base2k, lsh, &mut x, &mut c);
                        (x, c)
                    });
                    let t = guarded(|| {
                        let (mut x, mut c) = (r0.clone(), c0.clone());
                        <NTT120Avx as I128NormalizeOps>::nfc_middle_step_assign(base2k, lsh, &mut x, &mut c);
                        (x, c)
                    });
                    cmp!("nfc_middle_step_assign", ctx, r, t, fails, refpanics);

                    let r = guarded(|| {
                        let (mut x, mut c) = (r0.clone(), c0.clone());
                        <NTT120Ref as I128NormalizeOps>::nfc_final_step_assign(base2k, lsh, &mut x, &mut c);
                        (x, c)
                    });
                    let t = guarded(|| {
                        let (mut x, mut c) = (r0.clone(), c0.clone());
                        <NTT120Avx as I128NormalizeOps>::nfc_final_step_assign(base2k, lsh, &mut x, &mut c);
                        (x, c)
                    });
                    cmp!("nfc_final_step_assign", ctx, r, t, fails, refpanics);

                    let r = guarded(|| {
                        let (mut x, mut c) = (r0.clone(), c0.clone());
                        <NTT120Ref as I128NormalizeOps>::nfc_final_step_into::<AddOp>(base2k, lsh, &mut x, &mut c);
                        (x, c)
                    });
                    let t = guarded(|| {
                        let (mut x, mut c) = (r0.clone(), c0.clone());
                        <NTT120Avx as I128NormalizeOps>::nfc_final_step_into::<AddOp>(base2k, lsh, &mut x, &mut c);
                        (x, c)
                    });
                    cmp!("nfc_final_step_into<Add>", ctx, r, t, fails, refpanics);
                    let r = guarded(|| {
                        let (mut x, mut c) = (r0.clone(), c0.clone());
                        <NTT120Ref as I128NormalizeOps>::nfc_final_step_into::<SubOp>(base2k, lsh, &mut x, &mut c);
                        (x, c)
                    });
                    let t = guarded(|| {
                        let (mut x, mut c) = (r0.clone(), c0.clone());
                        <NTT120Avx as I128NormalizeOps>::nfc_final_step_into::<SubOp>(base2k, lsh, &mut x, &mut c);
                        (x, c)
                    });
                    cmp!("nfc_final_step_into<Sub>", ctx, r, t, fails, refpanics);
                }
            }
        }
    }
    eprintln!("i128_normalize_kernels: ref-only panics = {refpanics}");
    for f in fails.iter().take(20) {
        eprintln!("{f}");
    }
    assert!(fails.is_empty(), "{} mismatches", fails.len());
}
