//! C10 second-pass audit: scheme-level programs (poulpy-core) run on every backend under the same seeds.
//! Keys, ciphertexts and decryptions are serialised and compared byte-for-byte.
//!
//!   RUSTFLAGS="-C target-feature=+avx2,+fma" cargo test --offline --release -p poulpy-cpu-avx \
//!       --features enable-avx --test c10_scheme_trace -- --nocapture
#![cfg(feature = "enable-avx")]

use std::panic::{AssertUnwindSafe, catch_unwind};

use poulpy_core::{
    EncryptionLayout, GGSWEncryptSk, GLWEAutomorphism, GLWEAutomorphismKeyEncryptSk, GLWEDecrypt, GLWEEncryptSk,
    GLWEExternalProduct, GLWEKeyswitch, GLWESwitchingKeyEncryptSk, ScratchTakeCore,
    layouts::{
        GGSW, GGSWLayout, GGSWPreparedFactory, GLWE, GLWEAutomorphismKey, GLWEAutomorphismKeyLayout,
        GLWEAutomorphismKeyPreparedFactory, GLWELayout, GLWEPlaintext, GLWESecret, GLWESecretPreparedFactory, GLWESwitchingKey,
        GLWESwitchingKeyLayout, GLWESwitchingKeyPreparedFactory,
        prepared::{GGSWPrepared, GLWEAutomorphismKeyPrepared, GLWESecretPrepared, GLWESwitchingKeyPrepared},
    },
    test_suite::TestBackend,
};
use poulpy_cpu_avx::{FFT64Avx, NTT120Avx};
use poulpy_cpu_ref::{FFT64Ref, NTT120Ref};
use poulpy_hal::{
    api::{ModuleNew, ScratchAvailable, ScratchOwnedAlloc, ScratchOwnedBorrow, VecZnxFillUniform},
    layouts::{DeviceBuf, Module, ScalarZnx, Scratch, ScratchOwned, WriterTo, ZnxViewMut},
    source::Source,
};

type Trace = Vec<(String, Vec<u8>)>;

fn ser<T: WriterTo>(x: &T) -> Vec<u8> {
    let mut v = Vec::new();
    x.write_to(&mut v).unwrap();
    v
}

/// `radix = (in, key, out)` base2k triple.
fn prog<BE: TestBackend>(n: usize, radix: (usize, usize, usize), rank: usize, dsize: usize) -> Trace
where
    Module<BE>: ModuleNew<BE>
        + VecZnxFillUniform
        + GLWESwitchingKeyEncryptSk<BE>
        + GLWEEncryptSk<BE>
        + GLWEDecrypt<BE>
        + GLWEKeyswitch<BE>
        + GLWESecretPreparedFactory<BE>
        + GLWESwitchingKeyPreparedFactory<BE>
        + GGSWEncryptSk<BE>
        + GGSWPreparedFactory<BE>
        + GLWEExternalProduct<BE>
        + GLWEAutomorphism<BE>
        + GLWEAutomorphismKeyEncryptSk<BE>
        + GLWEAutomorphismKeyPreparedFactory<BE>,
    ScratchOwned<BE>: ScratchOwnedAlloc<BE> + ScratchOwnedBorrow<BE>,
    Scratch<BE>: ScratchAvailable + ScratchTakeCore<BE>,
{
    let module: Module<BE> = Module::<BE>::new(n as u64);
    let mut tr: Trace = vec![];
    let (in_base2k, key_base2k, out_base2k) = radix;
    let k_in: usize = 3 * in_base2k + 1;
    let k_ksk: usize = k_in + key_base2k * dsize;
    let k_out: usize = k_ksk;
    let dnum: usize = k_in.div_ceil(key_base2k * dsize);

    let glwe_in_infos = EncryptionLayout::new_from_default_sigma(GLWELayout {
        n: n.into(),
        base2k: in_base2k.into(),
        k: k_in.into(),
        rank: rank.into(),
    })
    .unwrap();
    let glwe_out_infos: GLWELayout = GLWELayout {
        n: n.into(),
        base2k: out_base2k.into(),
        k: k_out.into(),
        rank: rank.into(),
    };
    let ksk_infos = EncryptionLayout::new_from_default_sigma(GLWESwitchingKeyLayout {
        n: n.into(),
        base2k: key_base2k.into(),
        k: k_ksk.into(),
        dnum: dnum.into(),
        dsize: dsize.into(),
        rank_in: rank.into(),
        rank_out: rank.into(),
    })
    .unwrap();
    let ggsw_infos = EncryptionLayout::new_from_default_sigma(GGSWLayout {
        n: n.into(),
        base2k: key_base2k.into(),
        k: k_ksk.into(),
        dnum: dnum.into(),
        dsize: dsize.into(),
        rank: rank.into(),
    })
    .unwrap();
    let atk_infos = EncryptionLayout::new_from_default_sigma(GLWEAutomorphismKeyLayout {
        n: n.into(),
        base2k: key_base2k.into(),
        k: k_ksk.into(),
        dnum: dnum.into(),
        dsize: dsize.into(),
        rank: rank.into(),
    })
    .unwrap();

    let mut source_xs: Source = Source::new([1u8; 32]);
    let mut source_xe: Source = Source::new([2u8; 32]);
    let mut source_xa: Source = Source::new([3u8; 32]);

    let mut ksk: GLWESwitchingKey<Vec<u8>> = GLWESwitchingKey::alloc_from_infos(&ksk_infos);
    let mut glwe_in: GLWE<Vec<u8>> = GLWE::alloc_from_infos(&glwe_in_infos);
    let mut glwe_out: GLWE<Vec<u8>> = GLWE::alloc_from_infos(&glwe_out_infos);
    let mut pt_in: GLWEPlaintext<Vec<u8>> = GLWEPlaintext::alloc_from_infos(&glwe_in_infos);
    let mut pt_out: GLWEPlaintext<Vec<u8>> = GLWEPlaintext::alloc_from_infos(&glwe_out_infos);
    module.vec_znx_fill_uniform(in_base2k, &mut pt_in.data, 0, &mut source_xa);

    let mut ggsw: GGSW<Vec<u8>> = GGSW::alloc_from_infos(&ggsw_infos);
    let mut atk: GLWEAutomorphismKey<Vec<u8>> = GLWEAutomorphismKey::alloc_from_infos(&atk_infos);

    let mut scratch: ScratchOwned<BE> = ScratchOwned::alloc(
        module.glwe_switching_key_encrypt_sk_tmp_bytes(&ksk_infos)
            | module.glwe_encrypt_sk_tmp_bytes(&glwe_in_infos)
            | module.glwe_decrypt_tmp_bytes(&glwe_out_infos)
            | module.glwe_decrypt_tmp_bytes(&glwe_in_infos)
            | module.glwe_keyswitch_tmp_bytes(&glwe_out_infos, &glwe_in_infos, &ksk_infos)
            | module.ggsw_encrypt_sk_tmp_bytes(&ggsw_infos)
            | module.glwe_external_product_tmp_bytes(&glwe_out_infos, &glwe_in_infos, &ggsw_infos)
            | module.glwe_automorphism_key_encrypt_sk_tmp_bytes(&atk_infos)
            | module.glwe_automorphism_tmp_bytes(&glwe_out_infos, &glwe_in_infos, &atk_infos)
            | (1 << 16),
    );

    let mut sk_in: GLWESecret<Vec<u8>> = GLWESecret::alloc(n.into(), rank.into());
    sk_in.fill_ternary_prob(0.5, &mut source_xs);
    let mut sk_in_prep: GLWESecretPrepared<DeviceBuf<BE>, BE> = module.glwe_secret_prepared_alloc(rank.into());
    module.glwe_secret_prepare(&mut sk_in_prep, &sk_in);
    let mut sk_out: GLWESecret<Vec<u8>> = GLWESecret::alloc(n.into(), rank.into());
    sk_out.fill_ternary_prob(0.5, &mut source_xs);
    let mut sk_out_prep: GLWESecretPrepared<DeviceBuf<BE>, BE> = module.glwe_secret_prepared_alloc(rank.into());
    module.glwe_secret_prepare(&mut sk_out_prep, &sk_out);

    // keys
    module.glwe_switching_key_encrypt_sk(&mut ksk, &sk_in, &sk_out, &ksk_infos, &mut source_xe, &mut source_xa, scratch.borrow());
    tr.push(("ksk".into(), ser(&ksk)));
    // encrypt
    module.glwe_encrypt_sk(&mut glwe_in, &pt_in, &sk_in_prep, &glwe_in_infos, &mut source_xe, &mut source_xa, scratch.borrow());
    tr.push(("glwe_in".into(), ser(&glwe_in)));
    // decrypt fresh
    let mut pt_dec: GLWEPlaintext<Vec<u8>> = GLWEPlaintext::alloc_from_infos(&glwe_in_infos);
    module.glwe_decrypt(&glwe_in, &mut pt_dec, &sk_in_prep, scratch.borrow());
    tr.push(("decrypt(glwe_in)".into(), ser(&pt_dec.data)));
    // key-switch
    let mut ksk_prep: GLWESwitchingKeyPrepared<DeviceBuf<BE>, BE> = module.glwe_switching_key_prepared_alloc_from_infos(&ksk);
    module.glwe_switching_key_prepare(&mut ksk_prep, &ksk, scratch.borrow());
    module.glwe_keyswitch(&mut glwe_out, &glwe_in, &ksk_prep, scratch.borrow());
    tr.push(("keyswitch".into(), ser(&glwe_out)));
    module.glwe_decrypt(&glwe_out, &mut pt_out, &sk_out_prep, scratch.borrow());
    tr.push(("decrypt(keyswitch)".into(), ser(&pt_out.data)));
    // ggsw + external product
    let mut pt_ggsw: ScalarZnx<Vec<u8>> = ScalarZnx::alloc(n, 1);
    pt_ggsw.raw_mut()[1 % n] = 1;
    module.ggsw_encrypt_sk(&mut ggsw, &pt_ggsw, &sk_in_prep, &ggsw_infos, &mut source_xe, &mut source_xa, scratch.borrow());
    tr.push(("ggsw".into(), ser(&ggsw)));
    let mut ggsw_prep: GGSWPrepared<DeviceBuf<BE>, BE> = module.ggsw_prepared_alloc_from_infos(&ggsw);
    module.ggsw_prepare(&mut ggsw_prep, &ggsw, scratch.borrow());
    let mut glwe_ep: GLWE<Vec<u8>> = GLWE::alloc_from_infos(&glwe_out_infos);
    module.glwe_external_product(&mut glwe_ep, &glwe_in, &ggsw_prep, scratch.borrow());
    tr.push(("external_product".into(), ser(&glwe_ep)));
    module.glwe_decrypt(&glwe_ep, &mut pt_out, &sk_in_prep, scratch.borrow());
    tr.push(("decrypt(external_product)".into(), ser(&pt_out.data)));
    // automorphism
    module.glwe_automorphism_key_encrypt_sk(&mut atk, -5, &sk_in, &atk_infos, &mut source_xe, &mut source_xa, scratch.borrow());
    tr.push(("atk".into(), ser(&atk)));
    let mut atk_prep: GLWEAutomorphismKeyPrepared<DeviceBuf<BE>, BE> = module.glwe_automorphism_key_prepared_alloc_from_infos(&atk_infos);
    module.glwe_automorphism_key_prepare(&mut atk_prep, &atk, scratch.borrow());
    let mut glwe_auto: GLWE<Vec<u8>> = GLWE::alloc_from_infos(&glwe_out_infos);
    module.glwe_automorphism(&mut glwe_auto, &glwe_in, &atk_prep, scratch.borrow());
    tr.push(("automorphism".into(), ser(&glwe_auto)));
    module.glwe_decrypt(&glwe_auto, &mut pt_out, &sk_in_prep, scratch.borrow());
    tr.push(("decrypt(automorphism)".into(), ser(&pt_out.data)));
    // random streams must have been consumed identically
    use rand::Rng;
    tr.push((
        "streams".into(),
        [source_xs.next_u64(), source_xe.next_u64(), source_xa.next_u64()]
            .iter()
            .flat_map(|x| x.to_le_bytes())
            .collect(),
    ));
    tr
}

fn cmp(tag: &str, a: &Result<Trace, String>, b: &Result<Trace, String>, fails: &mut Vec<String>) {
    match (a, b) {
        (Ok(a), Ok(b)) => {
            for ((la, va), (_, vb)) in a.iter().zip(b.iter()) {
                if va != vb {
                    let ndiff = va.iter().zip(vb.iter()).filter(|(x, y)| x != y).count();
                    fails.push(format!("{tag}: [{la}] differs ({ndiff} of {} bytes)", va.len()));
                }
            }
        }
        (Err(x), Err(_)) => eprintln!("note: {tag}: both panicked: {x}"),
        (Err(x), Ok(_)) | (Ok(_), Err(x)) => fails.push(format!("{tag}: only one panicked: {x}")),
    }
}

fn guard(f: impl FnOnce() -> Trace) -> Result<Trace, String> {
    catch_unwind(AssertUnwindSafe(f)).map_err(|e| {
        if let Some(s) = e.downcast_ref::<String>() {
            s.chars().take(200).collect()
        } else if let Some(s) = e.downcast_ref::<&str>() {
            s.to_string()
        } else {
            "?".into()
        }
    })
}

fn sweep(radices: &[(usize, usize, usize)], cross_family: bool, fails: &mut Vec<String>) {
    for &n in &[8usize, 16, 64, 256] {
        for &radix in radices {
            for rank in 1..=2usize {
                for dsize in 1..=2usize {
                    let tag = format!("n{n} radix{radix:?} rank{rank} dsize{dsize}");
                    let fr = guard(|| prog::<FFT64Ref>(n, radix, rank, dsize));
                    let fa = guard(|| prog::<FFT64Avx>(n, radix, rank, dsize));
                    let nr = guard(|| prog::<NTT120Ref>(n, radix, rank, dsize));
                    let na = guard(|| prog::<NTT120Avx>(n, radix, rank, dsize));
                    cmp(&format!("{tag} FFT64Ref|FFT64Avx"), &fr, &fa, fails);
                    cmp(&format!("{tag} NTT120Ref|NTT120Avx"), &nr, &na, fails);
                    if cross_family {
                        cmp(&format!("{tag} FFT64Ref|NTT120Ref"), &fr, &nr, fails);
                    }
                }
            }
        }
    }
}

/// Same radix everywhere: all four backends must produce byte-identical keys, ciphertexts and decryptions.
#[test]
fn scheme_same_radix_all_backends() {
    std::panic::set_hook(Box::new(|_| {}));
    let mut fails = vec![];
    sweep(&[(12, 12, 12), (15, 15, 15)], true, &mut fails);
    for f in &fails {
        eprintln!("{f}");
    }
    assert!(fails.is_empty(), "{} failures", fails.len());
}

/// Mixed radices (the configuration used by poulpy-core's own test-suite: in = k-1, key = k, out = k-2).
/// Ref|Avx must agree; FFT64|NTT120 is checked by `scheme_mixed_radix_cross_family`.
#[test]
fn scheme_mixed_radix_ref_vs_avx() {
    std::panic::set_hook(Box::new(|_| {}));
    let mut fails = vec![];
    sweep(&[(13, 14, 12), (12, 14, 13), (16, 17, 15)], false, &mut fails);
    for f in &fails {
        eprintln!("{f}");
    }
    assert!(fails.is_empty(), "{} failures", fails.len());
}

#[test]
fn scheme_mixed_radix_cross_family() {
    std::panic::set_hook(Box::new(|_| {}));
    let mut fails = vec![];
    for &n in &[8usize, 64] {
        for radix in [(13usize, 14usize, 12usize), (12, 14, 13)] {
            let tag = format!("n{n} radix{radix:?}");
            let fr = guard(|| prog::<FFT64Ref>(n, radix, 1, 1));
            let nr = guard(|| prog::<NTT120Ref>(n, radix, 1, 1));
            cmp(&format!("{tag} FFT64Ref|NTT120Ref"), &fr, &nr, &mut fails);
        }
    }
    for f in &fails {
        eprintln!("{f}");
    }
    assert!(fails.is_empty(), "{} failures", fails.len());
}
