//! Side finding of the C10 audit (not a cross-backend divergence: identical on all four backends):
//! `Module::cnv_pairwise_apply_dft_tmp_bytes(cnv_offset, res_size, a_size, b_size)` forwards its first two
//! arguments swapped to `HalImpl::cnv_pairwise_apply_dft_tmp_bytes(module, cnv_offset, res_size, ..)`
//! (poulpy-hal/src/delegates/convolution.rs:98-100), so a scratch of exactly the advertised size is too small
//! whenever cnv_offset < res_size.
//!
//! EXPECTED TO FAIL on the unmodified library.
#![cfg(feature = "enable-avx")]

use poulpy_cpu_avx::{FFT64Avx, NTT120Avx};
use poulpy_cpu_ref::{FFT64Ref, NTT120Ref};
use poulpy_hal::{api::*, layouts::*, oep::HalImpl};

fn go<B: Backend + HalImpl<B>>(name: &str) -> Result<(), String> {
    let n = 16;
    let m: Module<B> = Module::<B>::new(n as u64);
    let a: VecZnx<Vec<u8>> = VecZnx::alloc(n, 2, 2);
    let mut left = m.cnv_pvec_left_alloc(2, 2);
    let mut right = m.cnv_pvec_right_alloc(2, 2);
    let mut sc = ScratchOwned::<B>::alloc(m.cnv_prepare_left_tmp_bytes(2, 2).max(m.cnv_prepare_right_tmp_bytes(2, 2)));
    m.cnv_prepare_left(&mut left, &a, -1, sc.borrow());
    m.cnv_prepare_right(&mut right, &a, -1, sc.borrow());
    let (cnv_offset, res_size) = (0usize, 3usize);
    let declared = m.cnv_pairwise_apply_dft_tmp_bytes(cnv_offset, res_size, 2, 2);
    let swapped = m.cnv_pairwise_apply_dft_tmp_bytes(res_size, cnv_offset, 2, 2);
    eprintln!("{name}: declared tmp bytes = {declared}, with (res_size, cnv_offset) swapped by the caller = {swapped}");
    let mut res = m.vec_znx_dft_alloc(1, res_size);
    let mut sc = ScratchOwned::<B>::alloc(declared);
    std::panic::catch_unwind(std::panic::AssertUnwindSafe(|| {
        m.cnv_pairwise_apply_dft(cnv_offset, &mut res, 0, &left, &right, 0, 1, sc.borrow());
    }))
    .map_err(|e| format!("{name}: cnv_pairwise_apply_dft panicked with exactly the declared scratch: {:?}", e.downcast_ref::<String>()))
}

#[test]
fn pairwise_tmp_bytes_is_sufficient() {
    let r = [go::<FFT64Ref>("FFT64Ref"), go::<FFT64Avx>("FFT64Avx"), go::<NTT120Ref>("NTT120Ref"), go::<NTT120Avx>("NTT120Avx")];
    let fails: Vec<_> = r.iter().filter_map(|x| x.clone().err()).collect();
    for f in &fails {
        eprintln!("{f}");
    }
    assert!(fails.is_empty());
}
