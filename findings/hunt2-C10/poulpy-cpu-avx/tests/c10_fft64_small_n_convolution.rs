//! C10 second-pass audit (side finding, FFT64-vs-NTT120): the FFT64 convolution entry points
//! (`cnv_prepare_*`, `cnv_apply_dft`, `cnv_pairwise_apply_dft`, `cnv_by_const_apply`) iterate over
//! `n/8` blocks and therefore silently write NOTHING for ring degrees N < 8 (no assertion fires, also in
//! debug builds), whereas the NTT120 family computes the product. Ref and Avx agree with each other.
//!
//! EXPECTED TO FAIL on the unmodified library.
//!
//!   RUSTFLAGS="-C target-feature=+avx2,+fma" cargo test --offline -p poulpy-cpu-avx \
//!       --features enable-avx --test c10_fft64_small_n_convolution -- --nocapture
#![cfg(feature = "enable-avx")]

use poulpy_cpu_avx::{FFT64Avx, NTT120Avx};
use poulpy_cpu_ref::{FFT64Ref, NTT120Ref};
use poulpy_hal::{api::*, layouts::*, oep::HalImpl};

/// returns (cnv_apply_dft result, cnv_by_const_apply result), both normalised to one limb of radix 2^base2k,
/// starting from an all-ones-garbage output.
fn go<B: Backend + HalImpl<B>>(n: usize, a: &[i64], b: &[i64]) -> (Vec<i64>, Vec<i64>) {
    let base2k = 12;
    let m: Module<B> = Module::<B>::new(n as u64);
    let mut va: VecZnx<Vec<u8>> = VecZnx::alloc(n, 1, 1);
    va.at_mut(0, 0).copy_from_slice(a);
    let mut vb: VecZnx<Vec<u8>> = VecZnx::alloc(n, 1, 1);
    vb.at_mut(0, 0).copy_from_slice(b);

    let mut left = m.cnv_pvec_left_alloc(1, 1);
    let mut right = m.cnv_pvec_right_alloc(1, 1);
    let mut sc = ScratchOwned::<B>::alloc(
        m.cnv_prepare_left_tmp_bytes(1, 1)
            .max(m.cnv_prepare_right_tmp_bytes(1, 1))
            .max(m.cnv_apply_dft_tmp_bytes(0, 1, 1, 1))
            .max(m.cnv_by_const_apply_tmp_bytes(0, 1, 1, 1))
            .max(m.vec_znx_big_normalize_tmp_bytes())
            .max(m.vec_znx_idft_apply_tmp_bytes())
            + 1024,
    );
    m.cnv_prepare_left(&mut left, &va, -1, sc.borrow());
    m.cnv_prepare_right(&mut right, &vb, -1, sc.borrow());

    // output pre-filled with a recognisable value (the DFT of the constant polynomial 7)
    let mut seven: VecZnx<Vec<u8>> = VecZnx::alloc(n, 1, 1);
    seven.at_mut(0, 0)[0] = 7;
    let mut res = m.vec_znx_dft_alloc(1, 1);
    m.vec_znx_dft_apply(1, 0, &mut res, 0, &seven, 0);
    m.cnv_apply_dft(0, &mut res, 0, &left, 0, &right, 0, sc.borrow());
    let mut big = m.vec_znx_big_alloc(1, 1);
    m.vec_znx_idft_apply(&mut big, 0, &res, 0, sc.borrow());
    let mut out: VecZnx<Vec<u8>> = VecZnx::alloc(n, 1, 1);
    m.vec_znx_big_normalize(&mut out, base2k, 0, 0, &big, base2k, 0, sc.borrow());
    let r1 = out.at(0, 0).to_vec();

    let mut big = m.vec_znx_big_alloc(1, 1);
    m.vec_znx_big_from_small(&mut big, 0, &seven, 0);
    m.cnv_by_const_apply(0, &mut big, 0, &va, 0, &[3i64], sc.borrow());
    m.vec_znx_big_normalize(&mut out, base2k, 0, 0, &big, base2k, 0, sc.borrow());
    (r1, out.at(0, 0).to_vec())
}

fn negacyclic(a: &[i64], b: &[i64]) -> Vec<i64> {
    let n = a.len();
    let mut r = vec![0i64; n];
    for i in 0..n {
        for j in 0..n {
            if i + j < n {
                r[i + j] += a[i] * b[j];
            } else {
                r[i + j - n] -= a[i] * b[j];
            }
        }
    }
    r
}

#[test]
fn fft64_convolution_small_n() {
    let mut fails = vec![];
    for n in [2usize, 4, 8, 16] {
        let a: Vec<i64> = (0..n as i64).map(|i| i + 1).collect();
        let b: Vec<i64> = (0..n as i64).map(|i| 2 - i).collect();
        let want = negacyclic(&a, &b);
        let want_c: Vec<i64> = a.iter().map(|x| 3 * x).collect();
        let results = [
            ("FFT64Ref", go::<FFT64Ref>(n, &a, &b)),
            ("FFT64Avx", go::<FFT64Avx>(n, &a, &b)),
            ("NTT120Ref", go::<NTT120Ref>(n, &a, &b)),
            ("NTT120Avx", go::<NTT120Avx>(n, &a, &b)),
        ];
        for (name, (r, rc)) in &results {
            eprintln!("n={n} {name}: cnv_apply_dft={r:?} cnv_by_const={rc:?}");
            if r != &want {
                fails.push(format!("n={n} {name}: cnv_apply_dft = {r:?}, expected a*b mod X^n+1 = {want:?}"));
            }
            if rc != &want_c {
                fails.push(format!("n={n} {name}: cnv_by_const_apply = {rc:?}, expected 3*a = {want_c:?}"));
            }
        }
    }
    for f in &fails {
        eprintln!("FAIL {f}");
    }
    assert!(fails.is_empty(), "{} failures", fails.len());
}
