//! C10 second-pass audit: HAL-level differential "trace" harness.
//!
//! Each `prog_*` function is a program generic over the backend that performs a fixed,
//! seed-determined sequence of HAL calls and records every coefficient-domain result
//! into a trace. Traces are then compared across
//!   FFT64Ref vs FFT64Avx, NTT120Ref vs NTT120Avx (bit-identical incl. raw VecZnxBig words),
//!   FFT64* vs NTT120* (normalised small outputs only, inputs inside the FFT64 magnitude domain).
//!
//! Run:
//!   RUSTFLAGS="-C target-feature=+avx2,+fma" cargo test --offline --release -p poulpy-cpu-avx \
//!       --features enable-avx --test c10_hal_trace
#![cfg(feature = "enable-avx")]
#![allow(clippy::too_many_arguments)]

use std::panic::{AssertUnwindSafe, catch_unwind};

use poulpy_cpu_avx::{FFT64Avx, NTT120Avx};
use poulpy_cpu_ref::{FFT64Ref, NTT120Ref};
use rand::Rng;
use poulpy_hal::{
    api::*,
    layouts::*,
    oep::HalImpl,
    source::Source,
};

pub trait BE: Backend + HalImpl<Self> + 'static {
    const NAME: &'static str;
    const IS_FFT64: bool;
}
impl BE for FFT64Ref {
    const NAME: &'static str = "FFT64Ref";
    const IS_FFT64: bool = true;
}
impl BE for FFT64Avx {
    const NAME: &'static str = "FFT64Avx";
    const IS_FFT64: bool = true;
}
impl BE for NTT120Ref {
    const NAME: &'static str = "NTT120Ref";
    const IS_FFT64: bool = false;
}
impl BE for NTT120Avx {
    const NAME: &'static str = "NTT120Avx";
    const IS_FFT64: bool = false;
}

#[derive(Default)]
pub struct Trace {
    pub items: Vec<(String, Vec<i64>)>,
}

impl Trace {
    fn small<D: DataRef>(&mut self, label: impl Into<String>, v: &VecZnx<D>) {
        let mut out = Vec::with_capacity(v.n() * v.cols() * v.size());
        for c in 0..v.cols() {
            for j in 0..v.size() {
                out.extend_from_slice(v.at(c, j));
            }
        }
        self.items.push((label.into(), out));
    }
    fn raw_big<B: BE, D: DataRef>(&mut self, label: impl Into<String>, v: &VecZnxBig<D, B>) {
        let mut out: Vec<i64> = Vec::new();
        for c in 0..v.cols() {
            for j in 0..v.size() {
                let s: &[B::ScalarBig] = v.at(c, j);
                let w: &[i64] = bytemuck::cast_slice(s);
                out.extend_from_slice(w);
            }
        }
        self.items.push((format!("raw:{}", label.into()), out));
    }
    fn words(&mut self, label: impl Into<String>, w: Vec<i64>) {
        self.items.push((label.into(), w));
    }
}

fn compare(tag: &str, a: &Trace, b: &Trace, skip_raw: bool, fails: &mut Vec<String>) {
    if a.items.len() != b.items.len() {
        fails.push(format!("{tag}: trace length differs {} vs {}", a.items.len(), b.items.len()));
        return;
    }
    let mut count = 0;
    for ((la, va), (lb, vb)) in a.items.iter().zip(b.items.iter()) {
        if la != lb {
            fails.push(format!("{tag}: label differs {la} vs {lb}"));
            return;
        }
        if skip_raw && la.starts_with("raw:") {
            continue;
        }
        if va != vb {
            count += 1;
            if count <= 6 || la.starts_with("canon(") {
                let idx = va.iter().zip(vb.iter()).position(|(x, y)| x != y);
                let show = |v: &Vec<i64>| -> String {
                    if v.len() <= 40 {
                        format!("{v:?}")
                    } else {
                        format!("{:?}...", &v[..40])
                    }
                };
                fails.push(format!(
                    "{tag}: MISMATCH at [{la}] first diff idx {idx:?} (len {} vs {})\n    L={}\n    R={}",
                    va.len(),
                    vb.len(),
                    show(va),
                    show(vb)
                ));
            }
        }
    }
    if count > 6 {
        fails.push(format!("{tag}: ... {count} mismatching items in total"));
    }
}

thread_local! {
    static STAGE: std::cell::RefCell<String> = const { std::cell::RefCell::new(String::new()) };
}
fn stage(s: String) {
    STAGE.with(|x| *x.borrow_mut() = s);
}

fn run<T>(name: &str, f: impl FnOnce() -> T) -> Result<T, String> {
    catch_unwind(AssertUnwindSafe(f)).map_err(|e| {
        let name = format!("{name} @stage[{}]", STAGE.with(|x| x.borrow().clone()));
        let m = if let Some(s) = e.downcast_ref::<String>() {
            s.clone()
        } else if let Some(s) = e.downcast_ref::<&str>() {
            s.to_string()
        } else {
            "?".into()
        };
        format!("{name} panicked: {}", m.chars().take(300).collect::<String>())
    })
}

/// Runs `prog` on all four backends and cross-compares.
fn four_way(
    tag: &str,
    cross_family: bool,
    fails: &mut Vec<String>,
    f_ref: impl FnOnce() -> Trace,
    f_avx: impl FnOnce() -> Trace,
    n_ref: impl FnOnce() -> Trace,
    n_avx: impl FnOnce() -> Trace,
) {
    let a = run("FFT64Ref", f_ref);
    let b = run("FFT64Avx", f_avx);
    let c = run("NTT120Ref", n_ref);
    let d = run("NTT120Avx", n_avx);
    match (&a, &b) {
        (Ok(a), Ok(b)) => compare(&format!("{tag} FFT64Ref|FFT64Avx"), a, b, false, fails),
        (Err(x), Err(_)) => eprintln!("note: {tag}: both FFT64 panicked: {x}"),
        (Err(x), Ok(_)) | (Ok(_), Err(x)) => fails.push(format!("{tag}: only one FFT64 backend panicked: {x}")),
    }
    match (&c, &d) {
        (Ok(c), Ok(d)) => compare(&format!("{tag} NTT120Ref|NTT120Avx"), c, d, false, fails),
        (Err(x), Err(_)) => eprintln!("note: {tag}: both NTT120 panicked: {x}"),
        (Err(x), Ok(_)) | (Ok(_), Err(x)) => fails.push(format!("{tag}: only one NTT120 backend panicked: {x}")),
    }
    if cross_family {
        if let (Ok(a), Ok(c)) = (&a, &c) {
            compare(&format!("{tag} FFT64Ref|NTT120Ref"), a, c, true, fails);
        }
        if let (Ok(b), Ok(d)) = (&b, &d) {
            compare(&format!("{tag} FFT64Avx|NTT120Avx"), b, d, true, fails);
        }
    }
}

macro_rules! four {
    ($tag:expr, $cross:expr, $fails:expr, $prog:ident ( $($arg:expr),* )) => {
        four_way(
            $tag,
            $cross,
            $fails,
            || $prog::<FFT64Ref>($($arg),*),
            || $prog::<FFT64Avx>($($arg),*),
            || $prog::<NTT120Ref>($($arg),*),
            || $prog::<NTT120Avx>($($arg),*),
        )
    };
}

fn report(name: &str, fails: Vec<String>) {
    for f in fails.iter().take(200) {
        eprintln!("{f}");
    }
    assert!(fails.is_empty(), "{name}: {} failures", fails.len());
}

// ───────────────────────────── helpers ─────────────────────────────

fn seed(x: u64) -> [u8; 32] {
    let mut s = [0u8; 32];
    s[..8].copy_from_slice(&x.to_le_bytes());
    s[8] = 0xC1;
    s
}

fn rnd_vec(n: usize, cols: usize, size: usize, base2k: usize, src: &mut Source) -> VecZnx<Vec<u8>> {
    let mut v = VecZnx::alloc(n, cols, size);
    v.fill_uniform(base2k, src);
    v
}

/// VecZnx filled with arbitrary garbage of bounded magnitude 2^bits (not normalised).
fn dirty_vec(n: usize, cols: usize, size: usize, bits: usize, src: &mut Source) -> VecZnx<Vec<u8>> {
    let mut v = VecZnx::alloc(n, cols, size);
    for c in 0..cols {
        for j in 0..size {
            for x in v.at_mut(c, j).iter_mut() {
                *x = (src.next_u64() as i64) >> (64 - bits);
            }
        }
    }
    v
}

fn scratch<B: BE>(bytes: usize) -> ScratchOwned<B> {
    ScratchOwned::<B>::alloc(bytes)
}

fn norm_bytes<B: BE>(m: &Module<B>) -> usize {
    m.vec_znx_big_normalize_tmp_bytes()
        .max(m.vec_znx_normalize_tmp_bytes())
        .max(m.vec_znx_idft_apply_tmp_bytes())
        .max(m.vec_znx_big_automorphism_assign_tmp_bytes())
}

/// Normalises every column of `big` into a fresh VecZnx with `size` limbs and records it (plus the raw words).
fn rec_big<B: BE, D: DataRef>(tr: &mut Trace, label: &str, m: &Module<B>, big: &VecZnxBig<D, B>, base2k: usize, out_size: usize)
where
    VecZnxBig<D, B>: VecZnxBigToRef<B>,
{
    let mut sc = scratch::<B>(norm_bytes(m));
    let mut res: VecZnx<Vec<u8>> = VecZnx::alloc(big.n(), big.cols(), out_size);
    for c in 0..big.cols() {
        m.vec_znx_big_normalize(&mut res, base2k, 0, c, big, base2k, c, sc.borrow());
    }
    tr.small(label, &res);
    tr.raw_big(label, big);
}

fn big_from<B: BE>(m: &Module<B>, a: &VecZnx<Vec<u8>>) -> VecZnxBig<DeviceBuf<B>, B> {
    let mut big = m.vec_znx_big_alloc(a.cols(), a.size());
    for c in 0..a.cols() {
        m.vec_znx_big_from_small(&mut big, c, a, c);
    }
    big
}

fn dirty_big<B: BE>(m: &Module<B>, cols: usize, size: usize, src: &mut Source) -> VecZnxBig<DeviceBuf<B>, B> {
    // Garbage that is *identical* in value on every backend: built from a small garbage VecZnx.
    let g = dirty_vec(m.n(), cols, size, 40, src);
    big_from(m, &g)
}

fn dft_from<B: BE>(m: &Module<B>, a: &VecZnx<Vec<u8>>) -> VecZnxDft<DeviceBuf<B>, B> {
    let mut d = m.vec_znx_dft_alloc(a.cols(), a.size());
    for c in 0..a.cols() {
        m.vec_znx_dft_apply(1, 0, &mut d, c, a, c);
    }
    d
}

fn dirty_dft<B: BE>(m: &Module<B>, cols: usize, size: usize, src: &mut Source) -> VecZnxDft<DeviceBuf<B>, B> {
    // "Dirty" but valid DFT content (random bytes are not admissible q120b / could be NaN in f64).
    let g = dirty_vec(m.n(), cols, size, 10, src);
    dft_from(m, &g)
}

fn rec_dft<B: BE>(tr: &mut Trace, label: &str, m: &Module<B>, d: &VecZnxDft<DeviceBuf<B>, B>, base2k: usize) {
    let mut sc = scratch::<B>(norm_bytes(m));
    let mut big = m.vec_znx_big_alloc(d.cols(), d.size());
    for c in 0..d.cols() {
        m.vec_znx_idft_apply(&mut big, c, d, c, sc.borrow());
    }
    rec_big(tr, label, m, &big, base2k, d.size() + 1);
}

// ───────────────────────────── programs: vec_znx ─────────────────────────────

/// All vec_znx entry points, res/a/b sizes crossed, distinct columns, dirty outputs.
fn prog_vec_znx<B: BE>(n: usize, base2k: usize, full_range: bool, sd: u64) -> Trace {
    let m: Module<B> = Module::<B>::new(n as u64);
    let mut tr = Trace::default();
    let mut src = Source::new(seed(sd));
    let cols = 3;
    let sc_bytes = m
        .vec_znx_normalize_tmp_bytes()
        .max(m.vec_znx_lsh_tmp_bytes())
        .max(m.vec_znx_rsh_tmp_bytes())
        .max(m.vec_znx_rotate_assign_tmp_bytes())
        .max(m.vec_znx_automorphism_assign_tmp_bytes())
        .max(m.vec_znx_mul_xp_minus_one_assign_tmp_bytes())
        .max(m.vec_znx_split_ring_tmp_bytes())
        .max(m.vec_znx_merge_rings_tmp_bytes());
    let mut sc = scratch::<B>(sc_bytes);
    let bits = if full_range { 64 } else { base2k };
    let mk = |size: usize, src: &mut Source| -> VecZnx<Vec<u8>> {
        if full_range { dirty_vec(n, cols, size, bits, src) } else { rnd_vec(n, cols, size, base2k, src) }
    };

    for a_size in 1..=3usize {
        let a = mk(a_size, &mut src);
        let mut sca: ScalarZnx<Vec<u8>> = ScalarZnx::alloc(n, cols);
        sca.fill_uniform(base2k, &mut src);
        for b_size in 1..=3usize {
            let b = mk(b_size, &mut src);
            for res_size in 1..=4usize {
                let ctx = format!("a{a_size}b{b_size}r{res_size}");
                let dirty = dirty_vec(n, cols, res_size, bits.min(60), &mut src);
                let (rc, ac, bc) = (res_size % cols, (a_size + 1) % cols, (b_size + 2) % cols);

                let mut r = dirty.clone();
                m.vec_znx_add_into(&mut r, rc, &a, ac, &b, bc);
                tr.small(format!("add_into {ctx}"), &r);
                let mut r = dirty.clone();
                m.vec_znx_sub(&mut r, rc, &a, ac, &b, bc);
                tr.small(format!("sub {ctx}"), &r);
                if b_size == 1 {
                    let mut r = dirty.clone();
                    m.vec_znx_add_assign(&mut r, rc, &a, ac);
                    tr.small(format!("add_assign {ctx}"), &r);
                    let mut r = dirty.clone();
                    m.vec_znx_sub_assign(&mut r, rc, &a, ac);
                    tr.small(format!("sub_assign {ctx}"), &r);
                    let mut r = dirty.clone();
                    m.vec_znx_sub_negate_assign(&mut r, rc, &a, ac);
                    tr.small(format!("sub_negate_assign {ctx}"), &r);
                    let mut r = dirty.clone();
                    m.vec_znx_negate(&mut r, rc, &a, ac);
                    tr.small(format!("negate {ctx}"), &r);
                    let mut r = dirty.clone();
                    m.vec_znx_negate_assign(&mut r, rc);
                    tr.small(format!("negate_assign {ctx}"), &r);
                    let mut r = dirty.clone();
                    m.vec_znx_copy(&mut r, rc, &a, ac);
                    tr.small(format!("copy {ctx}"), &r);
                    let mut r = dirty.clone();
                    m.vec_znx_zero(&mut r, rc);
                    tr.small(format!("zero {ctx}"), &r);
                    // scalar forms
                    for limb in 0..a_size.min(res_size) {
                        let mut r = dirty.clone();
                        m.vec_znx_add_scalar_into(&mut r, rc, &sca, bc, &a, ac, limb);
                        tr.small(format!("add_scalar_into {ctx} l{limb}"), &r);
                        let mut r = dirty.clone();
                        m.vec_znx_sub_scalar(&mut r, rc, &sca, bc, &a, ac, limb);
                        tr.small(format!("sub_scalar {ctx} l{limb}"), &r);
                    }
                    for limb in 0..res_size {
                        let mut r = dirty.clone();
                        m.vec_znx_add_scalar_assign(&mut r, rc, limb, &sca, bc);
                        tr.small(format!("add_scalar_assign {ctx} l{limb}"), &r);
                        let mut r = dirty.clone();
                        m.vec_znx_sub_scalar_assign(&mut r, rc, limb, &sca, bc);
                        tr.small(format!("sub_scalar_assign {ctx} l{limb}"), &r);
                    }
                    // permutations
                    let nn = n as i64;
                    for p in [0i64, 1, -1, 3, nn - 1, nn, nn + 1, 2 * nn - 1, 2 * nn, -(2 * nn) - 3, 5 * nn + 1] {
                        let mut r = dirty.clone();
                        m.vec_znx_rotate(p, &mut r, rc, &a, ac);
                        tr.small(format!("rotate p{p} {ctx}"), &r);
                        let mut r = dirty.clone();
                        m.vec_znx_rotate_assign(p, &mut r, rc, sc.borrow());
                        tr.small(format!("rotate_assign p{p} {ctx}"), &r);
                        let mut r = dirty.clone();
                        m.vec_znx_mul_xp_minus_one(p, &mut r, rc, &a, ac);
                        tr.small(format!("mul_xp_minus_one p{p} {ctx}"), &r);
                        let mut r = dirty.clone();
                        m.vec_znx_mul_xp_minus_one_assign(p, &mut r, rc, sc.borrow());
                        tr.small(format!("mul_xp_minus_one_assign p{p} {ctx}"), &r);
                        if p & 1 == 1 {
                            let mut r = dirty.clone();
                            m.vec_znx_automorphism(p, &mut r, rc, &a, ac);
                            tr.small(format!("automorphism p{p} {ctx}"), &r);
                            let mut r = dirty.clone();
                            m.vec_znx_automorphism_assign(p, &mut r, rc, sc.borrow());
                            tr.small(format!("automorphism_assign p{p} {ctx}"), &r);
                        }
                    }
                }
            }
        }
    }
    tr
}

/// Shifts and normalisation (all k from 0 up to beyond the object), digits normalised or merely bounded.
fn prog_vec_znx_shift_norm<B: BE>(n: usize, base2k: usize, in_bits: usize, sd: u64) -> Trace {
    let m: Module<B> = Module::<B>::new(n as u64);
    let mut tr = Trace::default();
    let mut src = Source::new(seed(sd));
    let cols = 2;
    let sc_bytes = m.vec_znx_normalize_tmp_bytes().max(m.vec_znx_lsh_tmp_bytes()).max(m.vec_znx_rsh_tmp_bytes());
    let mut sc = scratch::<B>(sc_bytes);
    for a_size in 1..=3usize {
        let a = dirty_vec(n, cols, a_size, in_bits, &mut src);
        for res_size in 1..=4usize {
            let dirty = dirty_vec(n, cols, res_size, in_bits, &mut src);
            let ctx = format!("a{a_size}r{res_size}");
            let kmax = base2k * (a_size.max(res_size) + 1) + 1;
            let mut ks: Vec<usize> = vec![0, 1, base2k / 2, base2k - 1, base2k, base2k + 1, 2 * base2k - 1, 2 * base2k, kmax - 1, kmax, kmax + base2k];
            ks.sort();
            ks.dedup();
            for &k in &ks {
                let (rc, ac) = (1usize, 0usize);
                macro_rules! sh {
                    ($f:ident) => {{
                        let mut r = dirty.clone();
                        m.$f(base2k, k, &mut r, rc, &a, ac, sc.borrow());
                        tr.small(format!("{} k{k} {ctx}", stringify!($f)), &r);
                    }};
                }
                sh!(vec_znx_lsh);
                sh!(vec_znx_rsh);
                sh!(vec_znx_lsh_add_into);
                sh!(vec_znx_rsh_add_into);
                sh!(vec_znx_lsh_sub);
                sh!(vec_znx_rsh_sub);
                if a_size == 1 {
                    let mut r = dirty.clone();
                    m.vec_znx_lsh_assign(base2k, k, &mut r, rc, sc.borrow());
                    tr.small(format!("lsh_assign k{k} {ctx}"), &r);
                    let mut r = dirty.clone();
                    m.vec_znx_rsh_assign(base2k, k, &mut r, rc, sc.borrow());
                    tr.small(format!("rsh_assign k{k} {ctx}"), &r);
                }
            }
            // normalize with all offsets and cross-radix
            for res_base2k in [base2k, base2k - 1, base2k + 3, (base2k / 2).max(1), 2 * base2k] {
                if res_base2k > 62 {
                    continue;
                }
                let span = (base2k.max(res_base2k) * (a_size.max(res_size) + 1)) as i64;
                let mut offs: Vec<i64> = vec![0, 1, -1, base2k as i64, -(base2k as i64), base2k as i64 + 1, -(base2k as i64) - 1, span, -span];
                offs.sort();
                offs.dedup();
                for &off in &offs {
                    let mut r = dirty.clone();
                    m.vec_znx_normalize(&mut r, res_base2k, off, 1, &a, base2k, 0, sc.borrow());
                    tr.small(format!("normalize rb{res_base2k} off{off} {ctx}"), &r);
                }
            }
            if a_size == 1 {
                let mut r = dirty.clone();
                m.vec_znx_normalize_assign(base2k, &mut r, 1, sc.borrow());
                tr.small(format!("normalize_assign {ctx}"), &r);
            }
        }
    }
    tr
}

/// switch_ring / split_ring / merge_rings across ring degrees.
fn prog_vec_znx_rings<B: BE>(n: usize, base2k: usize, sd: u64) -> Trace {
    let m: Module<B> = Module::<B>::new(n as u64);
    let mut tr = Trace::default();
    let mut src = Source::new(seed(sd));
    let cols = 2;
    let mut sc = scratch::<B>(m.vec_znx_split_ring_tmp_bytes().max(m.vec_znx_merge_rings_tmp_bytes()));
    for a_size in 1..=3usize {
        let a = rnd_vec(n, cols, a_size, base2k, &mut src);
        for res_size in 1..=3usize {
            // switch ring to every other degree
            for logm in 0..=7 {
                let mm = 1usize << logm;
                let mut r = dirty_vec(mm, cols, res_size, 30, &mut src);
                m.vec_znx_switch_ring(&mut r, 1, &a, 0);
                tr.small(format!("switch_ring n{n}->{mm} a{a_size}r{res_size}"), &r);
            }
            // split into 2^g rings of degree n/2^g
            let mut g = 2usize;
            while g <= n && g <= 8 {
                let mut parts: Vec<VecZnx<Vec<u8>>> = (0..g).map(|_| dirty_vec(n / g, cols, res_size, 30, &mut src)).collect();
                m.vec_znx_split_ring(&mut parts, 1, &a, 0, sc.borrow());
                for (i, p) in parts.iter().enumerate() {
                    tr.small(format!("split_ring g{g} part{i} a{a_size}r{res_size}"), p);
                }
                // merge back (into dirty)
                let inputs: Vec<VecZnx<Vec<u8>>> = (0..g).map(|_| rnd_vec(n / g, cols, a_size, base2k, &mut src)).collect();
                let mut r = dirty_vec(n, cols, res_size, 30, &mut src);
                m.vec_znx_merge_rings(&mut r, 0, &inputs, 1, sc.borrow());
                tr.small(format!("merge_rings g{g} a{a_size}r{res_size}"), &r);
                g *= 2;
            }
        }
    }
    tr
}

// ───────────────────────────── programs: vec_znx_big ─────────────────────────────

fn prog_big<B: BE>(n: usize, base2k: usize, sd: u64) -> Trace {
    let m: Module<B> = Module::<B>::new(n as u64);
    let mut tr = Trace::default();
    let mut src = Source::new(seed(sd));
    let cols = 2;
    let mut sc = scratch::<B>(norm_bytes(&m));
    for a_size in 1..=3usize {
        let a_small = rnd_vec(n, cols, a_size, base2k, &mut src);
        let a = big_from(&m, &a_small);
        for b_size in 1..=3usize {
            let b_small = rnd_vec(n, cols, b_size, base2k, &mut src);
            let b = big_from(&m, &b_small);
            for res_size in 1..=4usize {
                let ctx = format!("a{a_size}b{b_size}r{res_size}");
                let (rc, ac, bc) = (res_size % cols, (a_size + 1) % cols, b_size % cols);
                let dsd = src.next_u64();
                let fresh = |m: &Module<B>| dirty_big(m, cols, res_size, &mut Source::new(seed(dsd)));
                macro_rules! t3 {
                    ($f:ident, $x:expr, $y:expr) => {{
                        let mut r = fresh(&m);
                        m.$f(&mut r, rc, $x, ac, $y, bc);
                        rec_big(&mut tr, &format!("{} {ctx}", stringify!($f)), &m, &r, base2k, res_size + 1);
                    }};
                }
                macro_rules! t2 {
                    ($f:ident, $x:expr) => {{
                        let mut r = fresh(&m);
                        m.$f(&mut r, rc, $x, ac);
                        rec_big(&mut tr, &format!("{} {ctx}", stringify!($f)), &m, &r, base2k, res_size + 1);
                    }};
                }
                t3!(vec_znx_big_add_into, &a, &b);
                t3!(vec_znx_big_sub, &a, &b);
                t3!(vec_znx_big_add_small_into, &a, &b_small);
                t3!(vec_znx_big_sub_small_a, &a_small, &b);
                t3!(vec_znx_big_sub_small_b, &a, &b_small);
                if b_size == 1 {
                    t2!(vec_znx_big_add_assign, &a);
                    t2!(vec_znx_big_sub_assign, &a);
                    t2!(vec_znx_big_sub_negate_assign, &a);
                    t2!(vec_znx_big_add_small_assign, &a_small);
                    t2!(vec_znx_big_sub_small_assign, &a_small);
                    t2!(vec_znx_big_sub_small_negate_assign, &a_small);
                    t2!(vec_znx_big_negate, &a);
                    t2!(vec_znx_big_from_small, &a_small);
                    {
                        let mut r = fresh(&m);
                        m.vec_znx_big_negate_assign(&mut r, rc);
                        rec_big(&mut tr, &format!("big_negate_assign {ctx}"), &m, &r, base2k, res_size + 1);
                    }
                    let nn = n as i64;
                    for p in [1i64, -1, 3, 2 * nn - 1, -(2 * nn) - 3, 5, 2 * nn + 5] {
                        let mut r = fresh(&m);
                        m.vec_znx_big_automorphism(p, &mut r, rc, &a, ac);
                        rec_big(&mut tr, &format!("big_automorphism p{p} {ctx}"), &m, &r, base2k, res_size + 1);
                        let mut r = fresh(&m);
                        m.vec_znx_big_automorphism_assign(p, &mut r, rc, sc.borrow());
                        rec_big(&mut tr, &format!("big_automorphism_assign p{p} {ctx}"), &m, &r, base2k, res_size + 1);
                    }
                }
            }
        }
    }
    tr
}

/// Big normalisation: accumulate several products-worth of magnitude, then every normalize form
/// (into / add_assign / sub_assign / negate), every offset, cross radix, dirty small output.
fn prog_big_normalize<B: BE>(n: usize, a_base2k: usize, acc_bits: usize, same_radix_only: bool, sd: u64) -> Trace {
    let m: Module<B> = Module::<B>::new(n as u64);
    let mut tr = Trace::default();
    let mut src = Source::new(seed(sd));
    let cols = 2;
    let mut sc = scratch::<B>(norm_bytes(&m));
    for a_size in 1..=4usize {
        // un-normalised accumulator of magnitude 2^acc_bits
        let a_small = dirty_vec(n, cols, a_size, acc_bits, &mut src);
        let a = big_from(&m, &a_small);
        for res_size in 1..=4usize {
            let dirty = rnd_vec(n, cols, res_size, a_base2k.min(20), &mut src);
            for res_base2k in [a_base2k, a_base2k - 1, a_base2k + 2, (a_base2k / 2).max(1), (2 * a_base2k).min(60)] {
                if same_radix_only && res_base2k != a_base2k {
                    continue;
                }
                let span = (a_base2k.max(res_base2k) * (a_size.max(res_size) + 1)) as i64;
                let ab = a_base2k as i64;
                let mut offs: Vec<i64> = vec![0, 1, -1, ab - 1, ab, ab + 1, -ab + 1, -ab, -ab - 1, 2 * ab, -2 * ab, span, -span, span + 3, -span - 3];
                offs.sort();
                offs.dedup();
                for &off in &offs {
                    let ctx = format!("ab{a_base2k} rb{res_base2k} off{off} a{a_size}r{res_size}");
                    let mut r = dirty.clone();
                    m.vec_znx_big_normalize(&mut r, res_base2k, off, 1, &a, a_base2k, 0, sc.borrow());
                    tr.small(format!("big_normalize {ctx}"), &r);
                    let mut r = dirty.clone();
                    m.vec_znx_big_normalize_add_assign(&mut r, res_base2k, off, 0, &a, a_base2k, 1, sc.borrow());
                    tr.small(format!("big_normalize_add_assign {ctx}"), &r);
                    m.vec_znx_normalize_assign(res_base2k, &mut r, 0, sc.borrow());
                    tr.small(format!("canon(big_normalize_add_assign) {ctx}"), &r);
                    let mut r = dirty.clone();
                    m.vec_znx_big_normalize_sub_assign(&mut r, res_base2k, off, 1, &a, a_base2k, 1, sc.borrow());
                    tr.small(format!("big_normalize_sub_assign {ctx}"), &r);
                    m.vec_znx_normalize_assign(res_base2k, &mut r, 1, sc.borrow());
                    tr.small(format!("canon(big_normalize_sub_assign) {ctx}"), &r);
                    let mut r = dirty.clone();
                    m.vec_znx_big_normalize_negate(&mut r, res_base2k, off, 0, &a, a_base2k, 0, sc.borrow());
                    tr.small(format!("big_normalize_negate {ctx}"), &r);
                }
            }
        }
    }
    tr
}

// ───────────────────────────── programs: dft / svp ─────────────────────────────

fn prog_dft<B: BE>(n: usize, base2k: usize, sd: u64) -> Trace {
    let m: Module<B> = Module::<B>::new(n as u64);
    let mut tr = Trace::default();
    let mut src = Source::new(seed(sd));
    let cols = 2;
    let mut sc = scratch::<B>(norm_bytes(&m));
    for a_size in 1..=4usize {
        let a_small = rnd_vec(n, cols, a_size, base2k, &mut src);
        let a = dft_from(&m, &a_small);
        for res_size in 1..=4usize {
            let dsd = src.next_u64();
            let fresh = |m: &Module<B>| dirty_dft(m, cols, res_size, &mut Source::new(seed(dsd)));
            // dft_apply with (step, offset)
            for step in 1..=3usize {
                for offset in 0..=(a_size + 1) {
                    let mut r = fresh(&m);
                    m.vec_znx_dft_apply(step, offset, &mut r, 1, &a_small, 0);
                    rec_dft(&mut tr, &format!("dft_apply s{step} o{offset} a{a_size}r{res_size}"), &m, &r, base2k);
                    let mut r = fresh(&m);
                    m.vec_znx_dft_copy(step, offset, &mut r, 0, &a, 1);
                    rec_dft(&mut tr, &format!("dft_copy s{step} o{offset} a{a_size}r{res_size}"), &m, &r, base2k);
                }
            }
            // idft forms
            {
                let mut big = dirty_big(&m, cols, res_size, &mut src);
                m.vec_znx_idft_apply(&mut big, 1, &a, 0, sc.borrow());
                rec_big(&mut tr, &format!("idft_apply a{a_size}r{res_size}"), &m, &big, base2k, res_size + 1);
                let mut big = dirty_big(&m, cols, res_size, &mut src);
                let mut a2 = dft_from(&m, &a_small);
                m.vec_znx_idft_apply_tmpa(&mut big, 0, &mut a2, 1);
                rec_big(&mut tr, &format!("idft_apply_tmpa a{a_size}r{res_size}"), &m, &big, base2k, res_size + 1);
                if res_size == 1 {
                    let a3 = dft_from(&m, &a_small);
                    let big = m.vec_znx_idft_apply_consume(a3);
                    rec_big(&mut tr, &format!("idft_apply_consume a{a_size}"), &m, &big, base2k, a_size + 1);
                }
            }
            for b_size in 1..=3usize {
                let b_small = rnd_vec(n, cols, b_size, base2k, &mut src);
                let b = dft_from(&m, &b_small);
                let ctx = format!("a{a_size}b{b_size}r{res_size}");
                let mut r = fresh(&m);
                m.vec_znx_dft_add_into(&mut r, 1, &a, 0, &b, 1);
                rec_dft(&mut tr, &format!("dft_add_into {ctx}"), &m, &r, base2k);
                let mut r = fresh(&m);
                m.vec_znx_dft_sub(&mut r, 0, &a, 1, &b, 0);
                rec_dft(&mut tr, &format!("dft_sub {ctx}"), &m, &r, base2k);
            }
            let mut r = fresh(&m);
            m.vec_znx_dft_add_assign(&mut r, 1, &a, 0);
            rec_dft(&mut tr, &format!("dft_add_assign a{a_size}r{res_size}"), &m, &r, base2k);
            let mut r = fresh(&m);
            m.vec_znx_dft_sub_assign(&mut r, 1, &a, 1);
            rec_dft(&mut tr, &format!("dft_sub_assign a{a_size}r{res_size}"), &m, &r, base2k);
            let mut r = fresh(&m);
            m.vec_znx_dft_sub_negate_assign(&mut r, 0, &a, 1);
            rec_dft(&mut tr, &format!("dft_sub_negate_assign a{a_size}r{res_size}"), &m, &r, base2k);
            for scale in [-2i64, -1, 0, 1, 2, 3] {
                let mut r = fresh(&m);
                m.vec_znx_dft_add_scaled_assign(&mut r, 0, &a, 1, scale);
                rec_dft(&mut tr, &format!("dft_add_scaled_assign sc{scale} a{a_size}r{res_size}"), &m, &r, base2k);
            }
            let mut r = fresh(&m);
            m.vec_znx_dft_zero(&mut r, 1);
            rec_dft(&mut tr, &format!("dft_zero r{res_size}"), &m, &r, base2k);
        }
    }
    tr
}

fn prog_svp<B: BE>(n: usize, base2k: usize, sd: u64) -> Trace {
    let m: Module<B> = Module::<B>::new(n as u64);
    let mut tr = Trace::default();
    let mut src = Source::new(seed(sd));
    let cols = 2;
    let mut sca: ScalarZnx<Vec<u8>> = ScalarZnx::alloc(n, cols);
    sca.fill_uniform(base2k, &mut src);
    let mut pp = m.svp_ppol_alloc(cols);
    for c in 0..cols {
        m.svp_prepare(&mut pp, c, &sca, (c + 1) % cols);
    }
    for a_size in 1..=4usize {
        let a_small = rnd_vec(n, cols, a_size, base2k, &mut src);
        let a = dft_from(&m, &a_small);
        for res_size in 1..=4usize {
            let ctx = format!("a{a_size}r{res_size}");
            let mut r = dirty_dft(&m, cols, res_size, &mut src);
            m.svp_apply_dft(&mut r, 1, &pp, 0, &a_small, 1);
            rec_dft(&mut tr, &format!("svp_apply_dft {ctx}"), &m, &r, base2k);
            let mut r = dirty_dft(&m, cols, res_size, &mut src);
            m.svp_apply_dft_to_dft(&mut r, 0, &pp, 1, &a, 0);
            rec_dft(&mut tr, &format!("svp_apply_dft_to_dft {ctx}"), &m, &r, base2k);
        }
        let mut r = dft_from(&m, &a_small);
        m.svp_apply_dft_to_dft_assign(&mut r, 1, &pp, 0);
        rec_dft(&mut tr, &format!("svp_apply_dft_to_dft_assign a{a_size}"), &m, &r, base2k);
        // sequence: svp twice then add (3 factors: only inside the FFT64 domain for small radices)
        if base2k <= 12 {
            m.svp_apply_dft_to_dft_assign(&mut r, 1, &pp, 1);
            m.vec_znx_dft_add_assign(&mut r, 0, &a, 1);
            rec_dft(&mut tr, &format!("svp_seq a{a_size}"), &m, &r, base2k);
        }
    }
    tr
}

// ───────────────────────────── programs: vmp ─────────────────────────────

fn prog_vmp<B: BE>(n: usize, base2k: usize, sd: u64) -> Trace {
    let m: Module<B> = Module::<B>::new(n as u64);
    let mut tr = Trace::default();
    let mut src = Source::new(seed(sd));
    for (rows, cols_in, cols_out, size) in [
        (1usize, 1usize, 1usize, 1usize),
        (2, 1, 2, 3),
        (3, 2, 1, 2),
        (4, 2, 2, 4),
        (5, 1, 3, 5),
        (1, 3, 2, 2),
        (7, 1, 1, 6),
    ] {
        let mut mat: MatZnx<Vec<u8>> = MatZnx::alloc(n, rows, cols_in, cols_out, size);
        mat.fill_uniform(base2k, &mut src);
        let mut pmat = m.vmp_pmat_alloc(rows, cols_in, cols_out, size);
        let mut sc_p = scratch::<B>(m.vmp_prepare_tmp_bytes(rows, cols_in, cols_out, size));
        m.vmp_prepare(&mut pmat, &mat, sc_p.borrow());
        for a_size in [1usize, rows.saturating_sub(1).max(1), rows, rows + 2] {
            let a_small = rnd_vec(n, cols_in, a_size, base2k, &mut src);
            let a = dft_from(&m, &a_small);
            for res_size in [1usize, size.saturating_sub(1).max(1), size, size + 2] {
                let ctx = format!("mat({rows},{cols_in},{cols_out},{size}) a{a_size} r{res_size}");
                // exact-size scratch
                let mut sc = scratch::<B>(m.vmp_apply_dft_tmp_bytes(res_size, a_size, rows, cols_in, cols_out, size));
                let mut r = dirty_dft(&m, cols_out, res_size, &mut src);
                m.vmp_apply_dft(&mut r, &a_small, &pmat, sc.borrow());
                rec_dft(&mut tr, &format!("vmp_apply_dft {ctx}"), &m, &r, base2k);
                let mut sc = scratch::<B>(m.vmp_apply_dft_to_dft_tmp_bytes(res_size, a_size, rows, cols_in, cols_out, size));
                for limb_offset in 0..=(size + 1) {
                    let mut r = dirty_dft(&m, cols_out, res_size, &mut src);
                    m.vmp_apply_dft_to_dft(&mut r, &a, &pmat, limb_offset, sc.borrow());
                    rec_dft(&mut tr, &format!("vmp_apply_dft_to_dft lo{limb_offset} {ctx}"), &m, &r, base2k);
                }
            }
        }
        // vmp_zero then apply
        m.vmp_zero(&mut pmat);
        let a_small = rnd_vec(n, cols_in, rows, base2k, &mut src);
        let a = dft_from(&m, &a_small);
        let mut sc = scratch::<B>(m.vmp_apply_dft_to_dft_tmp_bytes(size, rows, rows, cols_in, cols_out, size));
        let mut r = dirty_dft(&m, cols_out, size, &mut src);
        m.vmp_apply_dft_to_dft(&mut r, &a, &pmat, 0, sc.borrow());
        rec_dft(&mut tr, &format!("vmp_zero+apply mat({rows},{cols_in},{cols_out},{size})"), &m, &r, base2k);
    }
    tr
}

// ───────────────────────────── programs: convolution ─────────────────────────────

fn prog_cnv<B: BE>(n: usize, base2k: usize, sd: u64) -> Trace {
    let m: Module<B> = Module::<B>::new(n as u64);
    let mut tr = Trace::default();
    let mut src = Source::new(seed(sd));
    let cols = 2;
    for a_size in 1..=3usize {
        for b_size in 1..=3usize {
            let a = rnd_vec(n, cols, a_size, base2k, &mut src);
            let b = rnd_vec(n, cols, b_size, base2k, &mut src);
            for (la_size, lb_size) in [(a_size, b_size), (a_size + 1, b_size + 2), (a_size.max(2) - 1, b_size.max(2) - 1)] {
                for mask in [-1i64, (1i64 << base2k) - 1, ((1i64 << base2k) - 1) ^ 0b111] {
                    let mut left = m.cnv_pvec_left_alloc(cols, la_size);
                    let mut right = m.cnv_pvec_right_alloc(cols, lb_size);
                    let mut sc = scratch::<B>(
                        m.cnv_prepare_left_tmp_bytes(la_size, a_size)
                            .max(m.cnv_prepare_right_tmp_bytes(lb_size, b_size)),
                    );
                    stage(format!("cnv_prepare a{a_size}/{la_size} b{b_size}/{lb_size}"));
                    m.cnv_prepare_left(&mut left, &a, mask, sc.borrow());
                    m.cnv_prepare_right(&mut right, &b, mask, sc.borrow());
                    for res_size in [1usize, la_size + lb_size - 1, la_size + lb_size + 1] {
                        for cnv_offset in 0..=(la_size + lb_size) {
                            let ctx = format!("a{a_size}/{la_size} b{b_size}/{lb_size} m{mask} r{res_size} off{cnv_offset}");
                            stage(format!("cnv_apply {ctx}"));
                            let mut sc = scratch::<B>(m.cnv_apply_dft_tmp_bytes(cnv_offset, res_size, la_size, lb_size));
                            let mut r = dirty_dft(&m, cols, res_size, &mut src);
                            m.cnv_apply_dft(cnv_offset, &mut r, 1, &left, 0, &right, 1, sc.borrow());
                            rec_dft(&mut tr, &format!("cnv_apply_dft {ctx}"), &m, &r, base2k);
                            stage(format!("cnv_pairwise {ctx}"));
                            // NOTE: Module::cnv_pairwise_apply_dft_tmp_bytes swaps (cnv_offset, res_size) when delegating
                            // (poulpy-hal/src/delegates/convolution.rs:98); take the max of both orders to get past it.
                            let mut sc = scratch::<B>(
                                m.cnv_pairwise_apply_dft_tmp_bytes(cnv_offset, res_size, la_size, lb_size)
                                    .max(m.cnv_pairwise_apply_dft_tmp_bytes(res_size, cnv_offset, la_size, lb_size)),
                            );
                            for (i, j) in [(0usize, 1usize), (1, 1), (1, 0)] {
                                let mut r = dirty_dft(&m, cols, res_size, &mut src);
                                m.cnv_pairwise_apply_dft(cnv_offset, &mut r, 0, &left, &right, i, j, sc.borrow());
                                rec_dft(&mut tr, &format!("cnv_pairwise_apply_dft i{i}j{j} {ctx}"), &m, &r, base2k);
                            }
                        }
                    }
                }
            }
            // prepare_self
            if a_size == b_size {
                let mut left = m.cnv_pvec_left_alloc(cols, a_size);
                let mut right = m.cnv_pvec_right_alloc(cols, a_size);
                let mut sc = scratch::<B>(m.cnv_prepare_self_tmp_bytes(a_size, a_size));
                m.cnv_prepare_self(&mut left, &mut right, &a, -1, sc.borrow());
                let res_size = 2 * a_size;
                let mut sc = scratch::<B>(m.cnv_apply_dft_tmp_bytes(0, res_size, a_size, a_size));
                let mut r = dirty_dft(&m, cols, res_size, &mut src);
                m.cnv_apply_dft(0, &mut r, 0, &left, 1, &right, 1, sc.borrow());
                rec_dft(&mut tr, &format!("cnv_prepare_self+apply a{a_size}"), &m, &r, base2k);
            }
            // by const
            let bconst: Vec<i64> = (0..b_size).map(|_| (src.next_u64() as i64) >> (64 - base2k)).collect();
            for res_size in [1usize, a_size + b_size - 1, a_size + b_size + 1] {
                for cnv_offset in 0..=(a_size + b_size) {
                    let mut sc = scratch::<B>(m.cnv_by_const_apply_tmp_bytes(cnv_offset, res_size, a_size, b_size));
                    let mut r = dirty_big(&m, cols, res_size, &mut src);
                    m.cnv_by_const_apply(cnv_offset, &mut r, 1, &a, 0, &bconst, sc.borrow());
                    rec_big(&mut tr, &format!("cnv_by_const a{a_size}b{b_size}r{res_size} off{cnv_offset}"), &m, &r, base2k, res_size + 1);
                }
            }
        }
    }
    tr
}

// ───────────────────────────── programs: sampling ─────────────────────────────

fn prog_sampling<B: BE>(n: usize, base2k: usize, sd: u64) -> Trace {
    let m: Module<B> = Module::<B>::new(n as u64);
    let mut tr = Trace::default();
    let cols = 2;
    for size in 1..=3usize {
        let mut src = Source::new(seed(sd + size as u64));
        let mut r = dirty_vec(n, cols, size, 20, &mut Source::new(seed(99)));
        m.vec_znx_fill_uniform(base2k, &mut r, 1, &mut src);
        tr.small(format!("fill_uniform s{size}"), &r);
        tr.words("stream after fill_uniform", vec![src.next_u64() as i64]);
        for k in [base2k - 1, base2k, base2k + 3, 2 * base2k, base2k * size] {
            if k > base2k * size {
                continue;
            }
            for sigma in [3.2f64, 1.0, 40.0] {
                let ni = NoiseInfos::new(k, sigma, 6.0 * sigma).unwrap();
                let mut r = dirty_vec(n, cols, size, 20, &mut Source::new(seed(98)));
                m.vec_znx_fill_normal(base2k, &mut r, 0, ni, &mut src);
                tr.small(format!("fill_normal s{size} k{k} sg{sigma}"), &r);
                tr.words("stream after fill_normal", vec![src.next_u64() as i64]);
                let mut r = rnd_vec(n, cols, size, base2k, &mut Source::new(seed(97)));
                m.vec_znx_add_normal(base2k, &mut r, 1, ni, &mut src);
                tr.small(format!("add_normal s{size} k{k} sg{sigma}"), &r);
                tr.words("stream after add_normal", vec![src.next_u64() as i64]);
                let mut big = dirty_big(&m, cols, size, &mut Source::new(seed(96)));
                m.vec_znx_big_add_normal(base2k, &mut big, 1, ni, &mut src);
                rec_big(&mut tr, &format!("big_add_normal s{size} k{k} sg{sigma}"), &m, &big, base2k, size + 1);
                tr.words("stream after big_add_normal", vec![src.next_u64() as i64]);
            }
        }
    }
    tr
}

// ───────────────────────────── tests ─────────────────────────────

const NS: &[usize] = &[1, 2, 4, 8, 16, 32, 64];

#[test]
fn hal_vec_znx() {
    std::panic::set_hook(Box::new(|_| {}));
    let mut fails = vec![];
    for &n in NS {
        for base2k in [5usize, 12, 17, 50] {
            four!(&format!("vec_znx n{n} k{base2k}"), true, &mut fails, prog_vec_znx(n, base2k, false, 1));
            if !cfg!(debug_assertions) {
                four!(&format!("vec_znx full-range n{n} k{base2k}"), true, &mut fails, prog_vec_znx(n, base2k, true, 2));
            }
        }
    }
    report("hal_vec_znx", fails);
}

#[test]
fn hal_vec_znx_shift_norm() {
    std::panic::set_hook(Box::new(|_| {}));
    let mut fails = vec![];
    for &n in NS {
        for base2k in [3usize, 12, 17, 31, 50] {
            four!(&format!("shift_norm n{n} k{base2k} normalised"), true, &mut fails, prog_vec_znx_shift_norm(n, base2k, base2k, 3));
            four!(&format!("shift_norm n{n} k{base2k} bounded"), true, &mut fails, prog_vec_znx_shift_norm(n, base2k, (base2k + 10).min(62), 4));
            if !cfg!(debug_assertions) {
                four!(&format!("shift_norm n{n} k{base2k} full"), true, &mut fails, prog_vec_znx_shift_norm(n, base2k, 64, 5));
            }
        }
    }
    report("hal_vec_znx_shift_norm", fails);
}

#[test]
fn hal_vec_znx_rings() {
    std::panic::set_hook(Box::new(|_| {}));
    let mut fails = vec![];
    for &n in NS {
        four!(&format!("rings n{n}"), true, &mut fails, prog_vec_znx_rings(n, 17, 6));
    }
    report("hal_vec_znx_rings", fails);
}

#[test]
fn hal_big() {
    std::panic::set_hook(Box::new(|_| {}));
    let mut fails = vec![];
    for &n in NS {
        for base2k in [12usize, 17, 40] {
            four!(&format!("big n{n} k{base2k}"), true, &mut fails, prog_big(n, base2k, 7));
        }
    }
    report("hal_big", fails);
}

#[test]
fn hal_big_normalize() {
    std::panic::set_hook(Box::new(|_| {}));
    let mut fails = vec![];
    for &n in NS {
        for (a_base2k, acc_bits) in [(12usize, 40usize), (17, 50), (7, 30), (30, 60), (12, 62)] {
            // same radix: all four backends must agree (FFT64 i64 accumulators stay below 2^62)
            four!(&format!("big_normalize n{n} ab{a_base2k} acc{acc_bits} same-radix"), true, &mut fails, prog_big_normalize(n, a_base2k, acc_bits, true, 8));
            // cross radix: the NTT120 family truncates where the FFT64 family rounds (see c10_cross_family_normalize.rs),
            // so only Ref|Avx are compared here.
            four!(&format!("big_normalize n{n} ab{a_base2k} acc{acc_bits} cross-radix"), false, &mut fails, prog_big_normalize(n, a_base2k, acc_bits, false, 8));
        }
    }
    report("hal_big_normalize", fails);
}

#[test]
fn hal_dft() {
    std::panic::set_hook(Box::new(|_| {}));
    let mut fails = vec![];
    for &n in NS {
        for base2k in [12usize, 17] {
            four!(&format!("dft n{n} k{base2k}"), true, &mut fails, prog_dft(n, base2k, 9));
        }
    }
    report("hal_dft", fails);
}

#[test]
fn hal_svp() {
    std::panic::set_hook(Box::new(|_| {}));
    let mut fails = vec![];
    for &n in NS {
        for base2k in [12usize, 17] {
            four!(&format!("svp n{n} k{base2k}"), true, &mut fails, prog_svp(n, base2k, 10));
        }
    }
    report("hal_svp", fails);
}

#[test]
fn hal_vmp() {
    std::panic::set_hook(Box::new(|_| {}));
    let mut fails = vec![];
    for &n in NS {
        for base2k in [12usize, 16] {
            four!(&format!("vmp n{n} k{base2k}"), true, &mut fails, prog_vmp(n, base2k, 11));
        }
    }
    report("hal_vmp", fails);
}

#[test]
fn hal_cnv() {
    std::panic::set_hook(Box::new(|_| {}));
    let mut fails = vec![];
    for &n in NS {
        for base2k in [12usize, 16] {
            // FFT64 convolution processes m/4 = n/8 blocks: for n < 8 it silently writes nothing, so the
            // cross-family comparison is only meaningful for n >= 8.
            four!(&format!("cnv n{n} k{base2k}"), n >= 8, &mut fails, prog_cnv(n, base2k, 12));
        }
    }
    report("hal_cnv", fails);
}

#[test]
fn hal_sampling() {
    std::panic::set_hook(Box::new(|_| {}));
    let mut fails = vec![];
    for &n in NS {
        for base2k in [12usize, 17] {
            four!(&format!("sampling n{n} k{base2k}"), true, &mut fails, prog_sampling(n, base2k, 13));
        }
    }
    report("hal_sampling", fails);
}

// ───────────────────────────── NTT120-only (large radix) ─────────────────────────────

fn two_way(tag: &str, fails: &mut Vec<String>, r: impl FnOnce() -> Trace, t: impl FnOnce() -> Trace) {
    let c = run("Ref", r);
    let d = run("Avx", t);
    match (&c, &d) {
        (Ok(c), Ok(d)) => compare(tag, c, d, false, fails),
        (Err(x), Err(_)) => eprintln!("note: {tag}: both panicked: {x}"),
        (Err(x), Ok(_)) | (Ok(_), Err(x)) => fails.push(format!("{tag}: only one backend panicked: {x}")),
    }
}

macro_rules! ntt_only {
    ($tag:expr, $fails:expr, $prog:ident ( $($arg:expr),* )) => {
        two_way(&format!("{} NTT120Ref|NTT120Avx", $tag), $fails, || $prog::<NTT120Ref>($($arg),*), || $prog::<NTT120Avx>($($arg),*))
    };
}
macro_rules! fft_only {
    ($tag:expr, $fails:expr, $prog:ident ( $($arg:expr),* )) => {
        two_way(&format!("{} FFT64Ref|FFT64Avx", $tag), $fails, || $prog::<FFT64Ref>($($arg),*), || $prog::<FFT64Avx>($($arg),*))
    };
}

#[test]
fn hal_ntt120_large_radix() {
    std::panic::set_hook(Box::new(|_| {}));
    let mut fails = vec![];
    for &n in &[2usize, 4, 8, 16, 32, 128, 256] {
        for base2k in [30usize, 50, 52] {
            ntt_only!(format!("big n{n} k{base2k}"), &mut fails, prog_big(n, base2k, 21));
            ntt_only!(format!("dft n{n} k{base2k}"), &mut fails, prog_dft(n, base2k, 22));
            ntt_only!(format!("svp n{n} k{base2k}"), &mut fails, prog_svp(n, base2k, 23));
            if n <= 64 {
                ntt_only!(format!("vmp n{n} k{base2k}"), &mut fails, prog_vmp(n, base2k, 24));
                ntt_only!(format!("cnv n{n} k{base2k}"), &mut fails, prog_cnv(n, base2k, 25));
            }
        }
        for (ab, acc) in [(50usize, 62usize), (52, 62), (60, 62), (30, 62)] {
            ntt_only!(format!("big_normalize n{n} ab{ab}"), &mut fails, prog_big_normalize(n, ab, acc, false, 26));
        }
    }
    report("hal_ntt120_large_radix", fails);
}

/// FFT64 at larger N (multi-level FFT kernels: fft16 / bar / twiddle paths differ from the ref code).
#[test]
fn hal_fft64_larger_n() {
    std::panic::set_hook(Box::new(|_| {}));
    let mut fails = vec![];
    for &n in &[128usize, 256, 512, 1024, 2048] {
        for base2k in [12usize, 17] {
            fft_only!(format!("dft n{n} k{base2k}"), &mut fails, prog_dft(n, base2k, 31));
            fft_only!(format!("svp n{n} k{base2k}"), &mut fails, prog_svp(n, base2k, 32));
        }
        fft_only!(format!("vmp n{n} k14"), &mut fails, prog_vmp(n, 14, 33));
        if n <= 512 {
            fft_only!(format!("cnv n{n} k14"), &mut fails, prog_cnv(n, 14, 34));
        }
    }
    report("hal_fft64_larger_n", fails);
}

/// EXPECTED TO FAIL on the unmodified library: cross-radix `vec_znx_big_normalize*` is not bit-identical
/// between the FFT64 and the NTT120 families (NTT120 truncates where FFT64 / vec_znx_normalize round).
#[test]
fn hal_big_normalize_cross_radix_cross_family() {
    std::panic::set_hook(Box::new(|_| {}));
    let mut fails = vec![];
    for &n in &[1usize, 4, 8] {
        for (a_base2k, acc_bits) in [(12usize, 12usize), (12, 40), (17, 50)] {
            four!(&format!("big_normalize n{n} ab{a_base2k} acc{acc_bits} cross-radix"), true, &mut fails, prog_big_normalize(n, a_base2k, acc_bits, false, 8));
        }
    }
    report("hal_big_normalize_cross_radix_cross_family", fails);
}

/// Very large ring degrees (recursive FFT / NTT levels not reached by the other tests).
#[test]
fn hal_huge_n() {
    std::panic::set_hook(Box::new(|_| {}));
    let mut fails = vec![];
    for &n in &[4096usize, 16384, 65536] {
        fft_only!(format!("svp n{n} k14"), &mut fails, prog_svp(n, 14, 41));
        ntt_only!(format!("svp n{n} k50"), &mut fails, prog_svp(n, 50, 42));
        // cross-family too
        two_way(&format!("svp n{n} k14 FFT64Avx|NTT120Avx"), &mut fails, || strip_raw(prog_svp::<FFT64Avx>(n, 14, 41)), || strip_raw(prog_svp::<NTT120Avx>(n, 14, 41)));
    }
    report("hal_huge_n", fails);
}

fn strip_raw(mut t: Trace) -> Trace {
    t.items.retain(|(l, _)| !l.starts_with("raw:"));
    t
}

// ───────────────────────────── random operation sequences in the DFT domain ─────────────────────────────

/// A pool of VecZnxDft objects is mutated by a seed-determined random sequence of DFT-domain operations
/// (outputs of one operation feed the next: products -> add/sub/negate chains -> products ...).
/// The lazy q120b representation differs between NTT120Ref and NTT120Avx, so this checks that every
/// consumer accepts every producer's output range.
fn prog_dft_sequence<B: BE>(n: usize, base2k: usize, steps: usize, sd: u64) -> Trace {
    let m: Module<B> = Module::<B>::new(n as u64);
    let mut tr = Trace::default();
    let mut src = Source::new(seed(sd));
    let cols = 2;
    let size = 3;
    let pool_n = 4;
    let smalls: Vec<VecZnx<Vec<u8>>> = (0..pool_n).map(|_| rnd_vec(n, cols, size, base2k, &mut src)).collect();
    let mut pool: Vec<VecZnxDft<DeviceBuf<B>, B>> = smalls.iter().map(|s| dft_from(&m, s)).collect();
    let mut sca: ScalarZnx<Vec<u8>> = ScalarZnx::alloc(n, cols);
    sca.fill_ternary_prob(0, 0.5, &mut src);
    sca.fill_ternary_prob(1, 0.5, &mut src);
    let mut pp = m.svp_ppol_alloc(cols);
    for c in 0..cols {
        m.svp_prepare(&mut pp, c, &sca, c);
    }
    // a small vmp matrix with tiny (ternary-like) entries so that magnitudes stay bounded
    let (rows, cols_in, cols_out) = (size, cols, cols);
    let mut mat: MatZnx<Vec<u8>> = MatZnx::alloc(n, rows, cols_in, cols_out, size);
    mat.fill_uniform(2, &mut src);
    let mut pmat = m.vmp_pmat_alloc(rows, cols_in, cols_out, size);
    let mut sc = scratch::<B>(
        m.vmp_prepare_tmp_bytes(rows, cols_in, cols_out, size)
            .max(m.vmp_apply_dft_to_dft_tmp_bytes(size, size, rows, cols_in, cols_out, size))
            .max(norm_bytes(&m)),
    );
    m.vmp_prepare(&mut pmat, &mat, sc.borrow());

    for step in 0..steps {
        let op = src.next_u64() % 9;
        let i = (src.next_u64() % pool_n as u64) as usize;
        let mut j = (src.next_u64() % pool_n as u64) as usize;
        if j == i {
            j = (i + 1) % pool_n;
        }
        let (ci, cj) = ((src.next_u64() % 2) as usize, (src.next_u64() % 2) as usize);
        // split borrow
        let (a, b) = if i < j {
            let (l, r) = pool.split_at_mut(j);
            (&mut l[i], &r[0])
        } else {
            let (l, r) = pool.split_at_mut(i);
            (&mut r[0], &l[j])
        };
        match op {
            0 => m.vec_znx_dft_add_assign(a, ci, b, cj),
            1 => m.vec_znx_dft_sub_assign(a, ci, b, cj),
            2 => m.vec_znx_dft_sub_negate_assign(a, ci, b, cj),
            3 => m.svp_apply_dft_to_dft_assign(a, ci, &pp, cj),
            4 => {
                let mut r = m.vec_znx_dft_alloc(cols, size);
                m.vmp_apply_dft_to_dft(&mut r, b, &pmat, 0, sc.borrow());
                for c in 0..cols {
                    m.vec_znx_dft_add_assign(a, c, &r, c);
                }
            }
            5 => m.vec_znx_dft_add_scaled_assign(a, ci, b, cj, (src.next_u64() % 5) as i64 - 2),
            6 => {
                let mut r = m.vec_znx_dft_alloc(cols, size);
                m.vec_znx_dft_sub(&mut r, ci, a, ci, b, cj);
                m.vec_znx_dft_add_into(a, 1 - ci, &r, ci, b, cj);
            }
            7 => {
                // re-enter the domain: idft -> normalize -> dft (keeps magnitudes bounded)
                let mut big = m.vec_znx_big_alloc(cols, size);
                for c in 0..cols {
                    m.vec_znx_idft_apply(&mut big, c, a, c, sc.borrow());
                }
                let mut small: VecZnx<Vec<u8>> = VecZnx::alloc(n, cols, size);
                for c in 0..cols {
                    m.vec_znx_big_normalize(&mut small, base2k, 0, c, &big, base2k, c, sc.borrow());
                }
                tr.small(format!("step{step} renormalised pool[{i}]"), &small);
                for c in 0..cols {
                    m.vec_znx_dft_apply(1, 0, a, c, &small, c);
                }
            }
            _ => m.vec_znx_dft_copy(1, 0, a, ci, b, cj),
        }
        if step % 4 == 3 {
            rec_dft(&mut tr, &format!("step{step} op{op} pool[{i}]"), &m, &pool[i], base2k);
        }
    }
    for (i, p) in pool.iter().enumerate() {
        rec_dft(&mut tr, &format!("final pool[{i}]"), &m, p, base2k);
    }
    tr
}

#[test]
fn hal_dft_random_sequences() {
    std::panic::set_hook(Box::new(|_| {}));
    let mut fails = vec![];
    for &n in &[2usize, 8, 64, 1024] {
        for sd in 0..12u64 {
            // NTT120: large radix, long un-renormalised chains are inside the 120-bit domain
            ntt_only!(format!("seq n{n} k50 seed{sd}"), &mut fails, prog_dft_sequence(n, 50, 40, 100 + sd));
        }
    }
    ntt_only!("seq n16384 k50".to_string(), &mut fails, prog_dft_sequence(16384, 50, 60, 777));
    report("hal_dft_random_sequences", fails);
}
