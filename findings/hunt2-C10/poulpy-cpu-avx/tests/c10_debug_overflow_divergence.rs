//! C10 second-pass audit (minor, debug profile only): the scalar reference kernels use checked `+`/`-`/unary `-`
//! (`znx_add_ref`, `znx_sub_ref`, `znx_negate_ref`, `znx_automorphism_ref`, the `znx_normalize_*_ref` accumulate
//! forms, `znx_mul_power_of_two_ref` ...) while the AVX2 kernels wrap. With `debug_assertions` on, the same call on
//! the same data therefore panics on FFT64Ref/NTT120Ref and returns a wrapped value on FFT64Avx/NTT120Avx
//! (in release both wrap identically). Lengths < 4 take the scalar tail on AVX too, so N >= 4 is needed.
//!
//! EXPECTED TO FAIL in a debug build on the unmodified library, passes in release.
//!   RUSTFLAGS="-C target-feature=+avx2,+fma" cargo test --offline -p poulpy-cpu-avx --features enable-avx \
//!       --test c10_debug_overflow_divergence
#![cfg(feature = "enable-avx")]

use std::panic::{AssertUnwindSafe, catch_unwind};

use poulpy_cpu_avx::FFT64Avx;
use poulpy_cpu_ref::FFT64Ref;
use poulpy_hal::{api::*, layouts::*, oep::HalImpl};

fn add<B: Backend + HalImpl<B>>(x: i64, y: i64) -> Result<Vec<i64>, ()> {
    let n = 4;
    let m: Module<B> = Module::<B>::new(n as u64);
    let mut a: VecZnx<Vec<u8>> = VecZnx::alloc(n, 1, 1);
    let mut b: VecZnx<Vec<u8>> = VecZnx::alloc(n, 1, 1);
    a.at_mut(0, 0).fill(x);
    b.at_mut(0, 0).fill(y);
    let mut r: VecZnx<Vec<u8>> = VecZnx::alloc(n, 1, 1);
    catch_unwind(AssertUnwindSafe(|| {
        m.vec_znx_add_into(&mut r, 0, &a, 0, &b, 0);
        r.at(0, 0).to_vec()
    }))
    .map_err(|_| ())
}

fn neg<B: Backend + HalImpl<B>>(x: i64) -> Result<Vec<i64>, ()> {
    let n = 4;
    let m: Module<B> = Module::<B>::new(n as u64);
    let mut a: VecZnx<Vec<u8>> = VecZnx::alloc(n, 1, 1);
    a.at_mut(0, 0).fill(x);
    catch_unwind(AssertUnwindSafe(|| {
        m.vec_znx_negate_assign(&mut a, 0);
        a.at(0, 0).to_vec()
    }))
    .map_err(|_| ())
}

#[test]
fn wrapping_kernels_behave_identically_on_both_backends() {
    std::panic::set_hook(Box::new(|_| {}));
    let (r, t) = (add::<FFT64Ref>(i64::MAX, 1), add::<FFT64Avx>(i64::MAX, 1));
    eprintln!("vec_znx_add_into(i64::MAX, 1): FFT64Ref={r:?} FFT64Avx={t:?}");
    let (rn, tn) = (neg::<FFT64Ref>(i64::MIN), neg::<FFT64Avx>(i64::MIN));
    eprintln!("vec_znx_negate_assign(i64::MIN): FFT64Ref={rn:?} FFT64Avx={tn:?}");
    assert_eq!(r, t);
    assert_eq!(rn, tn);
}
