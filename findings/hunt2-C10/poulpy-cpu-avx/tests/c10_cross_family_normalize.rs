//! C10 second-pass audit — focused reproducers for the two FFT64-vs-NTT120 divergences found in
//! `vec_znx_big_normalize*` when `res_base2k != a_base2k`.
//!
//! Both tests FAIL on the unmodified library.
//!
//!   RUSTFLAGS="-C target-feature=+avx2,+fma" cargo test --offline --release -p poulpy-cpu-avx \
//!       --features enable-avx --test c10_cross_family_normalize -- --nocapture
#![cfg(feature = "enable-avx")]

use poulpy_cpu_avx::{FFT64Avx, NTT120Avx};
use poulpy_cpu_ref::{FFT64Ref, NTT120Ref};
use poulpy_hal::{api::*, layouts::*, oep::HalImpl};

fn mk(n: usize, limbs: &[Vec<i64>]) -> VecZnx<Vec<u8>> {
    let mut a: VecZnx<Vec<u8>> = VecZnx::alloc(n, 1, limbs.len());
    for (j, l) in limbs.iter().enumerate() {
        a.at_mut(0, j).copy_from_slice(l);
    }
    a
}

fn out(v: &VecZnx<Vec<u8>>) -> Vec<i64> {
    (0..v.size()).flat_map(|j| v.at(0, j).to_vec()).collect()
}

/// `vec_znx_big_normalize(big_from_small(a))`
fn big_norm<B: Backend + HalImpl<B>>(n: usize, a: &[Vec<i64>], ab: usize, rb: usize, off: i64, res_size: usize) -> Vec<i64> {
    let m: Module<B> = Module::<B>::new(n as u64);
    let a = mk(n, a);
    let mut big = m.vec_znx_big_alloc(1, a.size());
    m.vec_znx_big_from_small(&mut big, 0, &a, 0);
    let mut sc = ScratchOwned::<B>::alloc(m.vec_znx_big_normalize_tmp_bytes());
    let mut res: VecZnx<Vec<u8>> = VecZnx::alloc(n, 1, res_size);
    m.vec_znx_big_normalize(&mut res, rb, off, 0, &big, ab, 0, sc.borrow());
    out(&res)
}

/// Sibling form on the coefficient domain: `vec_znx_normalize(a)` (generic code shared by every backend).
fn small_norm<B: Backend + HalImpl<B>>(n: usize, a: &[Vec<i64>], ab: usize, rb: usize, off: i64, res_size: usize) -> Vec<i64> {
    let m: Module<B> = Module::<B>::new(n as u64);
    let a = mk(n, a);
    let mut sc = ScratchOwned::<B>::alloc(m.vec_znx_normalize_tmp_bytes());
    let mut res: VecZnx<Vec<u8>> = VecZnx::alloc(n, 1, res_size);
    m.vec_znx_normalize(&mut res, rb, off, 0, &a, ab, 0, sc.borrow());
    out(&res)
}

/// Fused `res -= normalize(a)` / `res += normalize(a)`, then canonicalised with `vec_znx_normalize_assign`.
fn fused<B: Backend + HalImpl<B>>(sub: bool, n: usize, r0: &[Vec<i64>], a: &[Vec<i64>], ab: usize, rb: usize, off: i64) -> (Vec<i64>, Vec<i64>) {
    let m: Module<B> = Module::<B>::new(n as u64);
    let a = mk(n, a);
    let mut big = m.vec_znx_big_alloc(1, a.size());
    m.vec_znx_big_from_small(&mut big, 0, &a, 0);
    let mut sc = ScratchOwned::<B>::alloc(m.vec_znx_big_normalize_tmp_bytes().max(m.vec_znx_normalize_tmp_bytes()));
    let mut res = mk(n, r0);
    if sub {
        m.vec_znx_big_normalize_sub_assign(&mut res, rb, off, 0, &big, ab, 0, sc.borrow());
    } else {
        m.vec_znx_big_normalize_add_assign(&mut res, rb, off, 0, &big, ab, 0, sc.borrow());
    }
    let raw = out(&res);
    m.vec_znx_normalize_assign(rb, &mut res, 0, sc.borrow());
    (raw, out(&res))
}

/// Unfused sibling: `tmp = normalize(a); res ∓= tmp`, then canonicalised.
fn unfused<B: Backend + HalImpl<B>>(sub: bool, n: usize, r0: &[Vec<i64>], a: &[Vec<i64>], ab: usize, rb: usize, off: i64) -> (Vec<i64>, Vec<i64>) {
    let m: Module<B> = Module::<B>::new(n as u64);
    let a = mk(n, a);
    let mut big = m.vec_znx_big_alloc(1, a.size());
    m.vec_znx_big_from_small(&mut big, 0, &a, 0);
    let mut sc = ScratchOwned::<B>::alloc(m.vec_znx_big_normalize_tmp_bytes().max(m.vec_znx_normalize_tmp_bytes()));
    let mut res = mk(n, r0);
    let mut tmp: VecZnx<Vec<u8>> = VecZnx::alloc(n, 1, r0.len());
    m.vec_znx_big_normalize(&mut tmp, rb, off, 0, &big, ab, 0, sc.borrow());
    if sub {
        m.vec_znx_sub_assign(&mut res, 0, &tmp, 0);
    } else {
        m.vec_znx_add_assign(&mut res, 0, &tmp, 0);
    }
    let raw = out(&res);
    m.vec_znx_normalize_assign(rb, &mut res, 0, sc.borrow());
    (raw, out(&res))
}

/// DEFECT 1 (smallest input): a = [1] in radix 2^2 is the torus value 1/4; at the precision of one radix-2^1
/// limb the library rounds it to 1/2 (digit -1) everywhere except in the NTT120 big-normalisation, which floors to 0.
#[test]
fn defect1_minimal() {
    let a = vec![vec![1i64, 0, 0, 0]];
    let want = small_norm::<FFT64Ref>(4, &a, 2, 1, 0, 1);
    assert_eq!(want, vec![-1, 0, 0, 0]);
    assert_eq!(small_norm::<NTT120Ref>(4, &a, 2, 1, 0, 1), want, "NTT120Ref vec_znx_normalize");
    assert_eq!(small_norm::<NTT120Avx>(4, &a, 2, 1, 0, 1), want, "NTT120Avx vec_znx_normalize");
    assert_eq!(big_norm::<FFT64Ref>(4, &a, 2, 1, 0, 1), want, "FFT64Ref big_normalize");
    assert_eq!(big_norm::<FFT64Avx>(4, &a, 2, 1, 0, 1), want, "FFT64Avx big_normalize");
    let nr = big_norm::<NTT120Ref>(4, &a, 2, 1, 0, 1);
    let na = big_norm::<NTT120Avx>(4, &a, 2, 1, 0, 1);
    assert_eq!(nr, na, "NTT120 Ref|Avx");
    assert_eq!(nr, want, "NTT120 vec_znx_big_normalize(a_base2k=2 -> res_base2k=1) of [1]");
}

/// DEFECT 1 (sweep): every (a_base2k, res_base2k, offset, sizes) with normalised digits.
#[test]
fn defect1_sweep() {
    let n = 4;
    let mut x: u64 = 0x1234_5678_9abc_def1;
    let mut rnd = move || {
        x ^= x << 13;
        x ^= x >> 7;
        x ^= x << 17;
        x
    };
    let mut bad = 0usize;
    let mut total = 0usize;
    let mut first: Option<String> = None;
    for (ab, rb) in [(12usize, 11usize), (12, 6), (12, 14), (12, 24), (14, 13), (17, 15), (7, 12), (50, 45)] {
        for a_size in 1..=3usize {
            for res_size in 1..=3usize {
                for off in [-(ab as i64) - 1, -(ab as i64), -1, 0, 1, ab as i64, ab as i64 + 1] {
                    for _ in 0..20 {
                        let a: Vec<Vec<i64>> = (0..a_size).map(|_| (0..n).map(|_| (rnd() as i64) >> (64 - ab)).collect()).collect();
                        let want = small_norm::<FFT64Ref>(n, &a, ab, rb, off, res_size);
                        if ab * a_size < 60 {
                            assert_eq!(big_norm::<FFT64Ref>(n, &a, ab, rb, off, res_size), want);
                            assert_eq!(big_norm::<FFT64Avx>(n, &a, ab, rb, off, res_size), want);
                        }
                        let nr = big_norm::<NTT120Ref>(n, &a, ab, rb, off, res_size);
                        let na = big_norm::<NTT120Avx>(n, &a, ab, rb, off, res_size);
                        assert_eq!(nr, na, "NTT120 Ref|Avx must agree");
                        total += 1;
                        if nr != want {
                            bad += 1;
                            if first.is_none() {
                                first = Some(format!("a={a:?} a_base2k={ab} res_base2k={rb} off={off} res_size={res_size}: want {want:?} got {nr:?}"));
                            }
                        }
                    }
                }
            }
        }
    }
    eprintln!("defect1_sweep: {bad}/{total} NTT120 big_normalize results differ from FFT64 / vec_znx_normalize; first: {first:?}");
    assert_eq!(bad, 0);
}

/// DEFECT 2: NTT120 fused `vec_znx_big_normalize_sub_assign` (cross radix, negative offset) is not
/// `res - normalize(a)`: it disagrees *in value* (after canonicalisation) with its own unfused sibling.
/// Also checks that the fused forms are bit-identical to the unfused ones (FFT64 is, by construction).
#[test]
fn defect2_fused_assign() {
    let n = 4;
    let mut x: u64 = 0xdead_beef_1234_5677;
    let mut rnd = move || {
        x ^= x << 13;
        x ^= x >> 7;
        x ^= x << 17;
        x
    };
    let mut value_bad = [0usize; 2];
    let mut repr_bad = [0usize; 2];
    let mut total = 0usize;
    let mut first_value: Option<String> = None;
    let mut first_repr: Option<String> = None;
    for (ab, rb) in [(12usize, 11usize), (12, 6), (12, 14), (14, 13), (17, 15)] {
        for a_size in 1..=3usize {
            for res_size in 1..=3usize {
                for off in [-(ab as i64) - 1, -(ab as i64), -1, 0, 1, ab as i64] {
                    for _ in 0..10 {
                        let a: Vec<Vec<i64>> = (0..a_size).map(|_| (0..n).map(|_| (rnd() as i64) >> (64 - ab)).collect()).collect();
                        let r0: Vec<Vec<i64>> = (0..res_size).map(|_| (0..n).map(|_| (rnd() as i64) >> (64 - rb)).collect()).collect();
                        for (s, sub) in [false, true].into_iter().enumerate() {
                            // FFT64: fused == unfused bit for bit (it *is* the fallback)
                            assert_eq!(fused::<FFT64Ref>(sub, n, &r0, &a, ab, rb, off), unfused::<FFT64Ref>(sub, n, &r0, &a, ab, rb, off));
                            assert_eq!(fused::<FFT64Avx>(sub, n, &r0, &a, ab, rb, off), unfused::<FFT64Ref>(sub, n, &r0, &a, ab, rb, off));
                            let (fr, fc) = fused::<NTT120Ref>(sub, n, &r0, &a, ab, rb, off);
                            let (ur, uc) = unfused::<NTT120Ref>(sub, n, &r0, &a, ab, rb, off);
                            assert_eq!((fr.clone(), fc.clone()), fused::<NTT120Avx>(sub, n, &r0, &a, ab, rb, off), "NTT120 Ref|Avx must agree");
                            total += 1;
                            if fc != uc {
                                value_bad[s] += 1;
                                if first_value.is_none() {
                                    first_value = Some(format!(
                                        "sub={sub} res={r0:?} a={a:?} a_base2k={ab} res_base2k={rb} off={off}: canon(fused)={fc:?} canon(res∓normalize(a))={uc:?}"
                                    ));
                                }
                            } else if fr != ur {
                                repr_bad[s] += 1;
                                if first_repr.is_none() {
                                    first_repr = Some(format!(
                                        "sub={sub} res={r0:?} a={a:?} a_base2k={ab} res_base2k={rb} off={off}: fused={fr:?} unfused={ur:?}"
                                    ));
                                }
                            }
                        }
                    }
                }
            }
        }
    }
    eprintln!("defect2: of {total} NTT120 cases: value differs add={} sub={}; digits differ (same value) add={} sub={}", value_bad[0], value_bad[1], repr_bad[0], repr_bad[1]);
    eprintln!("  first value difference: {first_value:?}");
    eprintln!("  first representation difference: {first_repr:?}");
    assert_eq!(value_bad, [0, 0], "fused NTT120 normalize_*_assign differs in value from res ∓ normalize(a)");
    assert_eq!(repr_bad, [0, 0], "fused NTT120 normalize_*_assign is not bit-identical to the unfused form (FFT64 family is)");
}

/// DEFECT 2 (smallest inputs, n = 1).
#[test]
fn defect2_minimal() {
    // value: res = -4/8 + 2/64 (radix 2^3), a = -2/4 (radix 2^2), offset -4  =>  res - a*2^-4 = -28/64 = [-3, -4]
    let (r0, a) = (vec![vec![-4i64], vec![2]], vec![vec![-2i64]]);
    let want = unfused::<FFT64Ref>(true, 1, &r0, &a, 2, 3, -4);
    assert_eq!(want, (vec![-4, 4], vec![-3, -4]));
    assert_eq!(fused::<FFT64Ref>(true, 1, &r0, &a, 2, 3, -4), want, "FFT64Ref fused");
    assert_eq!(fused::<FFT64Avx>(true, 1, &r0, &a, 2, 3, -4), want, "FFT64Avx fused");
    assert_eq!(unfused::<NTT120Ref>(true, 1, &r0, &a, 2, 3, -4), want, "NTT120Ref unfused");
    let nr = fused::<NTT120Ref>(true, 1, &r0, &a, 2, 3, -4);
    assert_eq!(nr, fused::<NTT120Avx>(true, 1, &r0, &a, 2, 3, -4), "NTT120 Ref|Avx");
    assert_eq!(nr.1, want.1, "NTT120 fused vec_znx_big_normalize_sub_assign: wrong VALUE (got digits {:?})", nr.0);

    // representation: res = [-1] (radix 2^1), a = [-2] (radix 2^2), offset 0 => res + (-1) = [-2] un-normalised
    let (r0, a) = (vec![vec![-1i64]], vec![vec![-2i64]]);
    let want = unfused::<FFT64Ref>(false, 1, &r0, &a, 2, 1, 0);
    assert_eq!(want.0, vec![-2]);
    assert_eq!(fused::<FFT64Ref>(false, 1, &r0, &a, 2, 1, 0), want);
    assert_eq!(fused::<NTT120Ref>(false, 1, &r0, &a, 2, 1, 0).0, want.0, "NTT120 fused add_assign digits");
}
