//! C10 second-pass audit: re-run every cross-backend function of `poulpy_hal::test_suite`
//! at small ring degrees (N = 1..64) and several radices, on the pairs
//! (FFT64Ref, FFT64Avx), (NTT120Ref, NTT120Avx) and the cross-family pairs.
#![cfg(feature = "enable-avx")]

use std::panic::{AssertUnwindSafe, catch_unwind};

use poulpy_cpu_avx::{FFT64Avx, NTT120Avx};
use poulpy_cpu_ref::{FFT64Ref, NTT120Ref};
use poulpy_hal::{api::ModuleNew, layouts::Module, test_suite::TestParams};

fn msg(e: Box<dyn std::any::Any + Send>) -> String {
    if let Some(s) = e.downcast_ref::<String>() {
        s.chars().take(300).collect()
    } else if let Some(s) = e.downcast_ref::<&str>() {
        s.to_string()
    } else {
        "?".into()
    }
}

macro_rules! run_all {
    ($fails:expr, $tag:expr, $params:expr, $mr:expr, $mt:expr) => {{
        if let Err(e) = catch_unwind(AssertUnwindSafe(|| poulpy_hal::test_suite::vec_znx::test_vec_znx_add_scalar_into(&$params, &$mr, &$mt))) {
            $fails.push(format!("{} vec_znx::test_vec_znx_add_scalar_into {:?}: {}", $tag, $params, msg(e)));
        }
        if let Err(e) = catch_unwind(AssertUnwindSafe(|| poulpy_hal::test_suite::vec_znx::test_vec_znx_add_scalar_assign(&$params, &$mr, &$mt))) {
            $fails.push(format!("{} vec_znx::test_vec_znx_add_scalar_assign {:?}: {}", $tag, $params, msg(e)));
        }
        if let Err(e) = catch_unwind(AssertUnwindSafe(|| poulpy_hal::test_suite::vec_znx::test_vec_znx_add_into(&$params, &$mr, &$mt))) {
            $fails.push(format!("{} vec_znx::test_vec_znx_add_into {:?}: {}", $tag, $params, msg(e)));
        }
        if let Err(e) = catch_unwind(AssertUnwindSafe(|| poulpy_hal::test_suite::vec_znx::test_vec_znx_add_assign(&$params, &$mr, &$mt))) {
            $fails.push(format!("{} vec_znx::test_vec_znx_add_assign {:?}: {}", $tag, $params, msg(e)));
        }
        if let Err(e) = catch_unwind(AssertUnwindSafe(|| poulpy_hal::test_suite::vec_znx::test_vec_znx_automorphism(&$params, &$mr, &$mt))) {
            $fails.push(format!("{} vec_znx::test_vec_znx_automorphism {:?}: {}", $tag, $params, msg(e)));
        }
        if let Err(e) = catch_unwind(AssertUnwindSafe(|| poulpy_hal::test_suite::vec_znx::test_vec_znx_automorphism_assign(&$params, &$mr, &$mt))) {
            $fails.push(format!("{} vec_znx::test_vec_znx_automorphism_assign {:?}: {}", $tag, $params, msg(e)));
        }
        if let Err(e) = catch_unwind(AssertUnwindSafe(|| poulpy_hal::test_suite::vec_znx::test_vec_znx_copy(&$params, &$mr, &$mt))) {
            $fails.push(format!("{} vec_znx::test_vec_znx_copy {:?}: {}", $tag, $params, msg(e)));
        }
        if let Err(e) = catch_unwind(AssertUnwindSafe(|| poulpy_hal::test_suite::vec_znx::test_vec_znx_merge_rings(&$params, &$mr, &$mt))) {
            $fails.push(format!("{} vec_znx::test_vec_znx_merge_rings {:?}: {}", $tag, $params, msg(e)));
        }
        if let Err(e) = catch_unwind(AssertUnwindSafe(|| poulpy_hal::test_suite::vec_znx::test_vec_znx_mul_xp_minus_one(&$params, &$mr, &$mt))) {
            $fails.push(format!("{} vec_znx::test_vec_znx_mul_xp_minus_one {:?}: {}", $tag, $params, msg(e)));
        }
        if let Err(e) = catch_unwind(AssertUnwindSafe(|| poulpy_hal::test_suite::vec_znx::test_vec_znx_mul_xp_minus_one_assign(&$params, &$mr, &$mt))) {
            $fails.push(format!("{} vec_znx::test_vec_znx_mul_xp_minus_one_assign {:?}: {}", $tag, $params, msg(e)));
        }
        if let Err(e) = catch_unwind(AssertUnwindSafe(|| poulpy_hal::test_suite::vec_znx::test_vec_znx_negate(&$params, &$mr, &$mt))) {
            $fails.push(format!("{} vec_znx::test_vec_znx_negate {:?}: {}", $tag, $params, msg(e)));
        }
        if let Err(e) = catch_unwind(AssertUnwindSafe(|| poulpy_hal::test_suite::vec_znx::test_vec_znx_negate_assign(&$params, &$mr, &$mt))) {
            $fails.push(format!("{} vec_znx::test_vec_znx_negate_assign {:?}: {}", $tag, $params, msg(e)));
        }
        if let Err(e) = catch_unwind(AssertUnwindSafe(|| poulpy_hal::test_suite::vec_znx::test_vec_znx_normalize(&$params, &$mr, &$mt))) {
            $fails.push(format!("{} vec_znx::test_vec_znx_normalize {:?}: {}", $tag, $params, msg(e)));
        }
        if let Err(e) = catch_unwind(AssertUnwindSafe(|| poulpy_hal::test_suite::vec_znx::test_vec_znx_normalize_assign(&$params, &$mr, &$mt))) {
            $fails.push(format!("{} vec_znx::test_vec_znx_normalize_assign {:?}: {}", $tag, $params, msg(e)));
        }
        if let Err(e) = catch_unwind(AssertUnwindSafe(|| poulpy_hal::test_suite::vec_znx::test_vec_znx_rotate(&$params, &$mr, &$mt))) {
            $fails.push(format!("{} vec_znx::test_vec_znx_rotate {:?}: {}", $tag, $params, msg(e)));
        }
        if let Err(e) = catch_unwind(AssertUnwindSafe(|| poulpy_hal::test_suite::vec_znx::test_vec_znx_rotate_assign(&$params, &$mr, &$mt))) {
            $fails.push(format!("{} vec_znx::test_vec_znx_rotate_assign {:?}: {}", $tag, $params, msg(e)));
        }
        if let Err(e) = catch_unwind(AssertUnwindSafe(|| poulpy_hal::test_suite::vec_znx::test_vec_znx_lsh(&$params, &$mr, &$mt))) {
            $fails.push(format!("{} vec_znx::test_vec_znx_lsh {:?}: {}", $tag, $params, msg(e)));
        }
        if let Err(e) = catch_unwind(AssertUnwindSafe(|| poulpy_hal::test_suite::vec_znx::test_vec_znx_lsh_assign(&$params, &$mr, &$mt))) {
            $fails.push(format!("{} vec_znx::test_vec_znx_lsh_assign {:?}: {}", $tag, $params, msg(e)));
        }
        if let Err(e) = catch_unwind(AssertUnwindSafe(|| poulpy_hal::test_suite::vec_znx::test_vec_znx_rsh(&$params, &$mr, &$mt))) {
            $fails.push(format!("{} vec_znx::test_vec_znx_rsh {:?}: {}", $tag, $params, msg(e)));
        }
        if let Err(e) = catch_unwind(AssertUnwindSafe(|| poulpy_hal::test_suite::vec_znx::test_vec_znx_rsh_assign(&$params, &$mr, &$mt))) {
            $fails.push(format!("{} vec_znx::test_vec_znx_rsh_assign {:?}: {}", $tag, $params, msg(e)));
        }
        if let Err(e) = catch_unwind(AssertUnwindSafe(|| poulpy_hal::test_suite::vec_znx::test_vec_znx_split_ring(&$params, &$mr, &$mt))) {
            $fails.push(format!("{} vec_znx::test_vec_znx_split_ring {:?}: {}", $tag, $params, msg(e)));
        }
        if let Err(e) = catch_unwind(AssertUnwindSafe(|| poulpy_hal::test_suite::vec_znx::test_vec_znx_sub_scalar(&$params, &$mr, &$mt))) {
            $fails.push(format!("{} vec_znx::test_vec_znx_sub_scalar {:?}: {}", $tag, $params, msg(e)));
        }
        if let Err(e) = catch_unwind(AssertUnwindSafe(|| poulpy_hal::test_suite::vec_znx::test_vec_znx_sub_scalar_assign(&$params, &$mr, &$mt))) {
            $fails.push(format!("{} vec_znx::test_vec_znx_sub_scalar_assign {:?}: {}", $tag, $params, msg(e)));
        }
        if let Err(e) = catch_unwind(AssertUnwindSafe(|| poulpy_hal::test_suite::vec_znx::test_vec_znx_sub(&$params, &$mr, &$mt))) {
            $fails.push(format!("{} vec_znx::test_vec_znx_sub {:?}: {}", $tag, $params, msg(e)));
        }
        if let Err(e) = catch_unwind(AssertUnwindSafe(|| poulpy_hal::test_suite::vec_znx::test_vec_znx_sub_assign(&$params, &$mr, &$mt))) {
            $fails.push(format!("{} vec_znx::test_vec_znx_sub_assign {:?}: {}", $tag, $params, msg(e)));
        }
        if let Err(e) = catch_unwind(AssertUnwindSafe(|| poulpy_hal::test_suite::vec_znx::test_vec_znx_sub_negate_assign(&$params, &$mr, &$mt))) {
            $fails.push(format!("{} vec_znx::test_vec_znx_sub_negate_assign {:?}: {}", $tag, $params, msg(e)));
        }
        if let Err(e) = catch_unwind(AssertUnwindSafe(|| poulpy_hal::test_suite::vec_znx::test_vec_znx_switch_ring(&$params, &$mr, &$mt))) {
            $fails.push(format!("{} vec_znx::test_vec_znx_switch_ring {:?}: {}", $tag, $params, msg(e)));
        }
        if let Err(e) = catch_unwind(AssertUnwindSafe(|| poulpy_hal::test_suite::vec_znx_big::test_vec_znx_big_add_into(&$params, &$mr, &$mt))) {
            $fails.push(format!("{} vec_znx_big::test_vec_znx_big_add_into {:?}: {}", $tag, $params, msg(e)));
        }
        if let Err(e) = catch_unwind(AssertUnwindSafe(|| poulpy_hal::test_suite::vec_znx_big::test_vec_znx_big_add_assign(&$params, &$mr, &$mt))) {
            $fails.push(format!("{} vec_znx_big::test_vec_znx_big_add_assign {:?}: {}", $tag, $params, msg(e)));
        }
        if let Err(e) = catch_unwind(AssertUnwindSafe(|| poulpy_hal::test_suite::vec_znx_big::test_vec_znx_big_add_small_into(&$params, &$mr, &$mt))) {
            $fails.push(format!("{} vec_znx_big::test_vec_znx_big_add_small_into {:?}: {}", $tag, $params, msg(e)));
        }
        if let Err(e) = catch_unwind(AssertUnwindSafe(|| poulpy_hal::test_suite::vec_znx_big::test_vec_znx_big_add_small_assign(&$params, &$mr, &$mt))) {
            $fails.push(format!("{} vec_znx_big::test_vec_znx_big_add_small_assign {:?}: {}", $tag, $params, msg(e)));
        }
        if let Err(e) = catch_unwind(AssertUnwindSafe(|| poulpy_hal::test_suite::vec_znx_big::test_vec_znx_big_automorphism(&$params, &$mr, &$mt))) {
            $fails.push(format!("{} vec_znx_big::test_vec_znx_big_automorphism {:?}: {}", $tag, $params, msg(e)));
        }
        if let Err(e) = catch_unwind(AssertUnwindSafe(|| poulpy_hal::test_suite::vec_znx_big::test_vec_znx_big_automorphism_assign(&$params, &$mr, &$mt))) {
            $fails.push(format!("{} vec_znx_big::test_vec_znx_big_automorphism_assign {:?}: {}", $tag, $params, msg(e)));
        }
        if let Err(e) = catch_unwind(AssertUnwindSafe(|| poulpy_hal::test_suite::vec_znx_big::test_vec_znx_big_negate(&$params, &$mr, &$mt))) {
            $fails.push(format!("{} vec_znx_big::test_vec_znx_big_negate {:?}: {}", $tag, $params, msg(e)));
        }
        if let Err(e) = catch_unwind(AssertUnwindSafe(|| poulpy_hal::test_suite::vec_znx_big::test_vec_znx_big_negate_assign(&$params, &$mr, &$mt))) {
            $fails.push(format!("{} vec_znx_big::test_vec_znx_big_negate_assign {:?}: {}", $tag, $params, msg(e)));
        }
        if let Err(e) = catch_unwind(AssertUnwindSafe(|| poulpy_hal::test_suite::vec_znx_big::test_vec_znx_big_normalize(&$params, &$mr, &$mt))) {
            $fails.push(format!("{} vec_znx_big::test_vec_znx_big_normalize {:?}: {}", $tag, $params, msg(e)));
        }
        if let Err(e) = catch_unwind(AssertUnwindSafe(|| poulpy_hal::test_suite::vec_znx_big::test_vec_znx_big_normalize_fused(&$params, &$mr, &$mt))) {
            $fails.push(format!("{} vec_znx_big::test_vec_znx_big_normalize_fused {:?}: {}", $tag, $params, msg(e)));
        }
        if let Err(e) = catch_unwind(AssertUnwindSafe(|| poulpy_hal::test_suite::vec_znx_big::test_vec_znx_big_sub(&$params, &$mr, &$mt))) {
            $fails.push(format!("{} vec_znx_big::test_vec_znx_big_sub {:?}: {}", $tag, $params, msg(e)));
        }
        if let Err(e) = catch_unwind(AssertUnwindSafe(|| poulpy_hal::test_suite::vec_znx_big::test_vec_znx_big_sub_assign(&$params, &$mr, &$mt))) {
            $fails.push(format!("{} vec_znx_big::test_vec_znx_big_sub_assign {:?}: {}", $tag, $params, msg(e)));
        }
        if let Err(e) = catch_unwind(AssertUnwindSafe(|| poulpy_hal::test_suite::vec_znx_big::test_vec_znx_big_sub_negate_assign(&$params, &$mr, &$mt))) {
            $fails.push(format!("{} vec_znx_big::test_vec_znx_big_sub_negate_assign {:?}: {}", $tag, $params, msg(e)));
        }
        if let Err(e) = catch_unwind(AssertUnwindSafe(|| poulpy_hal::test_suite::vec_znx_big::test_vec_znx_big_sub_small_a(&$params, &$mr, &$mt))) {
            $fails.push(format!("{} vec_znx_big::test_vec_znx_big_sub_small_a {:?}: {}", $tag, $params, msg(e)));
        }
        if let Err(e) = catch_unwind(AssertUnwindSafe(|| poulpy_hal::test_suite::vec_znx_big::test_vec_znx_big_sub_small_b(&$params, &$mr, &$mt))) {
            $fails.push(format!("{} vec_znx_big::test_vec_znx_big_sub_small_b {:?}: {}", $tag, $params, msg(e)));
        }
        if let Err(e) = catch_unwind(AssertUnwindSafe(|| poulpy_hal::test_suite::vec_znx_big::test_vec_znx_big_sub_small_a_assign(&$params, &$mr, &$mt))) {
            $fails.push(format!("{} vec_znx_big::test_vec_znx_big_sub_small_a_assign {:?}: {}", $tag, $params, msg(e)));
        }
        if let Err(e) = catch_unwind(AssertUnwindSafe(|| poulpy_hal::test_suite::vec_znx_big::test_vec_znx_big_sub_small_b_assign(&$params, &$mr, &$mt))) {
            $fails.push(format!("{} vec_znx_big::test_vec_znx_big_sub_small_b_assign {:?}: {}", $tag, $params, msg(e)));
        }
        if let Err(e) = catch_unwind(AssertUnwindSafe(|| poulpy_hal::test_suite::vec_znx_dft::test_vec_znx_dft_add_into(&$params, &$mr, &$mt))) {
            $fails.push(format!("{} vec_znx_dft::test_vec_znx_dft_add_into {:?}: {}", $tag, $params, msg(e)));
        }
        if let Err(e) = catch_unwind(AssertUnwindSafe(|| poulpy_hal::test_suite::vec_znx_dft::test_vec_znx_dft_add_assign(&$params, &$mr, &$mt))) {
            $fails.push(format!("{} vec_znx_dft::test_vec_znx_dft_add_assign {:?}: {}", $tag, $params, msg(e)));
        }
        if let Err(e) = catch_unwind(AssertUnwindSafe(|| poulpy_hal::test_suite::vec_znx_dft::test_vec_znx_copy(&$params, &$mr, &$mt))) {
            $fails.push(format!("{} vec_znx_dft::test_vec_znx_copy {:?}: {}", $tag, $params, msg(e)));
        }
        if let Err(e) = catch_unwind(AssertUnwindSafe(|| poulpy_hal::test_suite::vec_znx_dft::test_vec_znx_idft_apply(&$params, &$mr, &$mt))) {
            $fails.push(format!("{} vec_znx_dft::test_vec_znx_idft_apply {:?}: {}", $tag, $params, msg(e)));
        }
        if let Err(e) = catch_unwind(AssertUnwindSafe(|| poulpy_hal::test_suite::vec_znx_dft::test_vec_znx_idft_apply_tmpa(&$params, &$mr, &$mt))) {
            $fails.push(format!("{} vec_znx_dft::test_vec_znx_idft_apply_tmpa {:?}: {}", $tag, $params, msg(e)));
        }
        if let Err(e) = catch_unwind(AssertUnwindSafe(|| poulpy_hal::test_suite::vec_znx_dft::test_vec_znx_idft_apply_consume(&$params, &$mr, &$mt))) {
            $fails.push(format!("{} vec_znx_dft::test_vec_znx_idft_apply_consume {:?}: {}", $tag, $params, msg(e)));
        }
        if let Err(e) = catch_unwind(AssertUnwindSafe(|| poulpy_hal::test_suite::vec_znx_dft::test_vec_znx_dft_sub(&$params, &$mr, &$mt))) {
            $fails.push(format!("{} vec_znx_dft::test_vec_znx_dft_sub {:?}: {}", $tag, $params, msg(e)));
        }
        if let Err(e) = catch_unwind(AssertUnwindSafe(|| poulpy_hal::test_suite::vec_znx_dft::test_vec_znx_dft_sub_assign(&$params, &$mr, &$mt))) {
            $fails.push(format!("{} vec_znx_dft::test_vec_znx_dft_sub_assign {:?}: {}", $tag, $params, msg(e)));
        }
        if let Err(e) = catch_unwind(AssertUnwindSafe(|| poulpy_hal::test_suite::vec_znx_dft::test_vec_znx_dft_sub_negate_assign(&$params, &$mr, &$mt))) {
            $fails.push(format!("{} vec_znx_dft::test_vec_znx_dft_sub_negate_assign {:?}: {}", $tag, $params, msg(e)));
        }
        if let Err(e) = catch_unwind(AssertUnwindSafe(|| poulpy_hal::test_suite::svp::test_svp_apply_dft(&$params, &$mr, &$mt))) {
            $fails.push(format!("{} svp::test_svp_apply_dft {:?}: {}", $tag, $params, msg(e)));
        }
        if let Err(e) = catch_unwind(AssertUnwindSafe(|| poulpy_hal::test_suite::svp::test_svp_apply_dft_to_dft(&$params, &$mr, &$mt))) {
            $fails.push(format!("{} svp::test_svp_apply_dft_to_dft {:?}: {}", $tag, $params, msg(e)));
        }
        if let Err(e) = catch_unwind(AssertUnwindSafe(|| poulpy_hal::test_suite::svp::test_svp_apply_dft_to_dft_assign(&$params, &$mr, &$mt))) {
            $fails.push(format!("{} svp::test_svp_apply_dft_to_dft_assign {:?}: {}", $tag, $params, msg(e)));
        }
        if let Err(e) = catch_unwind(AssertUnwindSafe(|| poulpy_hal::test_suite::vmp::test_vmp_apply_dft(&$params, &$mr, &$mt))) {
            $fails.push(format!("{} vmp::test_vmp_apply_dft {:?}: {}", $tag, $params, msg(e)));
        }
        if let Err(e) = catch_unwind(AssertUnwindSafe(|| poulpy_hal::test_suite::vmp::test_vmp_apply_dft_to_dft(&$params, &$mr, &$mt))) {
            $fails.push(format!("{} vmp::test_vmp_apply_dft_to_dft {:?}: {}", $tag, $params, msg(e)));
        }
    }};
}

/// N < 8 is excluded here: FFT64 vmp asserts n >= 8, FFT64 with N = 1 panics in the FFT tables, the suite's
/// split/switch-ring tests divide by n/2, and for N <= 2 the suite's `assert_eq!(res_ref, res_test)` compares the
/// 64-byte allocation padding that it has itself filled with different garbage (derived `PartialEq` on `VecZnx`).
/// Small N is covered by `c10_hal_trace.rs` instead.
fn sizes() -> Vec<usize> {
    vec![8, 16, 32, 64]
}

#[test]
fn suite_fft64_ref_vs_avx_small_n() {
    std::panic::set_hook(Box::new(|_| {}));
    let mut fails: Vec<String> = vec![];
    for n in sizes() {
        let mr = Module::<FFT64Ref>::new(n as u64);
        let mt = Module::<FFT64Avx>::new(n as u64);
        for base2k in [7usize, 12, 17] {
            let p = TestParams { size: n, base2k };
            run_all!(fails, "fft64ref/fft64avx", p, mr, mt);
        }
    }
    for f in &fails {
        eprintln!("{f}");
    }
    assert!(fails.is_empty(), "{} failures", fails.len());
}

#[test]
fn suite_ntt120_ref_vs_avx_small_n() {
    std::panic::set_hook(Box::new(|_| {}));
    let mut fails: Vec<String> = vec![];
    for n in sizes() {
        let mr = Module::<NTT120Ref>::new(n as u64);
        let mt = Module::<NTT120Avx>::new(n as u64);
        for base2k in [7usize, 12, 31, 50, 52] {
            let p = TestParams { size: n, base2k };
            run_all!(fails, "ntt120ref/ntt120avx", p, mr, mt);
        }
    }
    for f in &fails {
        eprintln!("{f}");
    }
    assert!(fails.is_empty(), "{} failures", fails.len());
}

#[test]
fn suite_cross_family_small_n() {
    std::panic::set_hook(Box::new(|_| {}));
    let mut fails: Vec<String> = vec![];
    for n in sizes() {
        let f_ref = Module::<FFT64Ref>::new(n as u64);
        let f_avx = Module::<FFT64Avx>::new(n as u64);
        let n_ref = Module::<NTT120Ref>::new(n as u64);
        let n_avx = Module::<NTT120Avx>::new(n as u64);
        for base2k in [7usize, 12, 17] {
            let p = TestParams { size: n, base2k };
            run_all!(fails, "fft64ref/ntt120ref", p, f_ref, n_ref);
            run_all!(fails, "fft64avx/ntt120avx", p, f_avx, n_avx);
        }
    }
    for f in &fails {
        eprintln!("{f}");
    }
    assert!(fails.is_empty(), "{} failures", fails.len());
}
