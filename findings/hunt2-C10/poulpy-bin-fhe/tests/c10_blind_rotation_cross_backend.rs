//! C10 second-pass audit: the CGGI blind-rotation pipeline (key generation, LWE encryption, LUT,
//! blind rotation, decryption) under identical seeds on FFT64Ref / FFT64Avx / NTT120Ref / NTT120Avx.
//! Every key, ciphertext and decryption is serialised and compared byte-for-byte.
//!
//!   RUSTFLAGS="-C target-feature=+avx2,+fma" cargo test --offline --release -p poulpy-bin-fhe \
//!       --features enable-avx --test c10_blind_rotation_cross_backend -- --nocapture
#![cfg(feature = "enable-avx")]

use poulpy_bin_fhe::blind_rotation::{
    BlindRotationAlgo, BlindRotationExecute, BlindRotationKey, BlindRotationKeyEncryptSk, BlindRotationKeyLayout,
    BlindRotationKeyPrepared, BlindRotationKeyPreparedFactory, CGGI, LookUpTableLayout, LookupTable, LookupTableFactory,
};
use poulpy_core::{
    EncryptionLayout, GLWEDecrypt, LWEEncryptSk, ScratchTakeCore,
    layouts::{
        GLWE, GLWELayout, GLWEPlaintext, GLWESecret, GLWESecretPreparedFactory, LWE, LWELayout, LWEPlaintext, LWESecret,
        prepared::GLWESecretPrepared,
    },
};
use poulpy_cpu_avx::{FFT64Avx, NTT120Avx};
use poulpy_cpu_ref::{FFT64Ref, NTT120Ref};
use poulpy_hal::{
    api::{ModuleN, ModuleNew, ScratchOwnedAlloc, ScratchOwnedBorrow},
    layouts::{Backend, DeviceBuf, Module, Scratch, ScratchOwned, WriterTo},
    source::Source,
};

type Trace = Vec<(String, Vec<u8>)>;

fn ser<T: WriterTo>(x: &T) -> Vec<u8> {
    let mut v = Vec::new();
    x.write_to(&mut v).unwrap();
    v
}

fn prog<BRA: BlindRotationAlgo, M, BE: Backend>(module: &M, n_lwe: usize, block_size: usize, extension_factor: usize, msg: i64) -> Trace
where
    M: ModuleN
        + BlindRotationKeyEncryptSk<BRA, BE>
        + BlindRotationKeyPreparedFactory<BRA, BE>
        + BlindRotationExecute<BRA, BE>
        + LookupTableFactory
        + GLWESecretPreparedFactory<BE>
        + GLWEDecrypt<BE>
        + LWEEncryptSk<BE>,
    ScratchOwned<BE>: ScratchOwnedAlloc<BE> + ScratchOwnedBorrow<BE>,
    Scratch<BE>: ScratchTakeCore<BE>,
    BlindRotationKey<Vec<u8>, BRA>: WriterTo,
{
    let mut tr: Trace = vec![];
    let n_glwe: usize = module.n();
    let base2k: usize = 19;
    let k_lwe: usize = 24;
    let k_brk: usize = 3 * base2k;
    let rows_brk: usize = 2;
    let k_lut: usize = base2k;
    let k_res: usize = 2 * base2k;
    let rank: usize = 1;
    let log_message_modulus: usize = 4;
    let message_modulus: usize = 1 << log_message_modulus;

    let mut source_xs: Source = Source::new([2u8; 32]);
    let mut source_xe: Source = Source::new([2u8; 32]);
    let mut source_xa: Source = Source::new([1u8; 32]);

    let brk_infos = EncryptionLayout::new_from_default_sigma(BlindRotationKeyLayout {
        n_glwe: n_glwe.into(),
        n_lwe: n_lwe.into(),
        base2k: base2k.into(),
        k: k_brk.into(),
        dnum: rows_brk.into(),
        rank: rank.into(),
    })
    .unwrap();
    let glwe_infos = EncryptionLayout::new_from_default_sigma(GLWELayout {
        n: n_glwe.into(),
        base2k: base2k.into(),
        k: k_res.into(),
        rank: rank.into(),
    })
    .unwrap();
    let lwe_infos = EncryptionLayout::new_from_default_sigma(LWELayout {
        n: n_lwe.into(),
        k: k_lwe.into(),
        base2k: base2k.into(),
    })
    .unwrap();

    let mut scratch: ScratchOwned<BE> = ScratchOwned::<BE>::alloc(BlindRotationKey::encrypt_sk_tmp_bytes(module, &brk_infos) | (1 << 16));

    let mut sk_glwe: GLWESecret<Vec<u8>> = GLWESecret::alloc_from_infos(&glwe_infos);
    sk_glwe.fill_ternary_prob(0.5, &mut source_xs);
    let mut sk_glwe_dft: GLWESecretPrepared<DeviceBuf<BE>, BE> = module.glwe_secret_prepared_alloc_from_infos(&glwe_infos);
    module.glwe_secret_prepare(&mut sk_glwe_dft, &sk_glwe);

    let mut sk_lwe: LWESecret<Vec<u8>> = LWESecret::alloc(n_lwe.into());
    sk_lwe.fill_binary_block(block_size, &mut source_xs);

    let mut scratch_br: ScratchOwned<BE> = ScratchOwned::<BE>::alloc(BlindRotationKeyPrepared::execute_tmp_bytes(
        module,
        block_size,
        extension_factor,
        &glwe_infos,
        &brk_infos,
    ));

    let mut brk: BlindRotationKey<Vec<u8>, BRA> = BlindRotationKey::<Vec<u8>, BRA>::alloc(&brk_infos);
    module.blind_rotation_key_encrypt_sk(&mut brk, &sk_glwe_dft, &sk_lwe, &brk_infos, &mut source_xe, &mut source_xa, scratch.borrow());
    tr.push(("brk".into(), ser(&brk)));

    let mut lwe: LWE<Vec<u8>> = LWE::alloc_from_infos(&lwe_infos);
    let mut pt_lwe: LWEPlaintext<Vec<u8>> = LWEPlaintext::alloc_from_infos(&lwe_infos);
    pt_lwe.encode_i64(msg % (message_modulus as i64), (log_message_modulus + 1).into());
    module.lwe_encrypt_sk(&mut lwe, &pt_lwe, &sk_lwe, &lwe_infos, &mut source_xe, &mut source_xa, scratch.borrow());
    tr.push(("lwe".into(), ser(&lwe)));

    let f = |x: i64| -> i64 { 2 * x + 1 };
    let mut f_vec: Vec<i64> = vec![0i64; message_modulus];
    f_vec.iter_mut().enumerate().for_each(|(i, x)| *x = f(i as i64));
    let lut_infos = LookUpTableLayout {
        n: module.n().into(),
        extension_factor,
        k: k_lut.into(),
        base2k: base2k.into(),
    };
    let mut lut: LookupTable = LookupTable::alloc(&lut_infos);
    lut.set(module, &f_vec, log_message_modulus + 1);

    let mut res: GLWE<Vec<u8>> = GLWE::alloc_from_infos(&glwe_infos);
    let mut brk_prepared: BlindRotationKeyPrepared<DeviceBuf<BE>, BRA, BE> = BlindRotationKeyPrepared::alloc(module, &brk);
    brk_prepared.prepare(module, &brk, scratch_br.borrow());
    brk_prepared.execute(module, &mut res, &lwe, &lut, scratch_br.borrow());
    tr.push(("blind_rotation".into(), ser(&res)));

    let mut pt_have: GLWEPlaintext<Vec<u8>> = GLWEPlaintext::alloc_from_infos(&glwe_infos);
    module.glwe_decrypt(&res, &mut pt_have, &sk_glwe_dft, scratch.borrow());
    tr.push(("decrypt".into(), ser(&pt_have.data)));
    tr
}

fn cmp(tag: &str, a: &Trace, b: &Trace, fails: &mut Vec<String>) {
    assert_eq!(a.len(), b.len());
    for ((la, va), (_, vb)) in a.iter().zip(b.iter()) {
        if va != vb {
            let ndiff = va.iter().zip(vb.iter()).filter(|(x, y)| x != y).count();
            fails.push(format!("{tag}: [{la}] differs ({ndiff} of {} bytes)", va.len()));
        }
    }
}

#[test]
fn blind_rotation_all_backends() {
    let mut fails = vec![];
    for (n, n_lwe, block, ext) in [(64usize, 16usize, 1usize, 1usize), (256, 77, 7, 1), (512, 224, 7, 2), (128, 33, 3, 4), (32, 9, 3, 1)] {
        for msg in [3i64, 15] {
            let tag = format!("n{n} n_lwe{n_lwe} block{block} ext{ext} msg{msg}");
            let fr = prog::<CGGI, _, FFT64Ref>(&Module::<FFT64Ref>::new(n as u64), n_lwe, block, ext, msg);
            let fa = prog::<CGGI, _, FFT64Avx>(&Module::<FFT64Avx>::new(n as u64), n_lwe, block, ext, msg);
            let nr = prog::<CGGI, _, NTT120Ref>(&Module::<NTT120Ref>::new(n as u64), n_lwe, block, ext, msg);
            let na = prog::<CGGI, _, NTT120Avx>(&Module::<NTT120Avx>::new(n as u64), n_lwe, block, ext, msg);
            cmp(&format!("{tag} FFT64Ref|FFT64Avx"), &fr, &fa, &mut fails);
            cmp(&format!("{tag} NTT120Ref|NTT120Avx"), &nr, &na, &mut fails);
            cmp(&format!("{tag} FFT64Ref|NTT120Ref"), &fr, &nr, &mut fails);
        }
    }
    for f in &fails {
        eprintln!("{f}");
    }
    assert!(fails.is_empty(), "{} failures", fails.len());
}
