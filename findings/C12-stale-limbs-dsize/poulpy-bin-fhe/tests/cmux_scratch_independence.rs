//! Property check: `Cmux::{cmux, cmux_assign, cmux_assign_neg}` and `Cswap::cswap`
//! run on a scratch buffer of exactly `cmux_tmp_bytes` / `cswap_tmp_bytes` bytes must
//!   (a) not panic, and
//!   (b) produce a result that does not depend on the bytes the scratch held
//!       before the call,
//! for every digit-decomposition size `dsize` of the selector GGSW.
//!
//! `glwe_external_product` / `glwe_external_product_assign` are included as controls.
//!
//! Note: `cmux_assign_neg` carves one more GLWE temporary than `cmux_tmp_bytes`
//! accounts for; in-crate callers add `GLWE::bytes_of_from_infos(res)` on top, and so
//! does this test.

use poulpy_bin_fhe::bdd_arithmetic::{Cmux, Cswap};
use poulpy_core::{
    EncryptionLayout, GGSWEncryptSk, GLWEEncryptSk, GLWEExternalProduct, GLWENoise,
    layouts::{
        GGSW, GGSWLayout, GGSWPreparedFactory, GLWE, GLWELayout, GLWEPlaintext, GLWESecret, GLWESecretPreparedFactory,
        prepared::{GGSWPrepared, GLWESecretPrepared},
    },
};
use poulpy_cpu_ref::FFT64Ref as BE;
use poulpy_hal::{
    api::{ModuleNew, ScratchOwnedAlloc, ScratchOwnedBorrow, VecZnxFillUniform},
    layouts::{DeviceBuf, Module, ScalarZnx, ScratchOwned, ZnxView, ZnxViewMut},
    source::Source,
};

const N: usize = 64;

#[derive(Clone, Copy, Debug)]
enum Prior {
    Zero,
    F64(f64),
    Bits(u64),
    /// Word `i` holds a pseudo-random finite double of magnitude < 2^30.
    Noise,
}

fn fill_scratch(scratch: &mut ScratchOwned<BE>, prior: Prior) {
    let bytes: &mut [u8] = &mut scratch.borrow().data;
    bytes.chunks_exact_mut(8).enumerate().for_each(|(i, c)| {
        let word: [u8; 8] = match prior {
            Prior::Zero => [0u8; 8],
            Prior::F64(v) => v.to_le_bytes(),
            Prior::Bits(b) => b.to_le_bytes(),
            Prior::Noise => {
                let h: u64 = (i as u64 + 1).wrapping_mul(0x9E37_79B9_7F4A_7C15);
                (((h >> 33) as i64 - (1i64 << 30)) as f64).to_le_bytes()
            }
        };
        c.copy_from_slice(&word)
    });
}

const OPS: [&str; 7] = [
    "external_product (control)",
    "external_product_assign (control)",
    "cmux",
    "cmux_assign",
    "cmux_assign_neg",
    "cswap.a",
    "cswap.b",
];

struct Outcome {
    outs: Vec<Vec<i64>>,
    /// log2(std) of the noise of `cmux(t, f, s)` w.r.t. the plaintext of `t` (selector bit = 1).
    cmux_noise_log2: f64,
}

/// `glwe_base2k == key_base2k` is required by cmux*; cswap additionally supports a differing radix.
fn run(dsize: usize, rank: usize, glwe_base2k: usize, key_base2k: usize, full_k: bool, prior: Prior) -> Outcome {
    let module: Module<BE> = Module::<BE>::new(N as u64);

    let k_in: usize = 4 * glwe_base2k + 1;
    let k_ggsw: usize = k_in + key_base2k * dsize;
    let dnum: usize = k_in.div_ceil(key_base2k * dsize);
    let k_glwe: usize = if full_k { k_ggsw } else { k_in };

    let glwe_infos = EncryptionLayout::new_from_default_sigma(GLWELayout {
        n: N.into(),
        base2k: glwe_base2k.into(),
        k: k_glwe.into(),
        rank: rank.into(),
    })
    .unwrap();
    let ggsw_infos = EncryptionLayout::new_from_default_sigma(GGSWLayout {
        n: N.into(),
        base2k: key_base2k.into(),
        k: k_ggsw.into(),
        dnum: dnum.into(),
        dsize: dsize.into(),
        rank: rank.into(),
    })
    .unwrap();

    let mut source_xs: Source = Source::new([0u8; 32]);
    let mut source_xe: Source = Source::new([1u8; 32]);
    let mut source_xa: Source = Source::new([2u8; 32]);

    let mut scratch_setup: ScratchOwned<BE> = ScratchOwned::alloc(
        module.ggsw_encrypt_sk_tmp_bytes(&ggsw_infos)
            | module.glwe_encrypt_sk_tmp_bytes(&glwe_infos)
            | module.glwe_noise_tmp_bytes(&glwe_infos)
            | module.ggsw_prepare_tmp_bytes(&ggsw_infos),
    );

    let mut sk: GLWESecret<Vec<u8>> = GLWESecret::alloc(N.into(), rank.into());
    sk.fill_ternary_prob(0.5, &mut source_xs);
    let mut sk_prepared: GLWESecretPrepared<DeviceBuf<BE>, BE> = module.glwe_secret_prepared_alloc(rank.into());
    module.glwe_secret_prepare(&mut sk_prepared, &sk);

    // Selector: GGSW encryption of the bit 1.
    let mut pt_s: ScalarZnx<Vec<u8>> = ScalarZnx::alloc(N, 1);
    pt_s.raw_mut()[0] = 1;
    let mut s: GGSW<Vec<u8>> = GGSW::alloc_from_infos(&ggsw_infos);
    module.ggsw_encrypt_sk(
        &mut s,
        &pt_s,
        &sk_prepared,
        &ggsw_infos,
        &mut source_xe,
        &mut source_xa,
        scratch_setup.borrow(),
    );
    let mut s_prepared: GGSWPrepared<DeviceBuf<BE>, BE> = module.ggsw_prepared_alloc_from_infos(&ggsw_infos);
    module.ggsw_prepare(&mut s_prepared, &s, scratch_setup.borrow());

    // Two GLWE inputs t, f.
    let mut pt_t: GLWEPlaintext<Vec<u8>> = GLWEPlaintext::alloc_from_infos(&glwe_infos);
    let mut pt_f: GLWEPlaintext<Vec<u8>> = GLWEPlaintext::alloc_from_infos(&glwe_infos);
    module.vec_znx_fill_uniform(glwe_base2k, &mut pt_t.data, 0, &mut source_xa);
    module.vec_znx_fill_uniform(glwe_base2k, &mut pt_f.data, 0, &mut source_xa);
    let mut t: GLWE<Vec<u8>> = GLWE::alloc_from_infos(&glwe_infos);
    let mut f: GLWE<Vec<u8>> = GLWE::alloc_from_infos(&glwe_infos);
    module.glwe_encrypt_sk(
        &mut t,
        &pt_t,
        &sk_prepared,
        &glwe_infos,
        &mut source_xe,
        &mut source_xa,
        scratch_setup.borrow(),
    );
    module.glwe_encrypt_sk(
        &mut f,
        &pt_f,
        &sk_prepared,
        &glwe_infos,
        &mut source_xe,
        &mut source_xa,
        scratch_setup.borrow(),
    );

    let same_radix: bool = glwe_base2k == key_base2k;
    let glwe_bytes: usize = GLWE::<Vec<u8>>::bytes_of_from_infos(&glwe_infos);

    let mut outs: Vec<Vec<i64>> = Vec::new();
    let mut cmux_noise_log2: f64 = f64::NAN;

    let clone_of = |x: &GLWE<Vec<u8>>| -> GLWE<Vec<u8>> {
        let mut y: GLWE<Vec<u8>> = GLWE::alloc_from_infos(&glwe_infos);
        y.data_mut().raw_mut().copy_from_slice(x.data().raw());
        y
    };

    // 0: external_product (control)
    {
        let mut scratch: ScratchOwned<BE> =
            ScratchOwned::alloc(module.glwe_external_product_tmp_bytes(&glwe_infos, &glwe_infos, &ggsw_infos));
        fill_scratch(&mut scratch, prior);
        let mut res: GLWE<Vec<u8>> = GLWE::alloc_from_infos(&glwe_infos);
        module.glwe_external_product(&mut res, &t, &s_prepared, scratch.borrow());
        outs.push(res.data().raw().to_vec());
    }
    // 1: external_product_assign (control)
    {
        let mut scratch: ScratchOwned<BE> =
            ScratchOwned::alloc(module.glwe_external_product_tmp_bytes(&glwe_infos, &glwe_infos, &ggsw_infos));
        fill_scratch(&mut scratch, prior);
        let mut res: GLWE<Vec<u8>> = clone_of(&t);
        module.glwe_external_product_assign(&mut res, &s_prepared, scratch.borrow());
        outs.push(res.data().raw().to_vec());
    }

    if same_radix {
        let cmux_bytes: usize = module.cmux_tmp_bytes(&glwe_infos, &glwe_infos, &ggsw_infos);
        // 2: cmux
        {
            let mut scratch: ScratchOwned<BE> = ScratchOwned::alloc(cmux_bytes);
            fill_scratch(&mut scratch, prior);
            let mut res: GLWE<Vec<u8>> = GLWE::alloc_from_infos(&glwe_infos);
            module.cmux(&mut res, &t, &f, &s_prepared, scratch.borrow());
            cmux_noise_log2 = module
                .glwe_noise(&res, &pt_t, &sk_prepared, scratch_setup.borrow())
                .std()
                .log2();
            outs.push(res.data().raw().to_vec());
        }
        // 3: cmux_assign: res = (res - a) * s + a
        {
            let mut scratch: ScratchOwned<BE> = ScratchOwned::alloc(cmux_bytes);
            fill_scratch(&mut scratch, prior);
            let mut res: GLWE<Vec<u8>> = clone_of(&t);
            module.cmux_assign(&mut res, &f, &s_prepared, scratch.borrow());
            outs.push(res.data().raw().to_vec());
        }
        // 4: cmux_assign_neg: res = (a - res) * s + res
        {
            let mut scratch: ScratchOwned<BE> = ScratchOwned::alloc(cmux_bytes + glwe_bytes);
            fill_scratch(&mut scratch, prior);
            let mut res: GLWE<Vec<u8>> = clone_of(&f);
            module.cmux_assign_neg(&mut res, &t, &s_prepared, scratch.borrow());
            outs.push(res.data().raw().to_vec());
        }
    } else {
        outs.push(Vec::new());
        outs.push(Vec::new());
        outs.push(Vec::new());
    }

    // 5, 6: cswap
    {
        let mut scratch: ScratchOwned<BE> = ScratchOwned::alloc(module.cswap_tmp_bytes(&glwe_infos, &glwe_infos, &ggsw_infos));
        fill_scratch(&mut scratch, prior);
        let mut a: GLWE<Vec<u8>> = clone_of(&t);
        let mut b: GLWE<Vec<u8>> = clone_of(&f);
        module.cswap(&mut a, &mut b, &s_prepared, scratch.borrow());
        outs.push(a.data().raw().to_vec());
        outs.push(b.data().raw().to_vec());
    }

    Outcome { outs, cmux_noise_log2 }
}

fn run_caught(dsize: usize, rank: usize, glwe_base2k: usize, key_base2k: usize, full_k: bool, prior: Prior) -> Result<Outcome, String> {
    std::panic::catch_unwind(|| run(dsize, rank, glwe_base2k, key_base2k, full_k, prior)).map_err(|e| {
        e.downcast_ref::<String>()
            .cloned()
            .or_else(|| e.downcast_ref::<&str>().map(|s| s.to_string()))
            .unwrap_or_else(|| "<non-string panic>".to_string())
    })
}

fn check(dsize: usize, radices: &[(usize, usize)]) {
    let priors: [Prior; 6] = [
        Prior::F64(1.0),
        Prior::F64(1.0e9),
        Prior::F64(1.0e300),
        Prior::Noise,
        Prior::F64(f64::NAN),
        Prior::Bits(0xFFFF_FFFF_FFFF_FFFF),
    ];

    let mut failures: Vec<String> = Vec::new();

    for &(glwe_base2k, key_base2k) in radices {
        for rank in 1..=2 {
            for full_k in [true, false] {
                let cfg: String = format!(
                    "base2k=({glwe_base2k},{key_base2k}) rank={rank} glwe_k={} dsize={dsize}",
                    if full_k { "k_ggsw" } else { "k_in" }
                );
                let clean: Outcome = match run_caught(dsize, rank, glwe_base2k, key_base2k, full_k, Prior::Zero) {
                    Ok(o) => o,
                    Err(msg) => {
                        let line: String = format!("{cfg} prior=Zero: PANIC on a zeroed scratch: {msg}");
                        println!("{line}");
                        failures.push(line);
                        continue;
                    }
                };
                for p in priors {
                    let dirty: Outcome = match run_caught(dsize, rank, glwe_base2k, key_base2k, full_k, p) {
                        Ok(o) => o,
                        Err(msg) => {
                            let line: String = format!("{cfg} prior={p:?}: PANIC (no panic on a zeroed scratch): {msg}");
                            println!("{line}");
                            failures.push(line);
                            continue;
                        }
                    };
                    for (i, op) in OPS.iter().enumerate() {
                        if clean.outs[i].is_empty() {
                            continue;
                        }
                        let same: bool = clean.outs[i] == dirty.outs[i];
                        let ndiff: usize = clean.outs[i].iter().zip(dirty.outs[i].iter()).filter(|(a, b)| a != b).count();
                        let line: String = format!(
                            "{cfg} prior={p:?}: {op} identical={same} differing_words={ndiff}/{} \
                             (cmux noise_log2 clean={:.2} dirty={:.2})",
                            clean.outs[i].len(),
                            clean.cmux_noise_log2,
                            dirty.cmux_noise_log2
                        );
                        println!("{line}");
                        if !same {
                            failures.push(line);
                        }
                    }
                }
            }
        }
    }

    assert!(
        failures.is_empty(),
        "cmux/cswap result depends on the prior contents of the scratch buffer ({} cases):\n{}",
        failures.len(),
        failures.join("\n")
    );
}

#[test]
fn cmux_cswap_scratch_independent_dsize_1() {
    check(1, &[(17, 17)]);
}

#[test]
fn cmux_cswap_scratch_independent_dsize_2() {
    check(2, &[(17, 17)]);
}

#[test]
fn cmux_cswap_scratch_independent_dsize_3() {
    check(3, &[(17, 17)]);
}

#[test]
fn cmux_cswap_scratch_independent_dsize_4() {
    check(4, &[(17, 17)]);
}

/// Separate observation (not a scratch-contents issue): the cross-radix branch of `cswap`
/// (`res.base2k() != s.base2k()`) panics on any input because it calls
/// `glwe_sub(&mut tmp_c, res_b, res_a)` with the un-converted operands.
#[test]
#[ignore = "cswap cross-radix branch panics in glwe_sub regardless of scratch contents"]
fn cswap_cross_radix_scratch_independent_dsize_3() {
    check(3, &[(16, 17)]);
}
