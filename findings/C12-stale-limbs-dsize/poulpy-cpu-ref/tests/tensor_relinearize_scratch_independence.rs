//! Property check: `glwe_tensor_relinearize` run on a scratch buffer of exactly
//! `glwe_tensor_relinearize_tmp_bytes` bytes must
//!   (a) not panic, and
//!   (b) produce a result that does not depend on the bytes the scratch held
//!       before the call,
//! for every digit-decomposition size `dsize` admitted by the tensor-key layout.

use poulpy_core::{
    EncryptionLayout, GLWEEncryptSk, GLWETensorKeyEncryptSk, GLWETensoring,
    layouts::{
        GLWE, GLWELayout, GLWEPlaintext, GLWESecret, GLWESecretPreparedFactory, GLWETensor, GLWETensorKey, GLWETensorKeyLayout,
        GLWETensorKeyPrepared, GLWETensorKeyPreparedFactory, LWEInfos, prepared::GLWESecretPrepared,
    },
};
use poulpy_cpu_ref::FFT64Ref as BE;
use poulpy_hal::{
    api::{ModuleNew, ScratchOwnedAlloc, ScratchOwnedBorrow, VecZnxFillUniform},
    layouts::{DeviceBuf, Module, ScratchOwned, ZnxView},
    source::Source,
};

const N: usize = 64;

#[derive(Clone, Copy, Debug)]
enum Prior {
    Zero,
    F64(f64),
    Bits(u64),
    /// Word `i` holds a pseudo-random finite double of magnitude < 2^30.
    Noise,
}

fn fill_scratch(scratch: &mut ScratchOwned<BE>, prior: Prior) {
    let bytes: &mut [u8] = &mut scratch.borrow().data;
    bytes.chunks_exact_mut(8).enumerate().for_each(|(i, c)| {
        let word: [u8; 8] = match prior {
            Prior::Zero => [0u8; 8],
            Prior::F64(v) => v.to_le_bytes(),
            Prior::Bits(b) => b.to_le_bytes(),
            Prior::Noise => {
                let h: u64 = (i as u64 + 1).wrapping_mul(0x9E37_79B9_7F4A_7C15);
                (((h >> 33) as i64 - (1i64 << 30)) as f64).to_le_bytes()
            }
        };
        c.copy_from_slice(&word)
    });
}

fn run(dsize: usize, rank: usize, in_base2k: usize, tsk_base2k: usize, out_base2k: usize, prior: Prior) -> Vec<i64> {
    let module: Module<BE> = Module::<BE>::new(N as u64);

    let k: usize = 4 * tsk_base2k + 1;
    let k_tsk: usize = k + tsk_base2k * dsize;
    let dnum: usize = k.div_ceil(tsk_base2k * dsize);

    let glwe_in_infos = EncryptionLayout::new_from_default_sigma(GLWELayout {
        n: N.into(),
        base2k: in_base2k.into(),
        k: k.into(),
        rank: rank.into(),
    })
    .unwrap();
    // Output precision = key precision so that every limb of the product reaches the output.
    let glwe_out_infos: GLWELayout = GLWELayout {
        n: N.into(),
        base2k: out_base2k.into(),
        k: k_tsk.into(),
        rank: rank.into(),
    };
    let tsk_infos = EncryptionLayout::new_from_default_sigma(GLWETensorKeyLayout {
        n: N.into(),
        base2k: tsk_base2k.into(),
        k: k_tsk.into(),
        rank: rank.into(),
        dnum: dnum.into(),
        dsize: dsize.into(),
    })
    .unwrap();

    let mut a: GLWE<Vec<u8>> = GLWE::alloc_from_infos(&glwe_in_infos);
    let mut b: GLWE<Vec<u8>> = GLWE::alloc_from_infos(&glwe_in_infos);
    let mut res_tensor: GLWETensor<Vec<u8>> = GLWETensor::alloc_from_infos(&glwe_out_infos);
    let mut res_relin: GLWE<Vec<u8>> = GLWE::alloc_from_infos(&glwe_out_infos);
    let mut pt_in: GLWEPlaintext<Vec<u8>> = GLWEPlaintext::alloc_from_infos(&glwe_in_infos);

    let mut scratch_setup: ScratchOwned<BE> = ScratchOwned::alloc(
        module
            .glwe_encrypt_sk_tmp_bytes(&glwe_in_infos)
            .max(module.glwe_tensor_apply_tmp_bytes(&res_tensor, &a, &b))
            .max(module.glwe_tensor_key_encrypt_sk_tmp_bytes(&tsk_infos))
            .max(module.prepare_tensor_key_tmp_bytes(&tsk_infos)),
    );

    let mut source_xs: Source = Source::new([0u8; 32]);
    let mut source_xe: Source = Source::new([1u8; 32]);
    let mut source_xa: Source = Source::new([2u8; 32]);

    let mut sk: GLWESecret<Vec<u8>> = GLWESecret::alloc(N.into(), rank.into());
    sk.fill_ternary_prob(0.5, &mut source_xs);
    let mut sk_dft: GLWESecretPrepared<DeviceBuf<BE>, BE> = module.glwe_secret_prepared_alloc_from_infos(&sk);
    module.glwe_secret_prepare(&mut sk_dft, &sk);

    let mut tsk: GLWETensorKey<Vec<u8>> = GLWETensorKey::alloc_from_infos(&tsk_infos);
    module.glwe_tensor_key_encrypt_sk(
        &mut tsk,
        &sk,
        &tsk_infos,
        &mut source_xe,
        &mut source_xa,
        scratch_setup.borrow(),
    );
    let mut tsk_prep: GLWETensorKeyPrepared<DeviceBuf<BE>, BE> = module.alloc_tensor_key_prepared_from_infos(&tsk_infos);
    module.prepare_tensor_key(&mut tsk_prep, &tsk, scratch_setup.borrow());

    module.vec_znx_fill_uniform(in_base2k, &mut pt_in.data, 0, &mut source_xa);
    module.glwe_encrypt_sk(
        &mut a,
        &pt_in,
        &sk_dft,
        &glwe_in_infos,
        &mut source_xe,
        &mut source_xa,
        scratch_setup.borrow(),
    );
    module.glwe_encrypt_sk(
        &mut b,
        &pt_in,
        &sk_dft,
        &glwe_in_infos,
        &mut source_xe,
        &mut source_xa,
        scratch_setup.borrow(),
    );

    module.glwe_tensor_apply(
        2 * in_base2k,
        &mut res_tensor,
        &a,
        a.max_k().as_usize(),
        &b,
        b.max_k().as_usize(),
        scratch_setup.borrow(),
    );

    // --- relinearization on an exactly-sized scratch with chosen prior contents ---
    let mut scratch: ScratchOwned<BE> =
        ScratchOwned::alloc(module.glwe_tensor_relinearize_tmp_bytes(&res_relin, &res_tensor, &tsk_infos));
    fill_scratch(&mut scratch, prior);
    module.glwe_tensor_relinearize(&mut res_relin, &res_tensor, &tsk_prep, tsk_prep.size(), scratch.borrow());

    res_relin.data().raw().to_vec()
}

fn run_caught(
    dsize: usize,
    rank: usize,
    in_base2k: usize,
    tsk_base2k: usize,
    out_base2k: usize,
    prior: Prior,
) -> Result<Vec<i64>, String> {
    std::panic::catch_unwind(|| run(dsize, rank, in_base2k, tsk_base2k, out_base2k, prior)).map_err(|e| {
        e.downcast_ref::<String>()
            .cloned()
            .or_else(|| e.downcast_ref::<&str>().map(|s| s.to_string()))
            .unwrap_or_else(|| "<non-string panic>".to_string())
    })
}

fn check(dsize: usize) {
    let radices: [(usize, usize, usize); 2] = [(17, 17, 17), (16, 17, 15)];
    let priors: [Prior; 6] = [
        Prior::F64(1.0),
        Prior::F64(1.0e9),
        Prior::F64(1.0e300),
        Prior::Noise,
        Prior::F64(f64::NAN),
        Prior::Bits(0xFFFF_FFFF_FFFF_FFFF),
    ];

    let mut failures: Vec<String> = Vec::new();

    for (in_base2k, tsk_base2k, out_base2k) in radices {
        for rank in 1..=2 {
            let cfg: String = format!("base2k=({in_base2k},{tsk_base2k},{out_base2k}) rank={rank} dsize={dsize}");
            let clean: Vec<i64> = match run_caught(dsize, rank, in_base2k, tsk_base2k, out_base2k, Prior::Zero) {
                Ok(o) => o,
                Err(msg) => {
                    let line: String = format!("{cfg} prior=Zero: PANIC on a zeroed scratch: {msg}");
                    println!("{line}");
                    failures.push(line);
                    continue;
                }
            };
            for p in priors {
                let dirty: Vec<i64> = match run_caught(dsize, rank, in_base2k, tsk_base2k, out_base2k, p) {
                    Ok(o) => o,
                    Err(msg) => {
                        let line: String = format!("{cfg} prior={p:?}: PANIC (no panic on a zeroed scratch): {msg}");
                        println!("{line}");
                        failures.push(line);
                        continue;
                    }
                };
                let same: bool = clean == dirty;
                let ndiff: usize = clean.iter().zip(dirty.iter()).filter(|(a, b)| a != b).count();
                let line: String = format!(
                    "{cfg} prior={p:?}: tensor_relinearize identical={same} differing_words={ndiff}/{}",
                    clean.len()
                );
                println!("{line}");
                if !same {
                    failures.push(line);
                }
            }
        }
    }

    assert!(
        failures.is_empty(),
        "glwe_tensor_relinearize result depends on the prior contents of the scratch buffer ({} cases):\n{}",
        failures.len(),
        failures.join("\n")
    );
}

#[test]
fn glwe_tensor_relinearize_scratch_independent_dsize_1() {
    check(1);
}

#[test]
fn glwe_tensor_relinearize_scratch_independent_dsize_2() {
    check(2);
}

#[test]
fn glwe_tensor_relinearize_scratch_independent_dsize_3() {
    check(3);
}

#[test]
fn glwe_tensor_relinearize_scratch_independent_dsize_4() {
    check(4);
}
