//! Property check: the fused automorphism operations
//!   `glwe_automorphism_add`, `glwe_automorphism_add_assign`,
//!   `glwe_automorphism_sub`, `glwe_automorphism_sub_assign`,
//!   `glwe_automorphism_sub_negate`, `glwe_automorphism_sub_negate_assign`
//! run on a scratch buffer of exactly `glwe_automorphism_tmp_bytes` bytes must
//!   (a) not panic, and
//!   (b) produce a result that does not depend on the bytes the scratch held
//!       before the call,
//! for every digit-decomposition size `dsize` admitted by the key layout.
//!
//! `glwe_automorphism` / `glwe_automorphism_assign` (which go through
//! `glwe_keyswitch`) are included as controls.

use poulpy_core::{
    EncryptionLayout, GLWEAutomorphism, GLWEAutomorphismKeyEncryptSk, GLWEEncryptSk, GLWENoise, GLWENormalize,
    layouts::{
        GLWE, GLWEAutomorphismKey, GLWEAutomorphismKeyLayout, GLWEAutomorphismKeyPreparedFactory, GLWELayout, GLWEPlaintext,
        GLWESecret, GLWESecretPreparedFactory,
        prepared::{GLWEAutomorphismKeyPrepared, GLWESecretPrepared},
    },
};
use poulpy_cpu_ref::FFT64Ref as BE;
use poulpy_hal::{
    api::{ModuleNew, ScratchOwnedAlloc, ScratchOwnedBorrow, VecZnxAddAssign, VecZnxAutomorphismAssign, VecZnxFillUniform},
    layouts::{DeviceBuf, Module, ScratchOwned, ZnxView},
    source::Source,
};

const N: usize = 64;
const P: i64 = -5;

#[derive(Clone, Copy, Debug)]
enum Prior {
    Zero,
    F64(f64),
    Bits(u64),
    /// Word `i` holds a pseudo-random finite double of magnitude < 2^30.
    Noise,
}

fn fill_scratch(scratch: &mut ScratchOwned<BE>, prior: Prior) {
    let bytes: &mut [u8] = &mut scratch.borrow().data;
    bytes.chunks_exact_mut(8).enumerate().for_each(|(i, c)| {
        let word: [u8; 8] = match prior {
            Prior::Zero => [0u8; 8],
            Prior::F64(v) => v.to_le_bytes(),
            Prior::Bits(b) => b.to_le_bytes(),
            Prior::Noise => {
                let h: u64 = (i as u64 + 1).wrapping_mul(0x9E37_79B9_7F4A_7C15);
                (((h >> 33) as i64 - (1i64 << 30)) as f64).to_le_bytes()
            }
        };
        c.copy_from_slice(&word)
    });
}

const OPS: [&str; 8] = [
    "automorphism (control)",
    "automorphism_assign (control)",
    "automorphism_add",
    "automorphism_add_assign",
    "automorphism_sub",
    "automorphism_sub_assign",
    "automorphism_sub_negate",
    "automorphism_sub_negate_assign",
];

struct Outcome {
    /// One raw output per entry of `OPS`.
    outs: Vec<Vec<i64>>,
    /// log2(std) of the noise of `automorphism_add` w.r.t. sigma_p(m) + m.
    add_noise_log2: f64,
}

fn run(dsize: usize, rank: usize, in_base2k: usize, key_base2k: usize, out_base2k: usize, prior: Prior) -> Outcome {
    let module: Module<BE> = Module::<BE>::new(N as u64);

    let k_in: usize = 4 * in_base2k + 1;
    let k_ksk: usize = k_in + key_base2k * dsize;
    let k_out: usize = k_ksk;
    let dnum: usize = k_in.div_ceil(key_base2k * dsize);

    let ct_in_infos = EncryptionLayout::new_from_default_sigma(GLWELayout {
        n: N.into(),
        base2k: in_base2k.into(),
        k: k_in.into(),
        rank: rank.into(),
    })
    .unwrap();
    let ct_out_infos: GLWELayout = GLWELayout {
        n: N.into(),
        base2k: out_base2k.into(),
        k: k_out.into(),
        rank: rank.into(),
    };
    let autokey_infos = EncryptionLayout::new_from_default_sigma(GLWEAutomorphismKeyLayout {
        n: N.into(),
        base2k: key_base2k.into(),
        k: k_ksk.into(),
        rank: rank.into(),
        dnum: dnum.into(),
        dsize: dsize.into(),
    })
    .unwrap();

    let mut autokey: GLWEAutomorphismKey<Vec<u8>> = GLWEAutomorphismKey::alloc_from_infos(&autokey_infos);
    let mut ct_in: GLWE<Vec<u8>> = GLWE::alloc_from_infos(&ct_in_infos);
    let mut pt_in: GLWEPlaintext<Vec<u8>> = GLWEPlaintext::alloc_from_infos(&ct_in_infos);

    let mut source_xs: Source = Source::new([0u8; 32]);
    let mut source_xe: Source = Source::new([1u8; 32]);
    let mut source_xa: Source = Source::new([2u8; 32]);

    module.vec_znx_fill_uniform(in_base2k, &mut pt_in.data, 0, &mut source_xa);

    // Setup scratch: never used for the operations under test.
    let mut scratch_setup: ScratchOwned<BE> = ScratchOwned::alloc(
        module.glwe_automorphism_key_encrypt_sk_tmp_bytes(&autokey_infos)
            | module.glwe_encrypt_sk_tmp_bytes(&ct_in_infos)
            | module.glwe_noise_tmp_bytes(&ct_out_infos)
            | module.glwe_normalize_tmp_bytes(),
    );

    let mut sk: GLWESecret<Vec<u8>> = GLWESecret::alloc(N.into(), rank.into());
    sk.fill_ternary_prob(0.5, &mut source_xs);
    let mut sk_prepared: GLWESecretPrepared<DeviceBuf<BE>, BE> = module.glwe_secret_prepared_alloc(rank.into());
    module.glwe_secret_prepare(&mut sk_prepared, &sk);

    module.glwe_automorphism_key_encrypt_sk(
        &mut autokey,
        P,
        &sk,
        &autokey_infos,
        &mut source_xe,
        &mut source_xa,
        scratch_setup.borrow(),
    );
    module.glwe_encrypt_sk(
        &mut ct_in,
        &pt_in,
        &sk_prepared,
        &ct_in_infos,
        &mut source_xe,
        &mut source_xa,
        scratch_setup.borrow(),
    );

    let mut key: GLWEAutomorphismKeyPrepared<DeviceBuf<BE>, BE> =
        module.glwe_automorphism_key_prepared_alloc_from_infos(&autokey_infos);
    module.glwe_automorphism_key_prepare(&mut key, &autokey, scratch_setup.borrow());

    let mut outs: Vec<Vec<i64>> = Vec::new();

    // ---- out-of-place variants: exactly-sized scratch with chosen prior contents ----
    let oop_bytes: usize = module.glwe_automorphism_tmp_bytes(&ct_out_infos, &ct_in_infos, &autokey_infos);
    // ---- in-place variants (same layout in and out) ----
    let inp_bytes: usize = module.glwe_automorphism_tmp_bytes(&ct_out_infos, &ct_out_infos, &autokey_infos);

    let mut add_out: Option<GLWE<Vec<u8>>> = None;

    for (i, _) in OPS.iter().enumerate() {
        let in_place: bool = i % 2 == 1;
        let mut scratch: ScratchOwned<BE> = ScratchOwned::alloc(if in_place { inp_bytes } else { oop_bytes });
        let mut res: GLWE<Vec<u8>> = GLWE::alloc_from_infos(&ct_out_infos);
        if in_place {
            module.glwe_normalize(&mut res, &ct_in, scratch_setup.borrow());
        }
        fill_scratch(&mut scratch, prior);
        match i {
            0 => module.glwe_automorphism(&mut res, &ct_in, &key, scratch.borrow()),
            1 => module.glwe_automorphism_assign(&mut res, &key, scratch.borrow()),
            2 => module.glwe_automorphism_add(&mut res, &ct_in, &key, scratch.borrow()),
            3 => module.glwe_automorphism_add_assign(&mut res, &key, scratch.borrow()),
            4 => module.glwe_automorphism_sub(&mut res, &ct_in, &key, scratch.borrow()),
            5 => module.glwe_automorphism_sub_assign(&mut res, &key, scratch.borrow()),
            6 => module.glwe_automorphism_sub_negate(&mut res, &ct_in, &key, scratch.borrow()),
            7 => module.glwe_automorphism_sub_negate_assign(&mut res, &key, scratch.borrow()),
            _ => unreachable!(),
        }
        outs.push(res.data().raw().to_vec());
        if i == 2 {
            add_out = Some(res);
        }
    }

    // Noise of automorphism_add with respect to sigma_p(m) + m.
    let mut pt_want: GLWEPlaintext<Vec<u8>> = GLWEPlaintext::alloc_from_infos(&ct_out_infos);
    let mut pt_auto: GLWEPlaintext<Vec<u8>> = GLWEPlaintext::alloc_from_infos(&ct_out_infos);
    module.glwe_normalize(&mut pt_want, &pt_in, scratch_setup.borrow());
    module.glwe_normalize(&mut pt_auto, &pt_in, scratch_setup.borrow());
    module.vec_znx_automorphism_assign(P, &mut pt_auto.data, 0, scratch_setup.borrow());
    module.vec_znx_add_assign(&mut pt_want.data, 0, &pt_auto.data, 0);
    let add_noise_log2: f64 = module
        .glwe_noise(&add_out.unwrap(), &pt_want, &sk_prepared, scratch_setup.borrow())
        .std()
        .log2();

    Outcome { outs, add_noise_log2 }
}

fn check(dsizes: std::ops::RangeInclusive<usize>) {
    // (in, key, out) base2k: same-radix and cross-radix paths.
    let radices: [(usize, usize, usize); 2] = [(17, 17, 17), (16, 17, 15)];
    let priors: [Prior; 6] = [
        Prior::F64(1.0),
        Prior::F64(1.0e9),
        Prior::F64(1.0e300),
        Prior::Noise,
        Prior::F64(f64::NAN),
        Prior::Bits(0xFFFF_FFFF_FFFF_FFFF),
    ];

    let mut failures: Vec<String> = Vec::new();

    for (in_base2k, key_base2k, out_base2k) in radices {
        for rank in 1..=2 {
            for dsize in dsizes.clone() {
                let clean: Outcome = run(dsize, rank, in_base2k, key_base2k, out_base2k, Prior::Zero);
                for p in priors {
                    let dirty: Outcome = run(dsize, rank, in_base2k, key_base2k, out_base2k, p);
                    for (i, op) in OPS.iter().enumerate() {
                        let same: bool = clean.outs[i] == dirty.outs[i];
                        let ndiff: usize = clean.outs[i].iter().zip(dirty.outs[i].iter()).filter(|(a, b)| a != b).count();
                        let line: String = format!(
                            "base2k=({in_base2k},{key_base2k},{out_base2k}) rank={rank} dsize={dsize} prior={p:?}: \
                             {op} identical={same} differing_words={ndiff}/{} (add noise_log2 clean={:.2} dirty={:.2})",
                            clean.outs[i].len(),
                            clean.add_noise_log2,
                            dirty.add_noise_log2
                        );
                        println!("{line}");
                        if !same {
                            failures.push(line);
                        }
                    }
                }
            }
        }
    }

    assert!(
        failures.is_empty(),
        "automorphism result depends on the prior contents of the scratch buffer ({} cases):\n{}",
        failures.len(),
        failures.join("\n")
    );
}

#[test]
fn glwe_automorphism_fused_ops_scratch_independent_dsize_1() {
    check(1..=1);
}

#[test]
fn glwe_automorphism_fused_ops_scratch_independent_dsize_2() {
    check(2..=2);
}

#[test]
fn glwe_automorphism_fused_ops_scratch_independent_dsize_3() {
    check(3..=3);
}

#[test]
fn glwe_automorphism_fused_ops_scratch_independent_dsize_4() {
    check(4..=4);
}
