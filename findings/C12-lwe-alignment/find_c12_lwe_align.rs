use poulpy_core::{
    EncryptionLayout, LWEEncryptSk,
    layouts::{LWE, LWELayout, LWEPlaintext, LWESecret},
};
use poulpy_cpu_ref::FFT64Ref;
use poulpy_hal::{
    alloc_aligned,
    api::{ModuleNew, ScratchFromBytes},
    layouts::{Module, Scratch},
    source::Source,
};

/// lwe_encrypt_sk must run in a 64-byte aligned window of exactly lwe_encrypt_sk_tmp_bytes bytes.
#[test]
fn lwe_encrypt_sk_exact_scratch_window() {
    let module: Module<FFT64Ref> = Module::<FFT64Ref>::new(16);
    for size in 1usize..6 {
        let base2k = 12usize;
        let infos = EncryptionLayout::new_from_default_sigma(LWELayout { n: 16u32.into(), k: ((size * base2k) as u32).into(), base2k: (base2k as u32).into() }).unwrap();
        let mut sk: LWESecret<Vec<u8>> = LWESecret::alloc(16u32.into());
        sk.fill_ternary_prob(0.5, &mut Source::new([0u8; 32]));
        let mut pt: LWEPlaintext<Vec<u8>> = LWEPlaintext::alloc((base2k as u32).into(), 8u32.into());
        pt.encode_i64(3, 8u32.into());
        let mut ct: LWE<Vec<u8>> = LWE::alloc_from_infos(&infos);
        let bytes = module.lwe_encrypt_sk_tmp_bytes(&infos);
        let mut buf: Vec<u8> = alloc_aligned::<u8>(bytes + 64);
        let window = &mut buf[..bytes];
        let scratch: &mut Scratch<FFT64Ref> = Scratch::<FFT64Ref>::from_bytes(window);
        module.lwe_encrypt_sk(&mut ct, &pt, &sk, &infos, &mut Source::new([1u8; 32]), &mut Source::new([2u8; 32]), scratch);
    }
}
